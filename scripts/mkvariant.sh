#!/bin/bash
# usage: mkvariant.sh <patch.diff> <dir>  — scratch copy of /repo with the patch applied (for debugging a check; remove it afterwards)
set -eu
P=$(readlink -f "$1")
rm -rf "$2"; mkdir -p "$2"; rsync -a --exclude .git /repo/ "$2/"; cd "$2"; patch -p1 -s -E --no-backup-if-mismatch < "$P"
