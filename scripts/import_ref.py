#!/usr/bin/env python3
# import_ref.py <round> <Rk> <srcdir>: copy behaviour-preserving refactoring patches of one sub-agent into mutants/silent
import sys, os, json, shutil, glob
rnd, rk, src = sys.argv[1], sys.argv[2], sys.argv[3]
kinds = {"1": "mixed refactoring PR", "2": "signature reshaping", "3": "method objects", "4": "interface indirection",
         "5": "generic / table-driven helpers", "6": "defensive accessors and named conditions"}
if rnd == "6":
    kinds = {"1": "optional diagnostics hook, off by default", "2": "read/write lock or atomic API refinement", "3": "lookup tables, switches and named predicates",
             "4": "provably equivalent fast paths", "5": "additive API ergonomics", "6": "test-support seams"}
if rnd in ("8", "9", "10", "11", "12"):
    kinds = {}
if rnd == "7":
    kinds = {"1": "extract-method / inline-method code motion", "2": "control-flow restyling", "3": "data layout clean-up (by-value field groups)",
             "4": "closures to named functions and back", "5": "de-duplication through a shared helper", "6": "API hygiene (docs, aliases, message text, renames)"}
if rnd == "5":
    kinds = {"1": "modernisation and idiom clean-up", "2": "additive observability-only feature", "3": "performance-motivated equivalent edits",
             "4": "defensive programming", "5": "code organisation", "6": "error and context plumbing clean-up"}
props = ["C%02d" % i for i in range(1, 20)]
for d in sorted(glob.glob(src + "/[0-9]*")):
    n = os.path.basename(d)
    p = os.path.join(d, "patch.diff")
    if not os.path.exists(p):
        continue
    t = "/verif/mutants/silent/ref%s-%s-%s" % (rnd, rk, n)
    os.makedirs(t, exist_ok=True)
    shutil.copy(p, t + "/patch.diff")
    if os.path.exists(d + "/notes.md"):
        shutil.copy(d + "/notes.md", t + "/notes.md")
    json.dump({"kind": "must-stay-silent", "properties": props,
               "what": "round-%s behaviour-preserving refactoring by an independent sub-agent (%s, patch %s: %s)" % (rnd, rk, n, kinds.get(n, "refactoring of the maintainer's own choice" if rnd in ("8", "9", "10", "11", "12") else "further refactoring")),
               "renames_unexported_identifier": True}, open(t + "/expect.json", "w"), indent=1)
    print(t)
