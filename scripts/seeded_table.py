#!/usr/bin/env python3
"""Regenerates DESIGN.md §8 (between the SEEDED-TABLE markers) from /verif/seeded/*/meta.json and a selftest report
(fscheck selftest -kind must-fire -only seeded -report <file>)."""
import json,glob,os,re,sys
rep={ (r['entry'],r['property']):r for r in json.load(open(sys.argv[1])) }
rows=[]
for d in sorted(glob.glob('/verif/seeded/*')):
    m=json.load(open(d+'/meta.json'))
    sid=os.path.basename(d)
    r=rep.get(('seeded/'+sid,m['property']))
    what=''
    p=d+'/patch.diff'
    files=sorted(set(re.findall(r'^\+\+\+ b/(\S+)',open(p).read(),re.M)))
    notes=m.get('needs_to_manifest','')
    first=' '.join(notes.split())[:0]
    outcome='not run'; rule=''
    if r:
        outcome=r['outcome']
        mm=re.search(r'rule (C\d+\.[\w-]+), construct (\S+)',r.get('detail',''))
        if mm: rule=f"`{mm.group(1)}` → `{mm.group(2)}`"
    rows.append(f"| {sid} | {m['property']} | {', '.join(files)} | {outcome} | {rule} |")
table="| seeded change | property | files changed | check outcome | rule → construct that reports it |\n|---|---|---|---|---|\n"+"\n".join(rows)
s=open('/verif/DESIGN.md').read()
a,b='<!-- SEEDED-TABLE-BEGIN -->','<!-- SEEDED-TABLE-END -->'
if a in s:
    s=s[:s.index(a)+len(a)]+"\n"+table+"\n"+s[s.index(b):]
    open('/verif/DESIGN.md','w').write(s)
print(len(rows),'rows')
