#!/bin/bash
# Runs the repository's pinned test-suite (guard OFF; there are no hooks) and compares the set of
# passing tests with BASELINE.json's stable_pass. Exit 0 iff every stable test passes.
set -u
export GOFLAGS=-mod=mod GOPROXY=off GOSUMDB=off GOTOOLCHAIN=local
unset GOWORK
REPO=${1:-/repo}
OUT=$(mktemp /var/tmp/baseline.XXXXXX.json)
(cd "$REPO" && go test -json -vet=off -count=1 -timeout 25m ./... >"$OUT" 2>/dev/null)
python3 - "$OUT" <<'PY'
import json,sys
passed=set()
for l in open(sys.argv[1]):
    try: e=json.loads(l)
    except Exception: continue
    if e.get('Action')=='pass' and e.get('Test'):
        passed.add(e['Package']+'::'+e['Test'])
base=json.load(open('/root/.vp/BASELINE.json'))
missing=[t for t in base['stable_pass'] if t not in passed]
print(f"baseline: {len(base['stable_pass'])-len(missing)}/{len(base['stable_pass'])} stable tests pass")
for m in missing: print("MISSING", m)
sys.exit(1 if missing else 0)
PY
rc=$?
rm -f "$OUT"
exit $rc
