# offline Go environment shared by every script
export GOFLAGS=-mod=mod GOPROXY=off GOSUMDB=off GOTOOLCHAIN=local GONOSUMDB=* GONOSUMCHECK=1 GOFLAGS=-mod=mod
unset GOWORK
