#!/bin/bash
# usage: trymut.sh <patch.diff> <prop> [<prop>...]   — applies the patch to a scratch copy of /repo (outside
# /repo and /verif), checks that it builds, runs the given property checks against the copy, deletes the copy.
# Exit status: 0 if at least one check reported a violation (mutant detected), 3 if none did, 2 on setup errors.
set -u
export GOFLAGS=-mod=mod GOPROXY=off GOSUMDB=off GOTOOLCHAIN=local
unset GOWORK
PATCH=$(readlink -f "$1"); shift
D=$(mktemp -d ${TMPDIR:-/var/tmp}/fsmut.XXXXXX)
trap 'rm -rf "$D"' EXIT
rsync -a --exclude .git /repo/ "$D/"
if ! (cd "$D" && patch -p1 -s -E --no-backup-if-mismatch < "$PATCH"); then echo "PATCH-DOES-NOT-APPLY"; exit 2; fi
if ! (cd "$D" && go build -trimpath ./... >"$D/.build.log" 2>&1); then head -5 "$D/.build.log"; echo "BUILD-FAILED"; exit 2; fi
det=3
for p in "$@"; do
  out=$(/verif/bin/fscheck check -prop "$p" -repo "$D" -verif /verif -no-evidence 2>&1)
  if echo "$out" | grep -q '^VIOLATION'; then det=0; fi
  echo "$out" | grep -E '^(VIOLATION|  rule|KNOWN|C[0-9]+ )' | sed "s#$D/##g" | cut -c1-300
done
exit $det
