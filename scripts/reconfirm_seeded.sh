#!/bin/bash
# usage: reconfirm_seeded.sh <seeded-id>...   — after /repo moved on (a repair landed), re-establishes for a kept change that
# it still applies and builds, and that its demonstration still FAILS with it and PASSES without it, in a scratch
# worktree of /repo's HEAD that is removed afterwards. Prints "<id> STILL-BREAKS" or "<id> NO-LONGER-BREAKS: …".
export GOFLAGS=-mod=mod GOPROXY=off GOSUMDB=off GOTOOLCHAIN=local
unset GOWORK
for id in "$@"; do
  d=/verif/seeded/$id
  wt=$(mktemp -d /var/tmp/reconf.XXXXXX); rmdir "$wt"
  git -C /repo worktree add -q --detach "$wt" HEAD || { echo "$id SETUP-FAILED"; continue; }
  cmd=$(python3 -c "import json;print(json.load(open('$d/meta.json'))['demo_cmd'])")
  python3 - "$d" "$wt" <<'PY'
import json,sys,shutil,os
d,wt=sys.argv[1],sys.argv[2]
m=json.load(open(d+'/meta.json'))
for f,dest in m['demo_files'].items():
    os.makedirs(os.path.join(wt,dest),exist_ok=True)
    shutil.copy(os.path.join(d,f),os.path.join(wt,dest,f))
PY
  res=""
  if ! (cd "$wt" && patch -p1 -s --no-backup-if-mismatch < "$d/patch.diff"); then res="NO-LONGER-APPLIES"; fi
  if [ -z "$res" ] && ! (cd "$wt" && go build ./... >/dev/null 2>&1); then res="NO-LONGER-BUILDS"; fi
  if [ -z "$res" ]; then
    (cd "$wt" && eval "$cmd" >/dev/null 2>&1); with=$?
    (cd "$wt" && patch -R -p1 -s --no-backup-if-mismatch < "$d/patch.diff")
    (cd "$wt" && eval "$cmd" >/dev/null 2>&1); without=$?
    if [ $with -ne 0 ] && [ $without -eq 0 ]; then res="STILL-BREAKS"; else res="NO-LONGER-BREAKS: demo rc with=$with without=$without"; fi
  fi
  echo "$id $res"
  git -C /repo worktree remove --force "$wt" 2>/dev/null; rm -rf "$wt"
done
git -C /repo worktree prune
