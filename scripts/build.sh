#!/bin/bash
# builds the checker from /verif/fscheck (module cache only, offline)
set -e
. /verif/scripts/env.sh
mkdir -p /verif/bin
cd /verif/fscheck
go build -o /verif/bin/fscheck .
