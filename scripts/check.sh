#!/bin/bash
# usage: check.sh <property id> <quick|thorough>      — decides the property on /repo's current working tree
#        check.sh --replay <replay file>               — re-runs the property of a replay file and prints the obligation
# Exit 0: every obligation discharged (known findings are printed, not failing). Exit 1: VIOLATION lines.
. /verif/scripts/env.sh
REPO=${FSCHECK_REPO:-/repo}
if [ ! -x /verif/bin/fscheck ] || [ -n "$(find /verif/fscheck -newer /verif/bin/fscheck -name '*.go' 2>/dev/null | head -1)" ]; then
  /verif/scripts/build.sh || { echo "VIOLATION property=${1} replay=/verif/evidence/replay/build-failed"; exit 1; }
fi
if [ "$1" = "--replay" ]; then
  exec /verif/bin/fscheck explain -repo "$REPO" "$2"
fi
exec /verif/bin/fscheck check -prop "$1" -tier "${2:-quick}" -repo "$REPO" -verif /verif
