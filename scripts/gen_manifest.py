#!/usr/bin/env python3
"""Regenerates /verif/MANIFEST.json from the table below (claimed properties) and properties.jsonl."""
import json
CLAIMED = {
 "C01": ("§3 C01", "Every structural clause of the nesting argument is decided on each run by path-sensitive abstract evaluation of the go/ssa bodies: composition order and single invocation in execute, the leaf, BaseExecutor.Apply/PostExecute, WithDone/WithFailure, self-binding of all eight ToExecutor, the eight entry points, plus the wrapper summaries of every policy executor. These are necessary conditions (breaking one changes which function invocations happen or what the caller receives); the behavioural statement over all stacks and histories is not decided."),
 "C02": ("§3 C02", "Decides the retry loop's licensing conditions (a further attempt only after PostExecute says not-Done, RecordResult and InitializeRetry return nil and the delay was waited), the OnFailure decision table for every ordering of failedAttempts/maxRetries and elapsed/maxDuration at once (linear normal form, so off-by-one errors are decided for all magnitudes), the ExceededError/ReturnLastFailure result, the shared failure classification, and ownership of the per-execution budget. Necessary conditions, not the behaviour over all scripts."),
 "C03": ("§3 C03", "Decides the breaker's machine skeleton (state ownership, the documented transition edges, transitionTo's summary including delay selection and listener dispatch) and its comparison logic as decision tables over all orderings of the compared quantities for the closed, open and half-open states, plus the counting ring's and timed buckets' bookkeeping invariants and the exclusive use of the configured clock. Window contents over time, rate rounding and metrics values are not decided."),
 "C04": ("§3 C04", "Decides the admission gate (refused permit ⇒ non-nil ErrOpen result returned before innerFn), the permit pairing (admitted ⇒ exactly one record under the mutex on every returning path, each record releasing exactly one half-open permit), the half-open permit counter's guard and the open state's delay comparison including the boundary, and the breaker's lock discipline. The schedule clause about executions admitted before opening is not decided."),
 "C05": ("§3 C05", "Decides the limiter's state updates exactly (refusal stores nothing request-dependent; grants advance the smooth slot by k intervals / subtract k permits; bursty refill capped at periodPermits), the max-wait comparison, that blocking acquires succeed only through the timer lasting the reserved wait, API delegation, and the executor's gate. The wait-time arithmetic for non-fitting requests and fairness are not decided."),
 "C06": ("§3 C06", "Close to a complete structural argument modulo Go channel semantics and panics: capacity = maxConcurrency, exclusive ownership of the semaphore, success ⇔ exactly one send chosen in every acquire function, exactly one release after every admitted innerFn and none after a refusal."),
 "C07": ("§3 C07", "Decides the exclusivity protocol (two CompareAndSwap(nil,·) on one per-attempt pointer, listener and Cancel only in the callback's success branch, timer stopped when the inner result wins), that the timer lasts exactly the configured limit and is armed per attempt, that ErrExceeded is produced only by the callback, and Timeout.IsFailure's table. Real elapsed time is not decided."),
 "C08": ("§3 C08", "Decides the cancellation plumbing: inventory of all blocking operations (interruptible or reviewed), cancellation tests after every attempt and between wait and next attempt, cancel results returned as the cause, the execution's four state methods' protocol under one mutex, atomic cause+cancel for async executions. Promptness as time is not decided."),
 "C09": ("§3 C09", "Decides the attempt bound (hedge k only on paths implying k ≤ maxHedges and only through the delay timer), per-wait delay computation, copy kinds and counters, the once-only delivery protocol of the attempt goroutine, cancellation of every other started attempt and not the winner, and the parent's cancellation re-test. Timing is not decided."),
 "C10": ("§3 C10", "Decides the fallback wrapper path by path: applied iff PostExecute reports a handled failure and the execution is not cancelled, exactly once, with a copy carrying the failed result; output classified by the same IsFailure; unhandled results returned unchanged; the builders; the shared classification rules."),
 "C11": ("§3 C11", "Decides PreExecute/PostExecute as decision tables (key precedence, Get/Set iff key non-empty, hit result shape, store condition) and that a hit short-circuits innerFn and PostExecute through BaseExecutor.Apply. The user's Cache is opaque."),
 "C12": ("§3 C12", "Decides IsFailure as a decision table against the documented rule, every registrar including per-argument capture of loop variables and the documented HandleResult restriction to error-free outcomes, AppliesToAny, errorAs' unwrap exhaustiveness, and that retry/breaker/fallback share the builder's BaseFailurePolicy. errors.Is/reflect are trusted."),
 "C13": ("§3 C13", "Decides the delay envelope's shape on every path: max(0, [min(·, maxDuration−elapsed)] jitter?(base)), the base's precedence and backoff clamp, jitter applied once and never stored, the random helpers' formulas, and that the next attempt is reachable only through the timer lasting getDelay's value. Magnitudes and float rounding are not decided."),
 "C14": ("§3 C14", "Decides lock discipline (guarded-by with interprocedural needs-lock propagation, deferred unlock, lock inventory, acyclic lock order), spawn-shared variables, hand-off protocols, one fresh executor per execution, immutable configuration, private copies for user callbacks, and enumerates the executor composition matrix for unsynchronised per-execution state (one known finding). Race freedom is argued from happens-before structure, not from schedules; user code is out of scope."),
 "C15": ("§3 C15", "Decides the publication order in record, its single call site after execute, Get blocking before any read, delegation of Result/Error/IsDone/Done, the shared execute path of sync and async entry points, and the atomicity of Cancel's cause with the context cancellation."),
 "C16": ("§3 C16", "Decides, per listener field, the condition and multiplicity of its invocation on every path (decision tables for the executor and retry listeners, transition summaries for the breaker, wrapper summaries for the rest) and that every registered listener is invoked somewhere. Event counts for a given script follow from these per-path facts plus the C02/C09 bounds and are not computed."),
 "C17": ("§3 C17", "Decides who may touch the four counters and by how much (hence Attempts = 1 + Retries + Hedges at every observation point), that record() runs exactly once after each user-function return and nowhere else, that RecordResult overwrites both last fields, the getters and flags, and the start-time writers."),
 "C18": ("§3 C18", "Decides the adapters' structure: context merging (derivation from the caller's context, Background-only shortcuts, watcher), per-attempt request clone with fresh body, body kinds, gRPC pass-through, and the retryable classifications as decision tables. One known finding (premature cancel of the returned response's context). Bytes on the wire are not decided."),
 "C19": ("§3 C19", "Decides the spawn inventory with per-site termination arguments, timer release on every path, cancellation of per-attempt merged contexts, and the necessary condition for closing discarded responses (one known finding). Live goroutine counts are not measured."),
}
TECH = "static analysis: path-sensitive abstract interpretation (predicate abstraction + constant propagation over go/ssa, no execution, no solver), decision tables, ownership/call-graph queries over the type-checked program"
props=[json.loads(l) for l in open('/verif/properties.jsonl')]
checks=[]; na=[]
for p in props:
    pid=p['id']
    if pid in CLAIMED:
        ref,text=CLAIMED[pid]
        checks.append({"property_id":pid,
          "quick_cmd":f"/verif/scripts/check.sh {pid} quick",
          "thorough_cmd":f"/verif/scripts/check.sh {pid} thorough",
          "evidence_file":f"/verif/evidence/{pid}.json",
          "replay_cmd_template":"/verif/scripts/check.sh --replay {path}",
          "engine":"fscheck",
          "level_claimed":{"category":"other","text":text,"design_ref":"DESIGN.md "+ref},
          "level_note":"Trusted: go/types + go/ssa (x/tools v0.29.0), the Go memory model and documented contracts of the standard library, the spec tables in fscheck (written from the property statement and the repo's doc comments). Assumed: user callbacks do not touch unexported library state; integer arithmetic inside decision tables is mathematical. Only structural necessary conditions are decided.",
          "technique":TECH})
    else:
        na.append({"property_id":pid,"reason":"static rules for this property are not implemented yet in this revision (planned: DESIGN.md §3 "+pid+"); nothing is claimed until they run"})
m={"version":1,
 "setup_cmd":"/verif/scripts/build.sh",
 "hooks":{"guard":"verif","enable":"none: no hooks or instrumentation were added to /repo; the checks analyse the source as it is","baseline_off_cmd":"/verif/scripts/baseline.sh","source_commits":[],"add_only":True},
 "engines":[{"name":"fscheck","path":"/verif/fscheck","serves_properties":sorted(CLAIMED),"kind_free_text":"repository-specific static analyser on go/packages + go/ssa: path-sensitive abstract evaluator, decision tables, ownership and lock-set indexes"}],
 "checks":checks,
 "notes":"All checks analyse /repo's current working tree without executing it. Genuine defects found are recorded in /verif/known_findings.json (fixed ones as fix: commits in /repo).",
 "not_applicable":na}
json.dump(m,open('/verif/MANIFEST.json','w'),indent=1)
print(len(checks),"claimed",len(na),"not claimed")
