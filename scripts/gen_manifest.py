#!/usr/bin/env python3
"""Regenerates /verif/MANIFEST.json from the table below (claimed properties) and properties.jsonl."""
import json
CLAIMED = {
 "C01": ("§3 C01", "Every structural clause of the nesting argument is decided on each run by path-sensitive abstract evaluation of the go/ssa bodies: composition order and single invocation in execute, the leaf, BaseExecutor.Apply/PostExecute, WithDone/WithFailure, self-binding of all eight ToExecutor, the eight entry points. These are necessary conditions (breaking one changes which function invocations happen or what the caller receives); the behavioural statement over all stacks and histories is not decided."),
 "C02": ("§3 C02", "Decides the retry loop's licensing conditions (a further attempt only after PostExecute says not-Done, RecordResult and InitializeRetry return nil and the delay was waited), the OnFailure decision table for every ordering of failedAttempts/maxRetries and elapsed/maxDuration at once (linear normal form, so off-by-one errors are decided for all magnitudes), the ExceededError/ReturnLastFailure result, and ownership of the per-execution budget. Necessary conditions, not the behaviour over all scripts."),
 "C12": ("§3 C12", "Decides IsFailure as a 16+-row decision table against the documented rule, every registrar including per-argument capture of loop variables and the documented HandleResult restriction to error-free outcomes, AppliesToAny, errorAs' unwrap exhaustiveness, and that retry/breaker/fallback share the builder's BaseFailurePolicy. errors.Is/reflect are trusted."),
}
TECH = "static analysis: path-sensitive abstract interpretation (predicate abstraction + constant propagation over go/ssa, no execution, no solver), decision tables, ownership/call-graph queries over the type-checked program"
props=[json.loads(l) for l in open('/verif/properties.jsonl')]
checks=[]; na=[]
for p in props:
    pid=p['id']
    if pid in CLAIMED:
        ref,text=CLAIMED[pid]
        checks.append({"property_id":pid,
          "quick_cmd":f"/verif/scripts/check.sh {pid} quick",
          "thorough_cmd":f"/verif/scripts/check.sh {pid} thorough",
          "evidence_file":f"/verif/evidence/{pid}.json",
          "replay_cmd_template":"/verif/scripts/check.sh --replay {path}",
          "engine":"fscheck",
          "level_claimed":{"category":"other","text":text,"design_ref":"DESIGN.md "+ref},
          "level_note":"Trusted: go/types + go/ssa (x/tools v0.29.0), the Go memory model and documented contracts of the standard library, the spec tables in fscheck (written from the property statement and the repo's doc comments). Assumed: user callbacks do not touch unexported library state; integer arithmetic inside decision tables is mathematical. Only structural necessary conditions are decided.",
          "technique":TECH})
    else:
        na.append({"property_id":pid,"reason":"static rules for this property are not implemented yet in this revision (planned: DESIGN.md §3 "+pid+"); nothing is claimed until they run"})
m={"version":1,
 "setup_cmd":"/verif/scripts/build.sh",
 "hooks":{"guard":"verif","enable":"none: no hooks or instrumentation were added to /repo; the checks analyse the source as it is","baseline_off_cmd":"/verif/scripts/baseline.sh","source_commits":[],"add_only":True},
 "engines":[{"name":"fscheck","path":"/verif/fscheck","serves_properties":sorted(CLAIMED),"kind_free_text":"repository-specific static analyser on go/packages + go/ssa: path-sensitive abstract evaluator, decision tables, ownership and lock-set indexes"}],
 "checks":checks,
 "notes":"All checks analyse /repo's current working tree without executing it. Genuine defects found are recorded in /verif/known_findings.json (fixed ones as fix: commits in /repo).",
 "not_applicable":na}
json.dump(m,open('/verif/MANIFEST.json','w'),indent=1)
print(len(checks),"claimed",len(na),"not claimed")
