#!/usr/bin/env python3
"""Confirms adversarial changes produced by sub-agents and files them under /verif/seeded/<id>/.

For each /tmp/mut/<Cxx>/OUT/<A|B>: in a fresh scratch worktree of /repo (outside /repo and /verif, removed
afterwards) the patch must apply and build, the full existing suite must still pass (examples::TestCache
excepted, as in the baseline; a failing package is re-run to tell flakes apart), and the demonstration must
FAIL with the patch and PASS without it. Only then is the change kept.
"""
import json, os, re, shutil, subprocess, sys, glob, time

ENV = dict(os.environ, GOFLAGS="-mod=mod", GOPROXY="off", GOSUMDB="off", GOTOOLCHAIN="local")
ENV.pop("GOWORK", None)
SCR = "/var/tmp/confirm"

def sh(cmd, cwd, timeout=1500):
    p = subprocess.run(cmd, cwd=cwd, shell=True, env=ENV, capture_output=True, text=True, timeout=timeout)
    return p.returncode, p.stdout + p.stderr

def suite(wt):
    rc, out = sh("go test -vet=off -count=1 ./... 2>&1", wt)
    failed = sorted(set(re.findall(r"^(?:FAIL|---\s*FAIL.*?)\s+(github\.com/failsafe-go/failsafe-go\S*)", out, re.M)) | set(re.findall(r"^FAIL\s+(github\.com/\S+)", out, re.M)))
    failed = [f for f in failed if not f.endswith("/examples")]
    flaky = []
    for attempt in range(2):
        if not failed: break
        still = []
        for pkg in failed:
            rel = "./" + pkg.split("failsafe-go/failsafe-go/")[-1] if "/failsafe-go/failsafe-go/" in pkg else "."
            rc2, out2 = sh(f"go test -vet=off -count=1 {rel} 2>&1", wt)
            if rc2 != 0: still.append(pkg)
            else: flaky.append(pkg)
        failed = still
    return failed, flaky

def main(only=None):
    os.makedirs(SCR, exist_ok=True)
    results = []
    for out in sorted(glob.glob("/tmp/mut/C*/OUT/[AB]")) + sorted(glob.glob("/tmp/mut2/C*/OUT/[AB]")) + sorted(glob.glob("/tmp/mut3/C*/OUT/[AB]")) + sorted(glob.glob("/tmp/mut4/C*/OUT/[AB]")) + sorted(glob.glob("/tmp/mut5/C*/OUT/[AB]")) + sorted(glob.glob("/tmp/mut6/C*/OUT/[AB]")) + sorted(glob.glob("/tmp/mut7/C*/OUT/[AB]")) + sorted(glob.glob("/tmp/mut8/C*/OUT/[AB]")) + sorted(glob.glob("/tmp/mut9/C*/OUT/[AB]")) + sorted(glob.glob("/tmp/mut10/C*/OUT/[AB]")) + sorted(glob.glob("/tmp/mut11/C*/OUT/[AB]")) + sorted(glob.glob("/tmp/mut12/C*/OUT/[AB]")) + sorted(glob.glob("/tmp/mut13/C*/OUT/[AB]")) + sorted(glob.glob("/tmp/mut14/C*/OUT/[AB]")):
        prop = out.split("/")[3]; variant = out.split("/")[5]
        sid = f"{prop}-{variant}" + ("2" if out.startswith("/tmp/mut2/") else "3" if out.startswith("/tmp/mut3/") else "4" if out.startswith("/tmp/mut4/") else "5" if out.startswith("/tmp/mut5/") else "6" if out.startswith("/tmp/mut6/") else "7" if out.startswith("/tmp/mut7/") else "8" if out.startswith("/tmp/mut8/") else "9" if out.startswith("/tmp/mut9/") else "10" if out.startswith("/tmp/mut10/") else "11" if out.startswith("/tmp/mut11/") else "12" if out.startswith("/tmp/mut12/") else "13" if out.startswith("/tmp/mut13/") else "14" if out.startswith("/tmp/mut14/") else "")
        if only and sid not in only: continue
        dest = f"/verif/seeded/{sid}"
        if os.path.exists(dest + "/meta.json") and not only: 
            continue
        patch = out + "/patch.diff"
        if not os.path.exists(patch): continue
        demo_txt = open(out + "/DEMO.txt").read() if os.path.exists(out + "/DEMO.txt") else ""
        demos = [f for f in os.listdir(out) if f.endswith(".go")]
        placement = {}
        for d in demos:
            cands = [m for m in re.findall(r"([A-Za-z0-9_./-]*/)" + re.escape(d), demo_txt) if "OUT/" not in m]
            placement[d] = (cands[-1] if cands else "test/").lstrip("./")
        m = re.search(r"go test[^\n`]*", demo_txt)
        run_cmd = m.group(0).strip() if m else "go test -vet=off -count=1 ./test/"
        wt = f"{SCR}/{sid}"
        subprocess.run(["git", "-C", "/repo", "worktree", "remove", "--force", wt], capture_output=True)
        shutil.rmtree(wt, ignore_errors=True)
        subprocess.run(["git", "-C", "/repo", "worktree", "add", "-q", "--detach", wt, "HEAD"], check=True)
        meta = {"id": sid, "property": prop, "source": f"independent sub-agent given only the text of {prop} and a scratch worktree", "repo_commit": subprocess.run(["git","-C","/repo","rev-parse","--short","HEAD"],capture_output=True,text=True).stdout.strip(),
                "demo_files": placement, "demo_cmd": run_cmd, "ran": []}
        try:
            rc, o = sh(f"git apply {patch}", wt); meta["ran"].append({"cmd": "git apply patch.diff", "rc": rc})
            if rc != 0: meta["confirmed"] = False; meta["why"] = "patch does not apply: " + o[-300:]; raise StopIteration
            rc, o = sh("go build ./... 2>&1", wt); meta["ran"].append({"cmd": "go build ./...", "rc": rc})
            if rc != 0: meta["confirmed"] = False; meta["why"] = "does not build: " + o[-300:]; raise StopIteration
            failed, flaky = suite(wt)
            meta["ran"].append({"cmd": "go test -vet=off -count=1 ./... (with change; failing packages re-run twice)", "failed_packages": failed, "flaky_packages": flaky})
            if failed: meta["confirmed"] = False; meta["why"] = "existing suite fails with the change: " + ", ".join(failed); raise StopIteration
            for d, rel in placement.items():
                os.makedirs(f"{wt}/{rel}", exist_ok=True); shutil.copy(f"{out}/{d}", f"{wt}/{rel}{d}")
            rc_with, o_with = sh(run_cmd + " 2>&1", wt, timeout=900)
            meta["ran"].append({"cmd": run_cmd + " (with change)", "rc": rc_with, "tail": o_with[-400:]})
            sh(f"git apply -R {patch}", wt)
            rc_wo, o_wo = sh(run_cmd + " 2>&1", wt, timeout=900)
            meta["ran"].append({"cmd": run_cmd + " (without change)", "rc": rc_wo, "tail": o_wo[-200:]})
            meta["confirmed"] = (rc_with != 0 and rc_wo == 0)
            if not meta["confirmed"]: meta["why"] = f"demo rc with change={rc_with}, without={rc_wo}"
        except StopIteration:
            pass
        except Exception as e:
            meta["confirmed"] = False; meta["why"] = repr(e)
        finally:
            subprocess.run(["git", "-C", "/repo", "worktree", "remove", "--force", wt], capture_output=True)
            shutil.rmtree(wt, ignore_errors=True)
        notes = open(out + "/notes.md").read() if os.path.exists(out + "/notes.md") else ""
        meta["needs_to_manifest"] = notes[:1500]
        if meta.get("confirmed"):
            os.makedirs(dest, exist_ok=True)
            shutil.copy(patch, dest + "/patch.diff")
            for d in demos: shutil.copy(f"{out}/{d}", f"{dest}/{d}")
            if demo_txt: open(dest + "/DEMO.txt", "w").write(demo_txt)
            json.dump(meta, open(dest + "/meta.json", "w"), indent=1)
        print(sid, "CONFIRMED" if meta.get("confirmed") else "REJECTED: " + meta.get("why", ""), flush=True)
        results.append(meta)
    subprocess.run(["git", "-C", "/repo", "worktree", "prune"], capture_output=True)

if __name__ == "__main__":
    main(set(sys.argv[1:]) or None)
