package main

// Whole-program structural indexes over the function universe: who stores to which struct field (OWN),
// who calls whom (CG, static + resolved dispatch), spawn / timer / blocking-operation inventories (EFFECT).

import (
	"go/token"
	"go/types"
	"sort"
	"strings"

	"golang.org/x/tools/go/ssa"
)

type FieldRef struct {
	Type  string // named struct type (without package), e.g. "executor"
	Pkg   string // package name of the struct type
	Field string
}

func (f FieldRef) String() string { return f.Pkg + "." + f.Type + "." + f.Field }

type Access struct {
	Fn    *ssa.Function
	Instr ssa.Instruction
	Write bool
}

type Index struct {
	P        *Program
	Accesses map[FieldRef][]Access // FieldAddr-based loads and stores (address-taken counts as write unless only loaded)
	Callers  map[*ssa.Function][]*ssa.Function
	Callees  map[*ssa.Function][]*ssa.Function
}

func fieldRefOf(t types.Type, idx int) (FieldRef, bool) {
	if p, ok := t.Underlying().(*types.Pointer); ok {
		t = p.Elem()
	}
	n, ok := t.(*types.Named)
	if !ok {
		return FieldRef{}, false
	}
	s, ok := n.Underlying().(*types.Struct)
	if !ok || idx >= s.NumFields() {
		return FieldRef{}, false
	}
	pkg := ""
	if n.Obj().Pkg() != nil {
		pkg = n.Obj().Pkg().Name()
	}
	return FieldRef{Type: n.Obj().Name(), Pkg: pkg, Field: s.Field(idx).Name()}, true
}

// classify how the address produced by a FieldAddr is used: "r", "w" or "rw"/"escape".
func addrUses(v ssa.Value, seen map[ssa.Value]bool) (read, write, escape bool) {
	if seen[v] {
		return
	}
	seen[v] = true
	refs := v.Referrers()
	if refs == nil {
		return
	}
	for _, r := range *refs {
		switch x := r.(type) {
		case *ssa.UnOp:
			if x.Op == token.MUL && x.X == v {
				read = true
			}
		case *ssa.Store:
			if x.Addr == v {
				write = true
			} else {
				escape = true
			}
		case *ssa.FieldAddr:
			r2, w2, e2 := addrUses(x, seen)
			read, write, escape = read || r2, write || w2, escape || e2
		case *ssa.IndexAddr:
			r2, w2, e2 := addrUses(x, seen)
			read, write, escape = read || r2, write || w2, escape || e2
		case *ssa.DebugRef:
		case *ssa.Call, *ssa.Go, *ssa.Defer:
			// address passed as receiver/argument (e.g. &mtx for Lock, atomic methods): neither plain read nor write
			escape = true
		default:
			escape = true
		}
	}
	return
}

func BuildIndex(p *Program) *Index {
	ix := &Index{P: p, Accesses: map[FieldRef][]Access{}, Callers: map[*ssa.Function][]*ssa.Function{}, Callees: map[*ssa.Function][]*ssa.Function{}}
	for _, fn := range p.Funcs {
		for _, b := range fn.Blocks {
			for _, in := range b.Instrs {
				switch x := in.(type) {
				case *ssa.FieldAddr:
					fr, ok := fieldRefOf(x.X.Type(), x.Field)
					if !ok {
						continue
					}
					r, w, _ := addrUses(x, map[ssa.Value]bool{})
					if w {
						ix.Accesses[fr] = append(ix.Accesses[fr], Access{fn, in, true})
					}
					if r {
						ix.Accesses[fr] = append(ix.Accesses[fr], Access{fn, in, false})
					}
				case *ssa.Field:
					fr, ok := fieldRefOf(x.X.Type(), x.Field)
					if ok {
						ix.Accesses[fr] = append(ix.Accesses[fr], Access{fn, in, false})
					}
				}
				if cc, ok := in.(ssa.CallInstruction); ok {
					if cal := calleeOf(cc.Common()); cal != nil {
						ix.Callees[fn] = append(ix.Callees[fn], cal)
						ix.Callers[cal] = append(ix.Callers[cal], fn)
					}
				}
			}
		}
	}
	return ix
}

// Writers lists the functions (names) that store to the field.
func (ix *Index) Writers(fr FieldRef) []*ssa.Function {
	seen := map[*ssa.Function]bool{}
	var out []*ssa.Function
	for _, a := range ix.Accesses[fr] {
		if a.Write && !seen[a.Fn] {
			seen[a.Fn] = true
			out = append(out, a.Fn)
		}
	}
	sort.Slice(out, func(i, j int) bool { return ix.P.FuncName(out[i]) < ix.P.FuncName(out[j]) })
	return out
}

// structFields lists the fields of a named struct in a scope package.
func (p *Program) structFields(rel, name string) []*types.Var {
	n := p.NamedType(rel, name)
	if n == nil {
		return nil
	}
	s, ok := n.Underlying().(*types.Struct)
	if !ok {
		return nil
	}
	var out []*types.Var
	for i := 0; i < s.NumFields(); i++ {
		out = append(out, s.Field(i))
	}
	return out
}

// isBuilderMethod: method whose (single) result type is an interface named *Builder of its package, or a
// Base*Policy registrar method (no results, receiver *Base…Policy).
func isBuilderMethod(fn *ssa.Function) bool {
	if fn.Signature.Recv() == nil {
		return false
	}
	res := fn.Signature.Results()
	if res.Len() == 1 {
		if n, ok := res.At(0).Type().(*types.Named); ok && strings.HasSuffix(n.Obj().Name(), "Builder") {
			return true
		}
	}
	if rn := namedOfPtr(fn.Signature.Recv().Type()); rn != nil && strings.HasPrefix(rn.Obj().Name(), "Base") && strings.HasSuffix(rn.Obj().Name(), "Policy") && res.Len() == 0 {
		return true
	}
	return false
}

// isConstructor: package-level function or Build method returning a fresh object (Builder(), With…(), Build()).
func isConstructorLike(fn *ssa.Function) bool {
	if fn.Signature.Recv() == nil && fn.Parent() == nil {
		return true
	}
	return fn.Name() == "Build" || fn.Name() == "ToExecutor"
}
