package main

// Whole-program structural indexes over the function universe: who stores to which struct field (OWN),
// who calls whom (CG, static + resolved dispatch), spawn / timer / blocking-operation inventories (EFFECT).

import (
	"go/constant"
	"go/token"
	"go/types"
	"sort"
	"strings"

	"golang.org/x/tools/go/ssa"
)

type FieldRef struct {
	Type  string // named struct type (without package), e.g. "executor"
	Pkg   string // package name of the struct type
	Field string
}

func (f FieldRef) String() string { return f.Pkg + "." + f.Type + "." + f.Field }

type Access struct {
	Fn    *ssa.Function
	Instr ssa.Instruction
	Write bool
}

type Index struct {
	P        *Program
	Accesses map[FieldRef][]Access // FieldAddr-based loads and stores (address-taken counts as write unless only loaded)
	Callers  map[*ssa.Function][]*ssa.Function
	Callees  map[*ssa.Function][]*ssa.Function
	Refs     map[*ssa.Function][]*ssa.Function // function -> in-scope functions that call it or take it as a value

	everyIfaceMethod map[string]bool
	liveFieldStores  map[string]bool // fieldKey -> stored to / address handed on by code that can run (hooks.go)
	ifaceMethodNames map[string]bool
	seamSites        map[*types.TypeName][2]int // unexported interface -> (method calls through it, of which bound)
}

func fieldRefOfRaw(t types.Type, idx int) (FieldRef, bool) {
	if p, ok := t.Underlying().(*types.Pointer); ok {
		t = p.Elem()
	}
	n, ok := t.(*types.Named)
	if !ok {
		return FieldRef{}, false
	}
	s, ok := n.Underlying().(*types.Struct)
	if !ok || idx >= s.NumFields() {
		return FieldRef{}, false
	}
	pkg := ""
	if n.Obj().Pkg() != nil {
		pkg = n.Obj().Pkg().Name()
	}
	return FieldRef{Type: typeCanonName(n.Obj()), Pkg: pkg, Field: embeddedCanon(s.Field(idx))}, true
}

// fieldRefOfAddr is fieldRefOf for a field address, with grouping sub-structs looked through: when the struct whose
// field is addressed is itself stored by value in a field of another struct of the same package (state grouped into
// an embedded or named part), the access is attributed to the outer struct: execution.counters.attempts is
// "execution.attempts", config.listeners.onAbort is "config.onAbort". Exported outer structs and pointers stop the climb.
func fieldRefOfAddrRaw(fa *ssa.FieldAddr) (FieldRef, bool) {
	fr, ok := fieldRefOfRaw(fa.X.Type(), fa.Field)
	if !ok {
		return fr, false
	}
	x := fa.X
	for depth := 0; depth < 3; depth++ {
		inner, isFA := x.(*ssa.FieldAddr)
		if !isFA {
			break
		}
		outer, ok2 := fieldRefOfRaw(inner.X.Type(), inner.Field)
		if !ok2 || outer.Pkg != fr.Pkg {
			break
		}
		// the inner field must hold the part by value (its address is the part's address)
		if _, isPtr := inner.Type().(*types.Pointer).Elem().Underlying().(*types.Struct); !isPtr {
			break
		}
		leaf := fr.Field
		if i := strings.LastIndex(leaf, "."); i >= 0 {
			leaf = leaf[i+1:]
		}
		field := leaf
		// a leaf name that occurs more than once in the flattened struct stays qualified by its part
		if on := namedOfPtr(inner.X.Type()); on != nil && leafCount(on, leaf, 0) > 1 {
			partName := ""
			if s, ok := on.Underlying().(*types.Struct); ok && inner.Field < s.NumFields() {
				partName = s.Field(inner.Field).Name()
			}
			field = partName + "." + fr.Field
		}
		fr = FieldRef{Type: outer.Type, Pkg: outer.Pkg, Field: field}
		x = inner.X
	}
	return fr, true
}

// leafCount: how many fields named leaf the struct and its by-value same-package parts declare.
func leafCount(n *types.Named, leaf string, depth int) int {
	s, ok := n.Underlying().(*types.Struct)
	if !ok || depth > 3 {
		return 0
	}
	k := 0
	for i := 0; i < s.NumFields(); i++ {
		f := s.Field(i)
		if f.Name() == leaf {
			k++
		}
		if pn, isN := f.Type().(*types.Named); isN && pn.Obj().Pkg() == n.Obj().Pkg() && !pn.Obj().Exported() {
			if _, isStruct := pn.Underlying().(*types.Struct); isStruct {
				k += leafCount(pn, leaf, depth+1)
			}
		}
	}
	return k
}

// fieldRefOf / fieldRefOfAddr: field references under the names the rules know (renamed fields are reported under
// their upstream name once names.go / the field fingerprints have resolved them); the …Raw variants give the names
// of the analysed tree and are what the resolution itself works with.
func canonRef(fr FieldRef) FieldRef {
	fr.Field = canonicalField(fr.Pkg + "." + fr.Type + "." + fr.Field)
	return fr
}

func fieldRefOf(t types.Type, idx int) (FieldRef, bool) {
	fr, ok := fieldRefOfRaw(t, idx)
	if !ok {
		return fr, false
	}
	return canonRef(fr), true
}

func fieldRefOfAddr(fa *ssa.FieldAddr) (FieldRef, bool) {
	fr, ok := fieldRefOfAddrRaw(fa)
	if !ok {
		return fr, false
	}
	return canonRef(fr), true
}

// classify how the address produced by a FieldAddr is used: "r", "w" or "rw"/"escape".
func addrUses(v ssa.Value, seen map[ssa.Value]bool) (read, write, escape bool) {
	if seen[v] {
		return
	}
	seen[v] = true
	refs := v.Referrers()
	if refs == nil {
		return
	}
	for _, r := range *refs {
		switch x := r.(type) {
		case *ssa.UnOp:
			if x.Op == token.MUL && x.X == v {
				read = true
			}
		case *ssa.Store:
			if x.Addr == v {
				write = true
			} else {
				escape = true
			}
		case *ssa.FieldAddr:
			r2, w2, e2 := addrUses(x, seen)
			read, write, escape = read || r2, write || w2, escape || e2
		case *ssa.IndexAddr:
			r2, w2, e2 := addrUses(x, seen)
			read, write, escape = read || r2, write || w2, escape || e2
		case *ssa.DebugRef:
		case *ssa.Call, *ssa.Go, *ssa.Defer:
			// address passed as receiver/argument (e.g. &mtx for Lock, atomic methods): neither plain read nor write,
			// unless the callee is a setter / getter of the library that stores / loads through that parameter
			escape = true
			cc := x.(ssa.CallInstruction).Common()
			if cal := calleeOf(cc); cal != nil && theProgram != nil && theProgram.InScope[cal] && !cc.IsInvoke() {
				for k, a := range cc.Args {
					if a != v || k >= len(cal.Params) {
						continue
					}
					if refs := cal.Params[k].Referrers(); refs != nil {
						for _, pr := range *refs {
							switch y := pr.(type) {
							case *ssa.Store:
								if y.Addr == cal.Params[k] {
									write = true
								}
							case *ssa.UnOp:
								if y.Op == token.MUL {
									read = true
								}
							}
						}
					}
				}
			}
		default:
			escape = true
		}
	}
	return
}

// zeroInitOnly: the field address belongs to an object allocated right here and is used only to store the field
// type's zero value (a composite literal that spells out its zero fields).
func zeroInitOnly(fa *ssa.FieldAddr) bool {
	if _, fresh := fa.X.(*ssa.Alloc); !fresh {
		return false
	}
	refs := fa.Referrers()
	if refs == nil || len(*refs) == 0 {
		return false
	}
	for _, r := range *refs {
		switch x := r.(type) {
		case *ssa.DebugRef:
		case *ssa.Store:
			k, isConst := x.Val.(*ssa.Const)
			if x.Addr != fa || !isConst || !isZeroConst(k) {
				return false
			}
		default:
			return false
		}
	}
	return true
}

func isZeroConst(k *ssa.Const) bool {
	if k.Value == nil {
		return true
	}
	switch k.Value.Kind() {
	case constant.Bool:
		return !constant.BoolVal(k.Value)
	case constant.String:
		return constant.StringVal(k.Value) == ""
	case constant.Int, constant.Float, constant.Complex:
		return constant.Sign(k.Value) == 0
	}
	return false
}

func BuildIndex(p *Program) *Index {
	ix := &Index{P: p, Accesses: map[FieldRef][]Access{}, Callers: map[*ssa.Function][]*ssa.Function{}, Callees: map[*ssa.Function][]*ssa.Function{}}
	for _, fn := range p.Funcs {
		for _, b := range fn.Blocks {
			for _, in := range b.Instrs {
				switch x := in.(type) {
				case *ssa.FieldAddr:
					fr, ok := fieldRefOfAddr(x)
					if rawIndex {
						fr, ok = fieldRefOfAddrRaw(x)
					}
					if !ok {
						continue
					}
					r, w, _ := addrUses(x, map[ssa.Value]bool{})
					if w && zeroInitOnly(x) {
						w = false // spelling out a fresh object's zero value is not a write
					}
					if w {
						ix.Accesses[fr] = append(ix.Accesses[fr], Access{fn, in, true})
					}
					if r {
						ix.Accesses[fr] = append(ix.Accesses[fr], Access{fn, in, false})
					}
				case *ssa.Field:
					fr, ok := fieldRefOf(x.X.Type(), x.Field)
					if ok {
						ix.Accesses[fr] = append(ix.Accesses[fr], Access{fn, in, false})
					}
				}
				if cc, ok := in.(ssa.CallInstruction); ok {
					if cal := p.invokeTarget(cc.Common()); cal != nil {
						ix.Callees[fn] = append(ix.Callees[fn], cal)
						ix.Callers[cal] = append(ix.Callers[cal], fn)
					}
					if cal := calleeOf(cc.Common()); cal != nil {
						ix.Callees[fn] = append(ix.Callees[fn], cal)
						ix.Callers[cal] = append(ix.Callers[cal], fn)
						// a method value handed to a helper of the library (doLocked(cb.close)) is called on fn's behalf
						if p.InScope[cal] {
							for _, a := range cc.Common().Args {
								mc, isMC := a.(*ssa.MakeClosure)
								if !isMC {
									continue
								}
								if bf, isF := mc.Fn.(*ssa.Function); isF && strings.HasSuffix(bf.Name(), "$bound") {
									if m := p.TargetOf(bf); m != nil && m != origin(bf) {
										ix.Callees[fn] = append(ix.Callees[fn], m)
										ix.Callers[m] = append(ix.Callers[m], fn)
									}
								}
							}
						}
					}
				}
			}
		}
	}
	ix.buildRefs()
	ix.dropDead()
	return ix
}

// Writers lists the functions (names) that store to the field.
func (ix *Index) Writers(fr FieldRef) []*ssa.Function {
	seen := map[*ssa.Function]bool{}
	var out []*ssa.Function
	for _, a := range ix.Accesses[fr] {
		if a.Write && !seen[a.Fn] {
			seen[a.Fn] = true
			out = append(out, a.Fn)
		}
	}
	sort.Slice(out, func(i, j int) bool { return ix.P.FuncName(out[i]) < ix.P.FuncName(out[j]) })
	return out
}

// WriteAccesses lists the individual store sites of a field.
func (ix *Index) WriteAccesses(fr FieldRef) []Access {
	var out []Access
	for _, a := range ix.Accesses[fr] {
		if a.Write {
			out = append(out, a)
		}
	}
	return out
}

// ctorOrBuilderWrite: the store happens while an object is being built: in a builder / registrar method, in Build or
// ToExecutor, in a package-level function on an object that function itself allocated (a plain function that
// mutates a configuration it was handed is NOT a constructor), in `extra`, or in a helper reachable only from those.
func ctorOrBuilderWrite(ix *Index, a Access, extra func(*ssa.Function) bool) bool {
	top := a.Fn
	for top.Parent() != nil {
		top = top.Parent()
	}
	if isBuilderMethod(top) || top.Name() == "Build" || top.Name() == "ToExecutor" || (extra != nil && extra(top)) {
		return true
	}
	if top.Signature.Recv() == nil {
		if fa, ok := a.Instr.(*ssa.FieldAddr); ok && isPrivateBase(fa.X) {
			return true
		}
	}
	if ix.isRoot(a.Fn) || len(ix.Refs[a.Fn]) == 0 {
		return false
	}
	for _, r := range ix.Refs[a.Fn] {
		if !ix.Within(r, func(f *ssa.Function) bool {
			return isBuilderMethod(f) || isConstructorLike(f) || (extra != nil && extra(f))
		}) {
			return false
		}
	}
	return true
}

// structFields lists the fields of a named struct in a scope package.
func (p *Program) structFields(rel, name string) []*types.Var {
	n := p.NamedType(rel, name)
	if n == nil {
		return nil
	}
	s, ok := n.Underlying().(*types.Struct)
	if !ok {
		return nil
	}
	var out []*types.Var
	var walk func(s *types.Struct, depth int)
	walk = func(s *types.Struct, depth int) {
		for i := 0; i < s.NumFields(); i++ {
			f := s.Field(i)
			// grouping parts held by value (same package, unexported struct type) are looked through, like
			// fieldRefOfAddr does for accesses
			if pn, isN := f.Type().(*types.Named); isN && pn.Obj().Pkg() == n.Obj().Pkg() && !pn.Obj().Exported() && depth < 3 {
				if ps, isStruct := pn.Underlying().(*types.Struct); isStruct {
					walk(ps, depth+1)
					continue
				}
			}
			out = append(out, f)
		}
	}
	walk(s, 0)
	return out
}

// isBuilderMethod: method whose (single) result type is an interface named *Builder of its package, or a
// Base*Policy registrar method (no results, receiver *Base…Policy).
func isBuilderMethod(fn *ssa.Function) bool {
	if fn.Signature.Recv() == nil {
		return false
	}
	res := fn.Signature.Results()
	if res.Len() == 1 {
		if n, ok := res.At(0).Type().(*types.Named); ok && strings.HasSuffix(n.Obj().Name(), "Builder") {
			return true
		}
	}
	if rn := namedOfPtr(fn.Signature.Recv().Type()); rn != nil && strings.HasPrefix(rn.Obj().Name(), "Base") && strings.HasSuffix(rn.Obj().Name(), "Policy") && res.Len() == 0 {
		return true
	}
	return false
}

// isConstructor: package-level function or Build method returning a fresh object (Builder(), With…(), Build()).
func isConstructorLike(fn *ssa.Function) bool {
	if fn.Signature.Recv() == nil && fn.Parent() == nil {
		return true
	}
	return fn.Name() == "Build" || fn.Name() == "ToExecutor"
}

// ---- reference graph ------------------------------------------------------------------------------
//
// Refs[f] lists the in-scope functions that mention f: by a static call, by creating a closure over it, by
// taking it as a (bound) method value or function value. It is the basis of ownership rules that must not
// depend on how code is split into helpers: a store "belongs to" every function from which the helper that
// contains it is (only) reachable.

func (ix *Index) resolveFnValue(v ssa.Value) *ssa.Function {
	switch x := v.(type) {
	case *ssa.Function:
		f := origin(x)
		if f.Synthetic != "" && f.Object() != nil {
			if tf, ok := f.Object().(*types.Func); ok {
				if g := ix.P.Prog.FuncValue(tf.Origin()); g != nil {
					return origin(g)
				}
			}
		}
		return f
	case *ssa.MakeClosure:
		return ix.resolveFnValue(x.Fn)
	}
	return nil
}

func (ix *Index) buildRefs() {
	ix.Refs = map[*ssa.Function][]*ssa.Function{}
	ix.ifaceMethodNames = map[string]bool{}
	for _, rel := range scopePkgs {
		pk := ix.P.ByPath[ix.P.pkgPath(rel)]
		sc := pk.Types.Scope()
		for _, n := range sc.Names() {
			if tn, ok := sc.Lookup(n).(*types.TypeName); ok {
				if it, ok := tn.Type().Underlying().(*types.Interface); ok {
					// an unexported interface with a single implementer is a seam: every call through it is bound to
					// that implementer (invokeTarget), so its methods are not open slots
					if !tn.Exported() && !rawIndex && ix.closedSeam(tn) {
						continue
					}
					for i := 0; i < it.NumMethods(); i++ {
						ix.ifaceMethodNames[it.Method(i).Name()] = true
					}
				}
			}
		}
	}
	seen := map[[2]*ssa.Function]bool{}
	for _, fn := range ix.P.Funcs {
		for _, b := range fn.Blocks {
			for _, in := range b.Instrs {
				if cc, isCall := in.(ssa.CallInstruction); isCall && !rawIndex {
					if t := ix.P.invokeTarget(cc.Common()); t != nil && ix.P.InScope[t] && t != fn {
						k := [2]*ssa.Function{t, fn}
						if !seen[k] {
							seen[k] = true
							ix.Refs[t] = append(ix.Refs[t], fn)
						}
					}
				}
				for _, op := range in.Operands(nil) {
					if op == nil || *op == nil {
						continue
					}
					t := ix.resolveFnValue(*op)
					if t == nil || !ix.P.InScope[t] || t == fn {
						continue
					}
					k := [2]*ssa.Function{t, fn}
					if !seen[k] {
						seen[k] = true
						ix.Refs[t] = append(ix.Refs[t], fn)
					}
				}
			}
		}
	}
}

// closedSeam: every method call through the unexported interface, anywhere in the program, is bound to a concrete
// method (one implementer, or a field always initialised with one concrete type), and there is at least one.
func (ix *Index) closedSeam(tn *types.TypeName) bool {
	if ix.seamSites == nil {
		ix.seamSites = map[*types.TypeName][2]int{}
		for _, fn := range ix.P.Funcs {
			for _, b := range fn.Blocks {
				for _, in := range b.Instrs {
					cc, isCall := in.(ssa.CallInstruction)
					if !isCall || !cc.Common().IsInvoke() {
						continue
					}
					n, isN := cc.Common().Value.Type().(*types.Named)
					if !isN {
						continue
					}
					k := ix.seamSites[n.Origin().Obj()]
					k[0]++
					if ix.P.invokeTarget(cc.Common()) != nil {
						k[1]++
					}
					ix.seamSites[n.Origin().Obj()] = k
				}
			}
		}
	}
	k := ix.seamSites[tn]
	return k[0] > 0 && k[0] == k[1]
}

// isRoot: a function that code outside the analysed call chains can reach directly: exported API, a method
// that (by name) may fill an interface slot, init, or anything nobody in scope mentions.
func (ix *Index) isRoot(fn *ssa.Function) bool {
	if fn.Parent() != nil {
		return len(ix.Refs[fn]) == 0
	}
	if len(ix.Refs[fn]) == 0 {
		return true
	}
	if token.IsExported(fn.Name()) {
		// an exported function of an internal package cannot be named by a user of the library: its callers are the
		// library's own
		if fn.Signature.Recv() == nil && fn.Pkg != nil && strings.Contains(fn.Pkg.Pkg.Path()+"/", "/internal/") {
			return false
		}
		return true
	}
	if fn.Signature.Recv() != nil && ix.ifaceMethodNames[fn.Name()] {
		return true
	}
	return false
}

// Within reports whether every way of reaching fn passes through a function satisfying allowed (fn itself
// included), i.e. climbing the reference graph from fn meets `allowed` before it meets a root.
func (ix *Index) Within(fn *ssa.Function, allowed func(*ssa.Function) bool) bool {
	return ix.within(fn, allowed, map[*ssa.Function]bool{})
}

func (ix *Index) within(fn *ssa.Function, allowed func(*ssa.Function) bool, onPath map[*ssa.Function]bool) bool {
	if allowed(fn) {
		return true
	}
	if ix.isRoot(fn) || onPath[fn] {
		return false
	}
	onPath[fn] = true
	defer delete(onPath, fn)
	for _, r := range ix.Refs[fn] {
		if !ix.within(r, allowed, onPath) {
			return false
		}
	}
	return true
}

// RootsOf lists the roots from which fn is reachable (fn itself when it is a root).
func (ix *Index) RootsOf(fn *ssa.Function) []*ssa.Function {
	seen := map[*ssa.Function]bool{}
	var out []*ssa.Function
	var walk func(f *ssa.Function)
	walk = func(f *ssa.Function) {
		if seen[f] {
			return
		}
		seen[f] = true
		if ix.isRoot(f) {
			out = append(out, f)
			return
		}
		for _, r := range ix.Refs[f] {
			walk(r)
		}
	}
	walk(fn)
	sort.Slice(out, func(i, j int) bool { return ix.P.FuncName(out[i]) < ix.P.FuncName(out[j]) })
	return out
}

// rootKey: "pkg.Name" of a root without its receiver type, so that renaming an unexported type is not a change.
func (ix *Index) rootKey(fn *ssa.Function) string {
	pkg := ""
	if fn.Pkg != nil {
		pkg = fn.Pkg.Pkg.Name()
	}
	name := fn.Name()
	for f := fn; f.Parent() != nil; f = f.Parent() {
		name = f.Parent().Name() + "$"
	}
	return pkg + "." + name
}

// RootKeys: sorted distinct rootKey of RootsOf(fn).
func (ix *Index) RootKeys(fn *ssa.Function) []string {
	m := map[string]bool{}
	for _, r := range ix.RootsOf(fn) {
		m[ix.rootKey(r)] = true
	}
	var out []string
	for k := range m {
		out = append(out, k)
	}
	sort.Strings(out)
	return out
}

// WithinNames: Within with `allowed` given as FuncNames (canonical names accepted).
func (ix *Index) WithinNames(fn *ssa.Function, names ...string) bool {
	set := map[*ssa.Function]bool{}
	for _, n := range names {
		if f := ix.P.Func(n); f != nil {
			set[f] = true
		}
	}
	return ix.Within(fn, func(f *ssa.Function) bool { return set[f] })
}
