package main

// HTTP / gRPC adapter rules (C18) and leak rules (C19).

import (
	"fmt"
	"go/token"
	"go/types"
	"sort"
	"strings"

	"golang.org/x/tools/go/ssa"
)

func rulesC18(c *Ctx) {
	c18EntryPoints(c)
	c18MergeContexts(c, map[string]bool{"derive": true, "either": true})
	c18HTTPAttempt(c, map[string]bool{"attempt": true, "premature-cancel": true})
	c18BodyReader(c)
	c18GRPC(c)
	c18HTTPRetry(c)
	c18GRPCRetry(c)
	// the HTTP / gRPC retry policy builders return retrypolicy builders: the delay function they install must
	// survive further configuration, and the delay precedence must honour it
	buildersStore(c, "retrypolicy")
	c13Builders(c)
	c13GetDelay(c)
	// "waiting at least a Retry-After": the delay function reads the response as the execution's last result, so the
	// delay that is waited is computed after the attempt's result was recorded
	c.Rule("retry-wait")
	retryLoop(c, map[string]bool{"wait": true, "loop": true})
	// "whichever policies are configured", the response handed back must stay readable: the contexts policies derive
	// for an attempt (Timeout's child, the hedge's per-attempt copies) reach the transport through MergeContexts, so
	// a policy must not cancel the winning attempt's context on the success path — Timeout cancels only from the
	// timer callback that won the race, the hedge cancels every started attempt except the winner
	c.Rule("attempt-context")
	c07Race(c)
	c09Loop(c)
	// "whatever contexts the request and the executor carry": an executor without a context carries
	// context.Background(), the identity MergeContexts tests
	c01WithContext(c)
	// "the context each attempt runs under still carries the caller's context values and deadline": the contexts the
	// policies derive for an attempt (a hedge's, a timeout's child) derive from the execution's own
	c.Rule("execution-protocol")
	execStateMethods(c, map[string]bool{"CopyForHedge": true, "CopyForCancellable": true, "copy": true, "CopyWithResult": true})
	// "retried exactly for the documented retryable errors": the builders' AbortOnErrors / HandleIf go through the shared
	// registrars (one condition per listed error)
	c12Registrars(c)
	// … and an attempt's outcome is put through the shared classification table of the retry policy they configure
	c12IsFailure(c)
	c12AnyOf(c)
}

func rulesC19(c *Ctx) {
	c19Goroutines(c)
	c19Timers(c)
	c18MergeContexts(c, map[string]bool{"terminates": true, "derive": true})
	c18HTTPAttempt(c, map[string]bool{"cancel-runs": true})
	c18GRPC(c)
	c19Responses(c)
	c19ChildContexts(c)
	// connections are released into the pool of the transport the caller gave (the shared default when none)
	c18EntryPoints(c)
	c.Rule("hedge-attempt")
	c09Loop(c)
	c.Rule("timeout-timer")
	c07Race(c)
	c01DefaultContext(c)
	executeAsyncRule(c)
	c.Rule("retry-timer")
	retryLoop(c, map[string]bool{"wait": true})
	c05Wait(c)
	// a lock that is not released on some path parks every later goroutine of the execution forever
	execStateMethods(c, nil)
	for _, pkg := range []string{"failsafe", "circuitbreaker", "ratelimiter"} {
		checkUnlock(c, pkg)
	}
	c08Blocking(c)
}

func isCtxCall(t *T, method string, recv *T) bool {
	return t != nil && t.Op == "app" && hasPrefix(t.Aux, method+"@") && len(t.Args) >= 1 && (recv == nil || t.Args[0] == recv)
}

// ---- MergeContexts ---------------------------------------------------------------------------------------

func c18MergeContexts(c *Ctx, aspects map[string]bool) {
	c.Rule("merge-contexts")
	fn := c.P.Func("util.MergeContexts")
	if fn == nil {
		c.Unresolved("util.MergeContexts", "not found")
		return
	}
	name, pos := c.fn(fn), c.P.FuncPos(fn)
	ev := NewEvaluator(c.P, EvalConfig{})
	ts := ev.TS
	ps := ev.Run(fn)
	if ev.Err != nil || len(ps) == 0 {
		c.Undecided(name, pos, fmt.Sprintf("evaluation failed: %v", ev.Err), "")
		return
	}
	ctx1, ctx2 := ev.Param(fn, fn.Params[0].Name()), ev.Param(fn, fn.Params[1].Name())
	okDerive, okEither, okTerm := true, true, true
	sawMerge := false
	for _, p := range ps {
		if p.Exit != ExitReturn || len(p.Rets) != 2 {
			continue
		}
		var bg *T
		for _, e := range p.Events() {
			if isCall(e, "Background") {
				bg = e.Res[0]
			}
		}
		isBg := func(x *T) tri {
			if bg == nil {
				return triU
			}
			return p.State.Facts.Truth(ts, ts.Cmp("==", x, bg))
		}
		ret := p.Rets[0]
		gos := eventsWhere(p, func(e *Event) bool { return e.Kind == EvGo })
		switch {
		case ret == ctx2:
			if isBg(ctx1) != triT {
				okDerive = false
				if aspects["derive"] {
					c.Fail(name+"#derive", pos, "the execution's context alone is returned on a path that does not establish that the caller's context is exactly context.Background(): a caller context that merely cannot be cancelled may still carry values / metadata, which would be lost", pathTrace(ev, p))
				}
			}
			if len(gos) != 0 {
				okTerm = false
			}
		case ret == ctx1:
			if isBg(ctx2) != triT {
				okEither = false
				if aspects["either"] {
					c.Fail(name+"#either", pos, "the caller's context alone is returned on a path that does not establish that the execution's context is context.Background(): cancellation of the execution (timeout, hedge, Cancel) would not reach the attempt", pathTrace(ev, p))
				}
			}
		default:
			sawMerge = true
			var wc *Event
			for _, e := range p.Events() {
				if e.Kind == EvCall && (e.Method == "WithCancelCause" || e.Method == "WithCancel") && len(e.Res) == 2 && e.Res[0] == ret {
					wc = e
				}
			}
			if wc == nil || p.Rets[1] != wc.Res[1] {
				okDerive = false
				if aspects["derive"] {
					c.Fail(name+"#derive", pos, "the merged context must be a cancellable child created here, returned with its own cancel function", pathTrace(ev, p))
				}
				continue
			}
			if wc.Args[0] != ctx1 {
				okDerive = false
				if aspects["derive"] {
					c.Fail(name+"#derive", pos, "the merged context must derive from the caller's context (ctx1) so that its values, deadline and gRPC metadata stay visible and it is done when the caller's context is", pathTrace(ev, p))
				}
			}
			// the watcher
			if len(gos) != 1 || ev.EventFn(gos[0]) == nil || gos[0].Snap == nil {
				okEither = false
				if aspects["either"] {
					c.Fail(name+"#either", pos, "a merged context needs exactly one watcher for the other context", pathTrace(ev, p))
				}
				continue
			}
			merged, cancel := wc.Res[0], wc.Res[1]
			for _, q := range ev.RunEvent(gos[0].Snap, gos[0], nil) {
				sels := eventsWhere(q, func(e *Event) bool { return e.Kind == EvSelect && e.Idx >= q.Base })
				if len(sels) != 1 {
					okTerm = false
					if aspects["terminates"] {
						c.Fail(c.fn(ev.EventFn(gos[0])), c.P.FuncPos(ev.EventFn(gos[0])), "the watcher must be a single select", pathTrace(ev, q))
					}
					continue
				}
				sel := sels[0]
				has2, hasMerged := false, false
				for i, cs := range sel.Cases {
					if isCtxCall(cs.Chan, "Done", ctx2) {
						has2 = true
						if sel.Chosen == i {
							cs2 := eventsWhere(q, func(e *Event) bool { return isDynCall(e, cancel) && e.Idx > sel.Idx })
							if len(cs2) != 1 {
								okEither = false
								if aspects["either"] {
									c.Fail(c.fn(ev.EventFn(gos[0])), c.P.FuncPos(ev.EventFn(gos[0])), "when the execution's context ends the merged context must be cancelled", pathTrace(ev, q))
								}
							}
						}
					}
					if isCtxCall(cs.Chan, "Done", merged) {
						hasMerged = true
					}
				}
				if !has2 {
					okEither = false
					if aspects["either"] {
						c.Fail(c.fn(ev.EventFn(gos[0])), c.P.FuncPos(ev.EventFn(gos[0])), "the watcher does not wait on the execution's context (ctx2.Done())", pathTrace(ev, q))
					}
				}
				if !hasMerged {
					okTerm = false
					if aspects["terminates"] {
						c.Fail(c.fn(ev.EventFn(gos[0])), c.P.FuncPos(ev.EventFn(gos[0])), "the watcher goroutine has no case on the merged context's own Done(): calling the returned cancel function does not end it, so it lives until one of the source contexts ends (a leak per attempt with long-lived contexts)", pathTrace(ev, q))
					}
				}
				if q.Exit != ExitReturn {
					okTerm = false
				}
			}
		}
	}
	if !sawMerge {
		c.Fail(name, pos, "no path builds a merged context", "")
		return
	}
	if aspects["derive"] && okDerive {
		c.Ok(name+"#derive", pos, "ctx2 alone only if ctx1 is context.Background(); otherwise a cancellable child of the caller's context")
	}
	if aspects["either"] && okEither {
		c.Ok(name+"#either", pos, "ctx1 alone only if ctx2 is context.Background(); otherwise a watcher cancels the merged context when ctx2 is done")
	}
	if aspects["terminates"] && okTerm {
		c.Ok(name+"#terminates", pos, "the watcher selects on the merged context's own Done(): the returned cancel function ends it")
	}
}

// ---- HTTP per-attempt closure ---------------------------------------------------------------------------

func c18HTTPAttempt(c *Ctx, aspects map[string]bool) {
	c.Rule("http-attempt")
	// The two entry points of the adapter (the round tripper and Request.Do) are evaluated with the adapter's own
	// helpers in place — whether the shared logic lives in a helper (doRequest upstream), is written out in each
	// entry point, or is split further is not the property's business. Obligation names keep the upstream construct
	// names: "failsafehttp.doRequest" is the part before the attempts, "failsafehttp.doRequest$1" the per-attempt
	// function.
	const outerName, name = "failsafehttp.doRequest", "failsafehttp.doRequest$1"
	entries := []struct{ fn, via, reqField, innerField string }{
		{"failsafehttp.(*roundTripper).RoundTrip", "RoundTrip", "", "next"},
		{"failsafehttp.(*Request).Do", "Do", "request", "client"},
	}
	okAttempt, okCancelRuns := true, true
	premature := false
	sawBody, sawNoBody := false, false
	pos := ""
	evaluated := 0
	nPaths := 0
	for _, en := range entries {
		fn := c.P.Func(en.fn)
		if fn == nil {
			c.Unresolved(en.fn, "not found")
			continue
		}
		ev := NewEvaluator(c.P, EvalConfig{})
		ts := ev.TS
		recv := ev.Param(fn, fn.Params[0].Name())
		s0 := ev.NewState()
		var request *T
		if en.reqField == "" {
			request = ev.Param(fn, fn.Params[1].Name())
		} else {
			request = ev.LoadField(s0, recv, en.reqField)
		}
		executor, inner := ev.LoadField(s0, recv, "executor"), ev.LoadField(s0, recv, en.innerField)
		if request == nil || executor == nil || inner == nil {
			c.Unresolved(en.fn, "request / executor / inner transport fields not found")
			continue
		}
		// the transport call: the inner round tripper's RoundTrip / the client's Do, on the configured object
		isSend := func(e *Event) bool {
			return e.Kind == EvCall && e.FnTerm == nil && e.Method == en.via && e.Recv == inner
		}
		ps := ev.Run(fn)
		if ev.Err != nil || len(ps) == 0 {
			c.Undecided(en.fn, c.P.FuncPos(fn), fmt.Sprintf("evaluation failed: %v", ev.Err), "")
			continue
		}
		okOuter := true
		var closure *T
		var st *State
		var bodyFuncT *T
		for _, p := range ps {
			br := eventsWhere(p, func(e *Event) bool { return isCall(e, "bodyReader") })
			if len(br) != 1 || br[0].Args[0] != ev.LoadField(ev.NewState(), request, "Body") {
				okOuter = false
				c.Fail(en.fn, c.P.FuncPos(fn), "the request body must be captured exactly once, before the first attempt (bodyReader(request.Body))", pathTrace(ev, p))
				continue
			}
			failed := p.State.Facts.Truth(ts, ts.Cmp("!=", br[0].Res[1], ts.Nil(nil)))
			get := eventsWhere(p, func(e *Event) bool { return isCall(e, "GetWithExecution") })
			if failed == triT {
				if len(get) != 0 || len(p.Rets) != 2 || p.Rets[1] != br[0].Res[1] {
					okOuter = false
					c.Fail(en.fn, c.P.FuncPos(fn), "an error while capturing the body must be returned, not dropped", pathTrace(ev, p))
				}
				continue
			}
			if len(get) != 1 || get[0].Recv != executor || len(get[0].Args) != 1 || get[0].Args[0].Fn == nil || len(p.Rets) != 2 || p.Rets[0] != get[0].Res[0] || p.Rets[1] != get[0].Res[1] {
				okOuter = false
				c.Fail(en.fn, c.P.FuncPos(fn), "the attempts must run through the configured executor's GetWithExecution, whose response and error are returned", pathTrace(ev, p))
				continue
			}
			for _, e := range impure(p) {
				if !(isCall(e, "bodyReader") || isCall(e, "GetWithExecution")) && e.Kind == EvCall {
					okOuter = false
					c.Fail(en.fn, c.P.FuncPos(fn), "the entry point does something besides capturing the body and running the attempts: "+e.Callee, pathTrace(ev, p))
				}
			}
			closure, st, bodyFuncT = get[0].Args[0], p.State, br[0].Res[0]
		}
		if aspects["attempt"] && okOuter {
			c.Ok(en.fn, c.P.FuncPos(fn), "body captured once; attempts run through the configured executor's GetWithExecution; its values returned")
		}
		if closure == nil {
			c.Undecided(name, c.P.FuncPos(fn), "per-attempt function not found in "+en.fn, "")
			continue
		}
		// the per-attempt function, whether it is written as a closure or as a bound method
		pos = c.P.FuncPos(c.P.TargetOf(closure.Fn))
		if len(closure.Fn.Params) != 1 {
			c.Undecided(name, pos, "the per-attempt function does not take exactly the execution", "")
			continue
		}
		evaluated++
		exec := ts.intern(&T{Op: "param", Aux: "exec", Typ: closure.Fn.Params[0].Type()})
		qs := ev.CallTerm(st, closure, []*T{exec})
		nPaths += len(qs)
		for _, q := range qs {
			bad := func(msg string) {
				okAttempt = false
				if aspects["attempt"] {
					c.Fail(name, pos, msg, pathTrace(ev, q))
				}
			}
			if q.Exit != ExitReturn || len(q.Rets) != 2 {
				bad("non-returning path")
				continue
			}
			evs := q.Events()[q.Base:]
			var mc, wc, send *Event
			var bodyCalls []*Event
			for _, e := range evs {
				switch {
				case isCall(e, "MergeContexts") && mc == nil:
					mc = e
				case isCall(e, "WithContext") && wc == nil:
					wc = e
				case isSend(e):
					send = e
				case e.Kind == EvCall && e.FnTerm != nil && e.FnTerm == bodyFuncT:
					bodyCalls = append(bodyCalls, e)
				case e.Kind == EvStore && rootOf(e.Addr) == request:
					bad("the original request is modified: attempts must work on their own clone")
				}
			}
			if mc == nil || len(mc.Args) != 2 || !isCtxCall(mc.Args[0], "Context", request) || !isCtxCall(mc.Args[1], "Context", exec) {
				bad("each attempt must run under MergeContexts(request.Context(), exec.Context()): the caller's context first (its values survive), the execution's second (its cancellation reaches the attempt)")
				continue
			}
			merged, cancel := mc.Res[0], mc.Res[1]
			if wc == nil || wc.Recv != request || wc.Args[0] != merged {
				bad("the attempt's request must be request.WithContext(merged context)")
				continue
			}
			req := wc.Res[0]
			hasBody := q.State.Facts.Truth(ts, ts.Cmp("!=", bodyFuncT, ts.Nil(nil)))
			cancels := eventsWhere(q, func(e *Event) bool { return isDynCall(e, cancel) && e.Idx >= q.Base })
			deferred := eventsWhere(q, func(e *Event) bool { return e.Kind == EvDefer && e.FnTerm == cancel })
			if len(cancels) == 0 && len(deferred) == 0 {
				okCancelRuns = false
				if aspects["cancel-runs"] {
					c.Fail(name+"#cancel-runs", pos, "the per-attempt merged context is never cancelled on this path: its watcher goroutine and timers are released only when a source context ends", pathTrace(ev, q))
				}
			}
			switch hasBody {
			case triT:
				sawBody = true
				if len(bodyCalls) != 1 {
					bad("with a body, every attempt must obtain a fresh reader from the captured body exactly once")
					continue
				}
				berr := q.State.Facts.Truth(ts, ts.Cmp("!=", bodyCalls[0].Res[1], ts.Nil(nil)))
				if berr == triT {
					if send != nil || q.Rets[1] != bodyCalls[0].Res[1] {
						bad("an error obtaining the body must fail the attempt with that error")
					}
					continue
				}
				b := ev.LoadField(q.State, req, "Body")
				fresh := bodyCalls[0].Res[0]
				okB := b == fresh
				wrapped := false
				if !okB {
					for _, e := range evs {
						if isCall(e, "NopCloser") && len(e.Res) == 1 && e.Res[0] == b && e.Args[0] == fresh {
							okB, wrapped = true, true
						}
					}
				}
				if !okB {
					bad("the attempt's request body must be the fresh reader (wrapped in io.NopCloser when it is not a ReadCloser)")
					continue
				}
				// a reader that already is a ReadCloser goes to the transport as it is: net/http recognises an empty body
				// (http.NoBody) by identity, and wrapping it turns "Content-Length: 0" into a chunked request
				alreadyRC := fresh.Typ != nil && types.TypeString(fresh.Typ, nil) == "io.ReadCloser" // the factory hands out ReadClosers
				if alreadyRC {
					if wrapped {
						bad("a reader the factory already hands out as an io.ReadCloser must reach the transport as it is (http.NoBody is recognised by identity)")
					}
				} else if rc := findTypeOK(q, fresh, "io.ReadCloser"); rc == nil || (q.State.Facts.Truth(ts, rc) == triT) == wrapped {
					bad("the fresh reader must be used as it is when it is an io.ReadCloser (http.NoBody is recognised by identity) and wrapped in io.NopCloser only otherwise")
					continue
				}
			case triF:
				sawNoBody = true
				if len(bodyCalls) != 0 {
					bad("no body function to call")
				}
			default:
				bad("path does not depend on whether the request has a body")
				continue
			}
			if send == nil || len(send.Args) != 1 || send.Args[0] != req || len(eventsWhere(q, func(e *Event) bool { return isSend(e) && e.Idx >= q.Base })) != 1 {
				bad("the transport must be invoked exactly once per attempt with the attempt's own request")
				continue
			}
			if q.Rets[0] != send.Res[0] || q.Rets[1] != send.Res[1] {
				bad("the attempt must return the transport's response and error unchanged")
				continue
			}
			// K2: the merged context is cancelled although a response is returned whose body still reads under it
			for _, cc := range cancels {
				if cc.Idx > send.Idx {
					premature = true
				}
			}
		}
	}
	if evaluated == 0 {
		return
	}
	if aspects["attempt"] && okAttempt && !(sawBody && sawNoBody) {
		okAttempt = false
		c.Fail(name, pos, "the per-attempt function lacks the body or the no-body case", "")
	}
	if aspects["attempt"] && okAttempt {
		c.Ok(name, pos, fmt.Sprintf("%d paths from %d entry points: MergeContexts(request ctx, exec ctx); request.WithContext(merged); fresh body per attempt; transport called once; its values returned; original request untouched", nPaths, evaluated))
	}
	if aspects["cancel-runs"] && okCancelRuns {
		c.Ok(name+"#cancel-runs", pos, "the merged context's cancel function runs on every path")
	}
	if aspects["premature-cancel"] {
		if premature {
			c.Fail("failsafehttp.doRequest$1#premature-cancel", pos, "the merged context is cancelled when the attempt returns although the returned response's body is still read under that context: with two non-background contexts the body cannot be read to the end (context canceled)", "")
		} else {
			c.Ok("failsafehttp.doRequest$1#premature-cancel", pos, "the returned response's context is not cancelled on return")
		}
	}
	_ = outerName
}

// ---- bodyReader --------------------------------------------------------------------------------------------

// unwrapNop: a reader handed out behind io.NopCloser is that reader (whether the factory or the attempt does the
// wrapping is the same to the transport).
func unwrapNop(q *Path, t *T) *T {
	for _, e := range q.Events() {
		if isCall(e, "NopCloser") && len(e.Res) == 1 && e.Res[0] == t && len(e.Args) == 1 {
			return e.Args[0]
		}
	}
	return t
}

func c18BodyReader(c *Ctx) {
	c.Rule("body-kinds")
	fn := c.P.Func("failsafehttp.bodyReader")
	if fn == nil {
		c.Unresolved("failsafehttp.bodyReader", "not found")
		return
	}
	name, pos := c.fn(fn), c.P.FuncPos(fn)
	ev := NewEvaluator(c.P, EvalConfig{})
	ts := ev.TS
	ps := ev.Run(fn)
	if ev.Err != nil || len(ps) == 0 {
		c.Undecided(name, pos, fmt.Sprintf("evaluation failed: %v", ev.Err), "")
		return
	}
	body := ev.Param(fn, fn.Params[0].Name())
	ok := true
	kinds := map[string]bool{}
	for _, p := range ps {
		bad := func(msg string) {
			ok = false
			c.Fail(name, pos, msg, pathTrace(ev, p))
		}
		if p.Exit != ExitReturn || len(p.Rets) != 2 {
			continue
		}
		kind := ""
		// the type switch leaves typeok atoms in the facts
		typeIs := func(sub string) tri {
			r := triU
			for _, a := range p.State.Facts.Log {
				a.Cond.Walk(func(t *T) {
					if t.Op == "app" && strings.HasPrefix(t.Aux, "typeok:") && strings.Contains(t.Aux, sub) && t.Args[0] == body {
						r = p.State.Facts.Truth(ts, t)
					}
				})
			}
			return r
		}
		isNil := p.State.Facts.Truth(ts, ts.Cmp("==", body, ts.Nil(nil)))
		switch {
		case isNil == triT:
			kind = "nil"
		case typeIs("*bytes.Buffer") == triT:
			kind = "buffer"
		case typeIs("*bytes.Reader") == triT:
			kind = "reader"
		case typeIs("io.ReadSeeker") == triT:
			kind = "seeker"
		case typeIs("io.Reader") == triT:
			kind = "stream"
		case typeIs("io.Reader") == triF:
			kind = "unsupported"
		}
		if kind == "" {
			bad("body kind not classified (nil, *bytes.Buffer, *bytes.Reader, io.ReadSeeker, io.Reader, other)")
			continue
		}
		kinds[kind] = true
		f, errT := p.Rets[0], p.Rets[1]
		evalClosure := func() []*Path {
			if f.Fn == nil {
				return nil
			}
			return ev.CallTerm(p.State, f, nil)
		}
		readAll := eventsWhere(p, func(e *Event) bool { return isCall(e, "ReadAll") })
		switch kind {
		case "nil":
			if !f.IsNilConst() || !errT.IsNilConst() {
				bad("no body ⇒ (nil, nil)")
			}
		case "unsupported":
			if !f.IsNilConst() || errT.IsNilConst() {
				bad("an unsupported body type must be rejected with an error")
			}
		case "buffer":
			if f.Fn == nil || !errT.IsNilConst() {
				bad("*bytes.Buffer ⇒ a reader factory")
				continue
			}
			for _, q := range evalClosure() {
				nr := eventsWhere(q, func(e *Event) bool { return isCall(e, "NewReader") && e.Idx >= q.Base })
				if len(nr) != 1 || unwrapNop(q, q.Rets[0]) != nr[0].Res[0] || !(nr[0].Args[0].Op == "app" && hasPrefix(nr[0].Args[0].Aux, "Bytes@") && nr[0].Args[0].Args[0] == body) || !q.Rets[1].IsNilConst() {
					bad("*bytes.Buffer ⇒ every call yields a new reader over the buffer's whole content")
				}
			}
		case "reader", "stream":
			if len(readAll) != 1 || readAll[0].Args[0] != body {
				bad("the content must be captured once with io.ReadAll(body)")
				continue
			}
			failed := p.State.Facts.Truth(ts, ts.Cmp("!=", readAll[0].Res[1], ts.Nil(nil)))
			if failed == triT {
				if !f.IsNilConst() || errT != readAll[0].Res[1] {
					bad("an error while capturing the content must be returned")
				}
				continue
			}
			if f.Fn == nil || !errT.IsNilConst() {
				bad("captured content ⇒ a reader factory")
				continue
			}
			buf := readAll[0].Res[0]
			for _, q := range evalClosure() {
				nr := eventsWhere(q, func(e *Event) bool { return isCall(e, "NewReader") && e.Idx >= q.Base })
				empty := triF
				if kind == "stream" {
					empty = q.State.Facts.Truth(ts, ts.Cmp("==", ts.intern(&T{Op: "app", Aux: "len", Args: []*T{buf}, Typ: types.Typ[types.Int]}), ts.LinConst(0, types.Typ[types.Int])))
				}
				if empty == triT {
					if !isGlobal(q.Rets[0], "NoBody") {
						bad("an empty stream ⇒ http.NoBody")
					}
					continue
				}
				if len(nr) != 1 || unwrapNop(q, q.Rets[0]) != nr[0].Res[0] || nr[0].Args[0] != buf || !q.Rets[1].IsNilConst() {
					bad("every call must yield a new reader over the whole captured content")
				}
			}
		case "seeker":
			if f.Fn == nil || !errT.IsNilConst() {
				bad("io.ReadSeeker ⇒ a reader factory")
				continue
			}
			for _, q := range evalClosure() {
				sk := eventsWhere(q, func(e *Event) bool { return isCall(e, "Seek") && e.Idx >= q.Base })
				if len(sk) != 1 || sk[0].Recv != body || !isZeroInt(sk[0].Args[0]) || !isZeroInt(sk[0].Args[1]) || q.Rets[1] != sk[0].Res[1] {
					bad("a seekable body must be rewound to its start (Seek(0, io.SeekStart)) for every attempt, the seek error returned")
					continue
				}
				nc := eventsWhere(q, func(e *Event) bool { return isCall(e, "NopCloser") && e.Idx >= q.Base })
				if len(nc) != 1 || nc[0].Args[0] != body || q.Rets[0] != nc[0].Res[0] {
					bad("the caller's seekable body is reused by every attempt, so it must be handed to the transport behind io.NopCloser: a body that is also an io.Closer (a file) would otherwise be closed by the first attempt and the replay would fail")
				}
			}
		}
	}
	for _, k := range []string{"nil", "buffer", "reader", "seeker", "stream", "unsupported"} {
		if ok && !kinds[k] {
			ok = false
			c.Fail(name, pos, "bodyReader lacks the "+k+" case", "")
		}
	}
	if ok {
		c.Ok(name, pos, "nil / *bytes.Buffer / *bytes.Reader / io.ReadSeeker / io.Reader / other: each factory yields a reader over the complete original content on every call; capture errors returned")
	}
}

// ---- gRPC interceptors -------------------------------------------------------------------------------------

func c18GRPC(c *Ctx) {
	c.Rule("grpc-passthrough")
	type spec struct {
		fn, kind string
	}
	for _, sp := range []spec{{"failsafegrpc.NewUnaryClientInterceptorWithExecutor", "client"}, {"failsafegrpc.NewUnaryServerInterceptorWithExecutor", "server"}} {
		fn := c.P.Func(sp.fn)
		if fn == nil {
			c.Unresolved(sp.fn, "not found")
			continue
		}
		ev := NewEvaluator(c.P, EvalConfig{})
		ts := ev.TS
		var icpt *T
		var st *State
		for _, p := range ev.Run(fn) {
			if p.Exit == ExitReturn && p.Rets[0].Fn != nil {
				icpt, st = p.Rets[0], p.State
			}
		}
		if icpt == nil {
			c.Undecided(sp.fn, c.P.FuncPos(fn), "interceptor closure not found", "")
			continue
		}
		var args []*T
		for _, prm := range icpt.Fn.Params {
			args = append(args, ts.intern(&T{Op: "param", Aux: prm.Name(), Typ: prm.Type()}))
		}
		// the interceptor's parameters by their position in grpc's UnaryClientInterceptor / UnaryServerInterceptor
		// signatures (whatever the code calls them)
		posOf := map[string]map[string]int{
			"client": {"ctx": 0, "method": 1, "req": 2, "reply": 3, "cc": 4, "invoker": 5, "opts": 6},
			"server": {"ctx": 0, "req": 1, "info": 2, "handler": 3},
		}[sp.kind]
		byName := func(n string) *T {
			if i, okp := posOf[n]; okp && i < len(args) {
				return args[i]
			}
			return nil
		}
		ok := true
		name, pos := sp.fn+"$1", c.P.FuncPos(c.P.TargetOf(icpt.Fn)) // the interceptor, closure or bound method
		for _, p := range ev.CallTerm(st, icpt, args) {
			get := eventsWhere(p, func(e *Event) bool { return isCall(e, "GetWithExecution") && e.Idx >= p.Base })
			if p.Exit != ExitReturn || len(get) != 1 || get[0].Args[0].Fn == nil {
				ok = false
				c.Fail(name, pos, "the interceptor must run the call through executor.GetWithExecution", pathTrace(ev, p))
				continue
			}
			if sp.kind == "client" && p.Rets[0] != get[0].Res[1] {
				ok = false
				c.Fail(name, pos, "the client interceptor must return the execution's error unchanged", pathTrace(ev, p))
			}
			if sp.kind == "server" && (p.Rets[0] != get[0].Res[0] || p.Rets[1] != get[0].Res[1]) {
				ok = false
				c.Fail(name, pos, "the server interceptor must return the execution's response and error unchanged", pathTrace(ev, p))
			}
			cl := get[0].Args[0]
			exec := ts.intern(&T{Op: "param", Aux: "exec", Typ: cl.Fn.Params[0].Type()})
			for _, q := range ev.CallTerm(p.State, cl, []*T{exec}) {
				bad := func(msg string) {
					ok = false
					c.Fail(sp.fn+"$1$1", c.P.FuncPos(c.P.TargetOf(cl.Fn)), msg, pathTrace(ev, q))
				}
				evs := q.Events()[q.Base:]
				var mc, call *Event
				for _, e := range evs {
					if isCall(e, "MergeContexts") && mc == nil {
						mc = e
					}
					if e.Kind == EvCall && e.FnTerm != nil && (e.FnTerm == byName("invoker") || e.FnTerm == byName("handler")) {
						if call != nil {
							bad("the wrapped call is made more than once per attempt")
						}
						call = e
					}
				}
				if mc == nil || mc.Args[0] != byName("ctx") || !isCtxCall(mc.Args[1], "Context", exec) {
					bad("each attempt must run under MergeContexts(ctx, exec.Context()): the caller's context (with its metadata and deadline) first, the execution's second")
					continue
				}
				merged, cancel := mc.Res[0], mc.Res[1]
				deferred := eventsWhere(q, func(e *Event) bool { return e.Kind == EvDefer && e.FnTerm == cancel })
				ran := eventsWhere(q, func(e *Event) bool { return isDynCall(e, cancel) && e.Idx >= q.Base })
				if len(deferred) == 0 || len(ran) == 0 {
					bad("the per-attempt merged context must be cancelled when the attempt returns (defer cancel): otherwise its watcher goroutine outlives the call")
				}
				if call == nil {
					bad("the wrapped call is not made")
					continue
				}
				if sp.kind == "client" {
					want := []*T{merged, byName("method"), byName("req"), byName("reply"), byName("cc"), byName("opts")}
					good := len(call.Args) == len(want)
					for i := range want {
						if good && call.Args[i] != want[i] {
							good = false
						}
					}
					if !good || q.Rets[1] != call.Res[0] {
						bad("the invoker must be called with the merged context and the interceptor's own method, request, reply, connection and options, and its error returned unchanged")
					}
				} else {
					if len(call.Args) != 2 || call.Args[0] != merged || call.Args[1] != byName("req") || q.Rets[0] != call.Res[0] || q.Rets[1] != call.Res[1] {
						bad("the handler must be called with the merged context and the request, and its response and error returned unchanged")
					}
				}
			}
		}
		if ok {
			c.Ok(name, pos, "merged context per attempt (cancelled on return); wrapped call once with the interceptor's own arguments; results passed through")
		}
	}
	if fn := c.P.Func("failsafegrpc.NewServerInHandleWithExecutor"); fn == nil {
		c.Unresolved("failsafegrpc.NewServerInHandleWithExecutor", "not found")
	} else {
		ev := NewEvaluator(c.P, EvalConfig{})
		ts := ev.TS
		ok := true
		for _, p := range ev.Run(fn) {
			if p.Exit != ExitReturn || p.Rets[0].Fn == nil {
				continue
			}
			h := p.Rets[0]
			ctx := ts.intern(&T{Op: "param", Aux: "ctx", Typ: h.Fn.Params[0].Type()})
			info := ts.intern(&T{Op: "param", Aux: "info", Typ: h.Fn.Params[1].Type()})
			for _, q := range ev.CallTerm(p.State, h, []*T{ctx, info}) {
				run := eventsWhere(q, func(e *Event) bool { return isCall(e, "Run") && e.Idx >= q.Base })
				if q.Exit != ExitReturn || q.Rets[0] != ctx || len(run) != 1 || q.Rets[1] != run[0].Res[0] {
					ok = false
					c.Fail(c.fn(h.Fn), c.P.FuncPos(h.Fn), "the tap handle must return the caller's context unchanged together with the executor's verdict", pathTrace(ev, q))
				}
			}
		}
		if ok {
			c.Ok(c.fn(fn), c.P.FuncPos(fn), "returns (ctx, executor.Run(noop))")
		}
	}
}

// ---- HTTP retry classification -------------------------------------------------------------------------------

func c18HTTPRetry(c *Ctx) {
	c.Rule("http-retryable")
	fn := c.P.Func("failsafehttp.RetryPolicyBuilder")
	if fn == nil {
		c.Unresolved("failsafehttp.RetryPolicyBuilder", "not found")
		return
	}
	ev := NewEvaluator(c.P, EvalConfig{DecideReturns: true})
	ts := ev.TS
	var pred *T
	var st *State
	okB := true
	for _, p := range ev.Run(fn) {
		hi := eventsWhere(p, func(e *Event) bool { return isCall(e, "HandleIf") })
		ab := eventsWhere(p, func(e *Event) bool { return isCall(e, "AbortOnErrors") })
		df := eventsWhere(p, func(e *Event) bool { return isCall(e, "WithDelayFunc") })
		if len(hi) != 1 || hi[0].Args[0].Fn == nil || len(ab) != 1 || len(df) != 1 || df[0].Args[0].Fn == nil || c.fn(df[0].Args[0].Fn) != "failsafehttp.DelayFunc" {
			okB = false
			c.Fail(c.fn(fn), c.P.FuncPos(fn), "the HTTP retry policy builder must register the retryable-outcome predicate, abort on context.Canceled and use the Retry-After delay function", pathTrace(ev, p))
			continue
		}
		// AbortOnErrors(context.Canceled)
		_, elems := appendedElems(ev, p.State, ts.intern(&T{Op: "app", Aux: "append", Args: []*T{ts.Nil(nil), ab[0].Args[0]}}))
		if len(elems) != 1 || !isGlobal(elems[0], "Canceled") {
			okB = false
			c.Fail(c.fn(fn), c.P.FuncPos(fn), "the builder must abort retries on exactly context.Canceled", pathTrace(ev, p))
		}
		pred, st = hi[0].Args[0], p.State
	}
	if okB && pred != nil {
		c.Ok(c.fn(fn), c.P.FuncPos(fn), "HandleIf(predicate).AbortOnErrors(context.Canceled).WithDelayFunc(DelayFunc)")
	}
	if pred == nil {
		return
	}
	name, pos := c.fn(pred.Fn), c.P.FuncPos(pred.Fn)
	resp := ts.intern(&T{Op: "param", Aux: "resp", Typ: pred.Fn.Params[0].Type()})
	errP := ts.intern(&T{Op: "param", Aux: "err", Typ: pred.Fn.Params[1].Type()})
	qs := ev.CallTerm(st, pred, []*T{resp, errP})
	ok := true
	intT := types.Typ[types.Int]
	rows := 0
	for _, q := range qs {
		if q.Exit != ExitReturn {
			continue
		}
		got := q.State.Facts.Truth(ts, q.Rets[0])
		hasErr := q.State.Facts.Truth(ts, ts.Cmp("!=", errP, ts.Nil(nil)))
		bad := func(msg string) {
			ok = false
			c.Fail(name, pos, msg, pathTrace(ev, q))
		}
		switch hasErr {
		case triT:
			// documented exceptions: unsupported scheme; *url.Error with untrusted certificate, too many redirects or unknown authority
			// (recognised by a regular expression or by a plain substring test of the error text)
			matches := eventsWhere(q, func(e *Event) bool {
				return (isCall(e, "MatchString") || (isCall(e, "Contains") && e.Callee == "strings.Contains")) && e.Idx >= q.Base
			})
			anyMatch := false
			for _, m := range matches {
				if q.State.Facts.Truth(ts, m.Res[0]) == triT {
					anyMatch = true
				}
			}
			unknownAuth := triF
			for _, a := range q.State.Facts.Log {
				a.Cond.Walk(func(t *T) {
					if t.Op == "app" && strings.HasPrefix(t.Aux, "typeok:") && strings.Contains(t.Aux, "UnknownAuthorityError") {
						if q.State.Facts.Truth(ts, t) == triT {
							unknownAuth = triT
						}
					}
				})
			}
			want := triT
			if anyMatch || unknownAuth == triT {
				want = triF
			}
			if got != want {
				bad(fmt.Sprintf("error outcome: expected retry=%s (all errors are retried except unsupported protocol scheme, untrusted certificate, too many redirects, unknown authority), code yields %s", want, got))
			}
			if len(matches) == 0 {
				bad("the non-retryable error kinds are not examined")
			}
		case triF:
			status := ev.LoadField(ev.NewState(), resp, "StatusCode")
			for _, F := range q.State.Facts.Refine(ts, ts.Cmp("!=", resp, ts.Nil(nil)), ts.Cmp("==", status, ts.LinConst(429, intT)), ts.Cmp(">=", status, ts.LinConst(500, intT)), ts.Cmp("==", status, ts.LinConst(501, intT))) {
				rows++
				has := F.Truth(ts, ts.Cmp("!=", resp, ts.Nil(nil)))
				want := triAnd(has, triOr(F.Truth(ts, ts.Cmp("==", status, ts.LinConst(429, intT))), triAnd(F.Truth(ts, ts.Cmp(">=", status, ts.LinConst(500, intT))), F.Truth(ts, ts.Cmp("!=", status, ts.LinConst(501, intT))))))
				if g := F.Truth(ts, q.Rets[0]); g != want || want == triU {
					ok = false
					c.Fail(name, pos, fmt.Sprintf("response outcome: retry ⇔ status = 429 ∨ (status ≥ 500 ∧ status ≠ 501): expected %s, code yields %s", want, g), "row: "+F.String()+"\n"+pathTrace(ev, q))
				}
			}
		default:
			bad("classification does not depend on whether the attempt failed with an error")
		}
	}
	c.Count("decision-table rows", rows)
	if ok && len(qs) > 0 {
		c.Ok(name, pos, fmt.Sprintf("%d paths / %d status rows: errors retried except the documented non-retryable kinds; responses retried ⇔ 429 ∨ (≥500 ∧ ≠501)", len(qs), rows))
	}
	// DelayFunc
	if df := c.P.Func("failsafehttp.DelayFunc"); df == nil {
		c.Unresolved("failsafehttp.DelayFunc", "not found")
	} else {
		ev := NewEvaluator(c.P, EvalConfig{})
		ts := ev.TS
		ok := true
		seenDelay := false
		for _, p := range ev.Run(df) {
			if p.Exit != ExitReturn {
				continue
			}
			r := p.Rets[0]
			lr := eventsWhere(p, func(e *Event) bool { return isCall(e, "LastResult") })
			if len(lr) != 1 {
				ok = false
				c.Fail(c.fn(df), c.P.FuncPos(df), "the delay must be derived from the last response (exec.LastResult())", pathTrace(ev, p))
				continue
			}
			respT := lr[0].Res[0]
			status := ev.LoadField(p.State, respT, "StatusCode")
			if k, isC := r.IsConstInt(); isC && k == -1 {
				continue
			}
			seenDelay = true
			// a delay is returned: must be seconds × time.Second on a 429/503 response with a parsable header
			okStatus := triOr(p.State.Facts.Truth(ts, ts.Cmp("==", status, ts.LinConst(429, intT))), p.State.Facts.Truth(ts, ts.Cmp("==", status, ts.LinConst(503, intT))))
			atoi := eventsWhere(p, func(e *Event) bool { return isCall(e, "Atoi") })
			good := okStatus == triT && p.State.Facts.Truth(ts, ts.Cmp("!=", respT, ts.Nil(nil))) == triT && len(atoi) == 1 && p.State.Facts.Truth(ts, ts.Cmp("==", atoi[0].Res[1], ts.Nil(nil))) == triT
			if good {
				want := ts.MulConst(atoi[0].Res[0], 1000000000, r.Typ)
				good = r == want
			}
			if !good {
				ok = false
				c.Fail(c.fn(df), c.P.FuncPos(df), "a delay may only be returned for a 429 / 503 response with a Retry-After header that parses as seconds, and must be exactly seconds × time.Second (waiting at least the requested time); otherwise -1", pathTrace(ev, p))
			}
		}
		if ok && seenDelay {
			c.Ok(c.fn(df), c.P.FuncPos(df), "Retry-After seconds × time.Second for 429/503, else -1")
		} else if ok {
			c.Fail(c.fn(df), c.P.FuncPos(df), "no path returns a Retry-After delay", "")
		}
	}
}

func c18GRPCRetry(c *Ctx) {
	c.Rule("grpc-retryable")
	fn := c.P.Func("failsafegrpc.RetryPolicyBuilder")
	if fn == nil {
		c.Unresolved("failsafegrpc.RetryPolicyBuilder", "not found")
		return
	}
	ev := NewEvaluator(c.P, EvalConfig{DecideReturns: true})
	ts := ev.TS
	var pred *T
	var st *State
	for _, p := range ev.Run(fn) {
		hi := eventsWhere(p, func(e *Event) bool { return isCall(e, "HandleIf") })
		if len(hi) == 1 && hi[0].Args[0].Fn != nil {
			pred, st = hi[0].Args[0], p.State
		}
	}
	if pred == nil {
		c.Fail(c.fn(fn), c.P.FuncPos(fn), "the gRPC retry policy builder must register the retryable-status predicate (HandleIf)", "")
		return
	}
	// retryable code set: keys of the package-level map (map form) — or constants compared in the predicate (switch form)
	codes := map[int64]bool{}
	if pkg := c.P.SSAPkg[c.P.pkgPath("failsafegrpc")]; pkg != nil {
		if init := pkg.Func("init"); init != nil {
			for _, b := range init.Blocks {
				for _, in := range b.Instrs {
					if mu, isMU := in.(*ssa.MapUpdate); isMU {
						if k, isK := mu.Key.(*ssa.Const); isK && k.Value != nil {
							if v, okv := constInt(k); okv {
								// a set written as map[Code]bool: only entries stored as true are members
								if bv, isB := mu.Value.(*ssa.Const); isB && bv.Value != nil && bv.Value.Kind().String() == "Bool" && bv.Value.ExactString() == "false" {
									continue
								}
								codes[v] = true
							}
						}
					}
				}
			}
		}
	}
	errP := ts.intern(&T{Op: "param", Aux: "err", Typ: pred.Fn.Params[1].Type()})
	r0 := ts.intern(&T{Op: "param", Aux: "r", Typ: pred.Fn.Params[0].Type()})
	ok := true
	name, pos := c.fn(pred.Fn), c.P.FuncPos(pred.Fn)
	usedMap := false
	for _, q := range ev.CallTerm(st, pred, []*T{r0, errP}) {
		if q.Exit != ExitReturn {
			continue
		}
		got := q.State.Facts.Truth(ts, q.Rets[0])
		hasErr := q.State.Facts.Truth(ts, ts.Cmp("!=", errP, ts.Nil(nil)))
		fe := eventsWhere(q, func(e *Event) bool { return isCall(e, "FromError") && e.Idx >= q.Base })
		bad := func(msg string) {
			ok = false
			c.Fail(name, pos, msg, pathTrace(ev, q))
		}
		if hasErr == triF {
			if got != triF {
				bad("a call without an error must not be retried")
			}
			continue
		}
		if len(fe) == 0 {
			// status.Code(err): OK for a nil error, Unknown for an error that is no gRPC status, else the status's code.
			// Neither OK nor Unknown is a documented retryable code (checked below on the collected set), so the three
			// rows of the table reduce to: retried exactly when the code equals one of the constants compared with
			cc := eventsWhere(q, func(e *Event) bool {
				return isCall(e, "Code") && e.Idx >= q.Base && e.Fn != nil && qualName(e.Fn) == "google.golang.org/grpc/status.Code" && len(e.Args) == 1 && e.Args[0] == errP && len(e.Res) == 1
			})
			if len(cc) == 1 {
				member := triF
				for _, a := range q.State.Facts.Log {
					a.Cond.Walk(func(t *T) {
						if t.Op == "cmp" && t.Aux == "==" {
							for i := 0; i < 2; i++ {
								if k, isC := t.Args[i].IsConstInt(); isC && t.Args[1-i] == cc[0].Res[0] {
									if q.State.Facts.Truth(ts, t) == triT {
										codes[k] = codes[k] || got == triT
										member = got
									}
								}
							}
						}
					})
				}
				if got != member {
					bad("a gRPC status error must be retried exactly when its code is in the retryable set")
				}
				continue
			}
		}
		if len(fe) != 1 || fe[0].Args[0] != errP {
			bad("the error's gRPC status must be examined (status.FromError(err))")
			continue
		}
		isStatus := q.State.Facts.Truth(ts, fe[0].Res[1])
		if isStatus == triF {
			if got != triF {
				bad("an error that is not a gRPC status must not be retried")
			}
			continue
		}
		// membership
		var member tri = triU
		for _, a := range q.State.Facts.Log {
			a.Cond.Walk(func(t *T) {
				if t.Op == "app" && t.Aux == "haskey" {
					usedMap = true
					member = q.State.Facts.Truth(ts, t)
					if !(t.Args[1].Op == "app" && hasPrefix(t.Args[1].Aux, "Code@")) {
						member = triU
					}
				}
			})
		}
		if member == triU {
			// the set as map[Code]bool read by indexing: membership is the looked-up value
			for _, a := range q.State.Facts.Log {
				a.Cond.Walk(func(t *T) {
					if t.Op == "app" && t.Aux == "lookup" && len(t.Args) == 2 && t.Args[1].Op == "app" && hasPrefix(t.Args[1].Aux, "Code@") && isBoolType(t.Typ) {
						usedMap = true
						member = q.State.Facts.Truth(ts, t)
					}
				})
			}
		}
		if member == triU {
			// switch form: compare the status code with constants
			for _, a := range q.State.Facts.Log {
				a.Cond.Walk(func(t *T) {
					if t.Op == "cmp" && t.Aux == "==" {
						for i := 0; i < 2; i++ {
							if k, isC := t.Args[i].IsConstInt(); isC && t.Args[1-i].Op == "app" && hasPrefix(t.Args[1-i].Aux, "Code@") {
								if q.State.Facts.Truth(ts, t) == triT {
									codes[k] = codes[k] || got == triT
									member = got
								}
							}
						}
					}
				})
			}
			if member == triU {
				member = triF
			}
		}
		if got != member {
			bad("a gRPC status error must be retried exactly when its code is in the retryable set")
		}
	}
	want := map[int64]string{14: "Unavailable", 4: "DeadlineExceeded", 8: "ResourceExhausted"}
	var gotCodes []string
	for k, v := range codes {
		if v {
			gotCodes = append(gotCodes, fmt.Sprint(k))
		}
	}
	sort.Strings(gotCodes)
	for k, v := range codes {
		if v && want[k] == "" {
			ok = false
			c.Fail(name+"#codes", pos, fmt.Sprintf("gRPC status code %d is retried but is not one of the documented retryable codes (Unavailable, DeadlineExceeded, ResourceExhausted)", k), "")
		}
	}
	for k, n := range want {
		if !codes[k] {
			ok = false
			c.Fail(name+"#codes", pos, "documented retryable code "+n+" is not in the retryable set", "")
		}
	}
	_ = usedMap
	if ok {
		c.Ok(name, pos, "nil / non-status errors not retried; status errors retried ⇔ code ∈ {Unavailable, DeadlineExceeded, ResourceExhausted} (set: "+strings.Join(gotCodes, ",")+")")
	}
}

func constInt(k *ssa.Const) (int64, bool) {
	if k.Value == nil {
		return 0, false
	}
	return k.Int64(), k.Value.Kind().String() == "Int"
}

// ---- C19 ------------------------------------------------------------------------------------------------

func c19Goroutines(c *Ctx) {
	c.Rule("goroutines")
	reviewed := map[string]string{
		"failsafe.(*executor).executeAsync": "async runner: record(execute(…)) and exit (C15 runner rule: no blocking operation after execute)",
		"hedgepolicy.(*executor).Apply":     "hedge attempt: after innerFn only atomics and one send that cannot block (C09.attempt)",
		"timeout.(*executor).Apply":         "timeout callback (time.AfterFunc): CAS, listener, Cancel; no blocking operation (checked below)",
		"util.MergeContexts":                "context merger: ends when a source context or the merged context itself is done (merge-contexts#terminates)",
	}
	n := 0
	ok := true
	ix := BuildIndex(c.P)
	for _, fn := range c.P.Funcs {
		for _, b := range fn.Blocks {
			for _, in := range b.Instrs {
				kind := ""
				var spawned *ssa.Function
				switch x := in.(type) {
				case *ssa.Go:
					kind = "go"
					spawned = ix.resolveFnValue(x.Call.Value)
				case *ssa.Call:
					if cb := c.P.afterFuncArg(&x.Call); cb != nil {
						kind = "AfterFunc"
						spawned = ix.resolveFnValue(cb)
					}
				}
				if kind == "" {
					continue
				}
				n++
				key := c.fn(fn)
				// the site is in a reviewed function, its closures, or helpers only it reaches
				if !ix.WithinNames(fn, sortedKeys(reviewed)...) {
					ok = false
					c.Fail(key+"#"+kind, c.P.Pos(in.Pos()), "a goroutine / timer callback is started at a site that is not in the reviewed inventory: nothing shows that it ends when the execution does", "")
					continue
				}
				// a timer callback must not block
				if kind == "AfterFunc" && spawned != nil {
					for _, b2 := range spawned.Blocks {
						for _, in2 := range b2.Instrs {
							blocking := false
							switch y := in2.(type) {
							case *ssa.Select:
								blocking = y.Blocking
							case *ssa.Send:
								blocking = true
							case *ssa.UnOp:
								blocking = y.Op == token.ARROW
							}
							if blocking {
								ok = false
								c.Fail(c.fn(spawned), c.P.Pos(in2.Pos()), "the timer callback contains a blocking channel operation", "")
							}
						}
					}
				}
			}
		}
	}
	c.Floor("spawn sites", n, 4)
	if ok {
		c.Ok("library#goroutines", "", fmt.Sprintf("%d spawn sites, all in the reviewed inventory with a structural termination argument", n))
	}
}

// c19Timers: every time.NewTimer is received from, stopped, or has a deferred Stop on every path.
func c19Timers(c *Ctx) {
	c.Rule("timers")
	n := 0
	ix := BuildIndex(c.P)
	if c.P.seamField == nil {
		c.P.buildSeams()
	}
	// functions that reach a target through a collaborator seam (a function-typed field bound to it where the object
	// is built)
	seamUsers := func(target string) []*ssa.Function {
		var out []*ssa.Function
		for key, s := range c.P.seamField {
			if s.bad || s.fn == nil || qualName(s.fn) != target {
				continue
			}
			for _, fn := range c.P.Funcs {
				for _, b := range fn.Blocks {
					for _, in := range b.Instrs {
						if fa, isFA := in.(*ssa.FieldAddr); isFA {
							if k, _ := fieldKey(fa.X.Type(), fa.Field); k == key {
								if r, _, _ := addrUses(fa, map[ssa.Value]bool{}); r {
									out = append(out, fn)
								}
							}
						}
					}
				}
			}
		}
		return out
	}
	var work []*ssa.Function
	for _, fn := range c.P.Funcs {
		for _, b := range fn.Blocks {
			for _, in := range b.Instrs {
				if cc, isC := in.(ssa.CallInstruction); isC {
					if cal := calleeOf(cc.Common()); cal != nil && qualName(cal) == "time.NewTimer" {
						work = append(work, fn)
					}
				}
			}
		}
	}
	work = append(work, seamUsers("time.NewTimer")...)
	done := map[*ssa.Function]bool{}
	for len(work) > 0 {
		fn := work[0]
		work = work[1:]
		if done[fn] {
			continue
		}
		done[fn] = true
		// function literals the function calls or defers itself (defer func() { timer.Stop() }()) are part of it
		ev := NewEvaluator(c.P, EvalConfig{MaxVisits: 3, MaxPaths: 50000, InlineClosures: true})
		ps := ev.Run(fn)
		name, pos := c.fn(fn), c.P.FuncPos(fn)
		if ev.Err != nil || len(ps) == 0 {
			c.Undecided(name, pos, fmt.Sprintf("evaluation failed: %v", ev.Err), "")
			continue
		}
		ok := true
		timers := 0
		factory := false
		for _, p := range ps {
			for _, t := range p.Events() {
				if !isCall(t, "NewTimer") {
					continue
				}
				timers++
				tm := t.Res[0]
				// a factory: the timer is handed to the caller (possibly wrapped); the obligation is the caller's
				handedOut := false
				for _, r := range p.Rets {
					if r != nil && (r == tm || r.Contains(tm)) {
						handedOut = true
					}
				}
				if handedOut && p.Exit == ExitReturn {
					if !factory {
						factory = true
						work = append(work, ix.Callers[origin(fn)]...)
						work = append(work, seamUsers(qualName(fn))...)
					}
					continue
				}
				released := false
				for _, e := range p.Events() {
					if e.Idx < t.Idx {
						continue
					}
					if (isCall(e, "Stop") || (e.Kind == EvDefer && e.Method == "Stop")) && e.Recv == tm {
						released = true
					}
					if e.Kind == EvSelect && e.Chosen >= 0 && timerChanOf(e.Cases[e.Chosen], tm) {
						released = true
					}
					if e.Kind == EvRecv && e.Addr.Contains(tm) {
						released = true
					}
				}
				if !released && p.Exit != ExitPanic {
					// a path cut inside the loop before the wait is not evidence
					if p.Exit == ExitCut {
						sawWait := false
						for _, e := range p.Events() {
							if e.Idx > t.Idx && (e.Kind == EvSelect || e.Kind == EvRecv) {
								sawWait = true
							}
						}
						if !sawWait {
							continue
						}
					}
					ok = false
					c.Fail(name, c.P.Pos(t.Instr.Pos()), "a timer is neither received from nor stopped on some path: it stays armed after the wait ended", pathTrace(ev, p))
				}
			}
		}
		if factory && ok {
			c.Ok(name, pos, "hands the timer it creates to its caller: checked there")
			continue
		}
		n++
		if ok {
			c.Ok(name, pos, fmt.Sprintf("%d timer instances over %d paths: each fired (received) or stopped", timers, len(ps)))
		}
	}
	c.Floor("functions creating timers", n, 2)
}

// c19ChildContexts: every cancellable context the library derives for an execution must be released (its cancel
// function called) by the time the part of the execution it was derived for has completed, on every path and not
// only when the execution is cancelled. A derived context that is never cancelled stays registered with its parent
// until the parent ends; when the parent is not one of package context's own types, package context watches it with
// a goroutine per derived context, so every completed execution leaves a goroutine behind for as long as the
// caller's context lives.
//
// Inventory of derivation sites (any other site fails as unreviewed) and the obligation of each owner:
//   - util.MergeContexts returns the cancel function: the HTTP / gRPC attempt functions must run it (cancel-runs);
//   - execution.CopyForCancellable / CopyForHedge store it in the copy: the Timeout closure must cancel its child,
//     the hedge closure must cancel every attempt copy it created, on every returning path;
//   - executeAsync stores it in the root execution: the runner must release it once the result is recorded.
func c19ChildContexts(c *Ctx) {
	c.Rule("child-contexts")
	ix := BuildIndex(c.P)
	reviewed := []string{"util.MergeContexts", "failsafe.(*execution).CopyForCancellable", "failsafe.(*execution).CopyForHedge", "failsafe.(*executor).executeAsync"}
	n := 0
	for _, fn := range c.P.Funcs {
		for _, b := range fn.Blocks {
			for _, in := range b.Instrs {
				cc, isC := in.(ssa.CallInstruction)
				if !isC {
					continue
				}
				cal := calleeOf(cc.Common())
				if cal == nil {
					continue
				}
				switch qualName(cal) {
				case "context.WithCancel", "context.WithCancelCause", "context.WithTimeout", "context.WithDeadline", "context.WithTimeoutCause", "context.WithDeadlineCause":
				default:
					continue
				}
				n++
				if !ix.WithinNames(fn, reviewed...) {
					c.Fail(c.fn(fn)+"#derives-context", c.P.Pos(in.Pos()), "a cancellable context is derived at a site that is not in the reviewed inventory: nothing shows that its cancel function runs when the execution completes", "")
				}
			}
		}
	}
	c.Floor("context derivation sites", n, 2)
	tab := c.ExecTable()
	// Timeout: the child copy must be cancelled on every returning path
	if info := tab["timeout"]; info == nil || info.Slots["Apply"] == nil {
		c.Unresolved("timeout.executor.Apply", "not resolved")
	} else {
		ee := c.NewExecEval(info, EvalConfig{Inline: inlinePkgs(c.P, "internal")})
		paths, _, exec := ee.RunApply()
		name, pos := c.fn(info.Slots["Apply"])+"$1#child-context", c.P.FuncPos(info.Slots["Apply"])
		if ee.Ev.Err != nil || len(paths) == 0 {
			c.Undecided(name, pos, fmt.Sprintf("evaluation failed: %v", ee.Ev.Err), "")
		} else {
			bad := 0
			for _, p := range paths {
				if p.Exit != ExitReturn {
					continue
				}
				for _, cp := range eventsWhere(p, func(e *Event) bool { return isCall(e, "CopyForCancellable") && e.Recv == exec && e.Idx >= p.Base }) {
					child := cp.Res[0]
					if len(eventsWhere(p, func(e *Event) bool { return isCall(e, "Cancel") && e.Recv == child && e.Idx > cp.Idx })) == 0 {
						bad++
						if bad == 1 {
							c.Fail(name, pos, "the cancellable child context derived for the attempt (CopyForCancellable) is not cancelled when the attempt completes without timing out: it stays registered with the caller's context until that ends (one context-propagation goroutine per execution when the caller's context is not a standard library type)", pathTrace(ee.Ev, p))
						}
					}
				}
			}
			if bad == 0 {
				c.Ok(name, pos, "the child context is cancelled on every returning path")
			}
		}
	}
	// Hedge: every attempt copy created on a path must have been cancelled when the closure returns
	if info := tab["hedgepolicy"]; info == nil || info.Slots["Apply"] == nil {
		c.Unresolved("hedgepolicy.executor.Apply", "not resolved")
	} else {
		ee := c.NewExecEval(info, EvalConfig{MaxVisits: 3, MaxPaths: 400000})
		paths, _, exec := ee.RunApply()
		name, pos := c.fn(info.Slots["Apply"])+"$1#winner-context", c.P.FuncPos(info.Slots["Apply"])
		if ee.Ev.Err != nil || len(paths) == 0 {
			c.Undecided(name, pos, fmt.Sprintf("evaluation failed: %v", ee.Ev.Err), "")
		} else {
			bad := 0
			for _, p := range paths {
				if p.Exit != ExitReturn {
					continue
				}
				// a return because the parent is cancelled: the copies derive from the parent's context and end with it
				cancelled := false
				for _, e := range eventsWhere(p, func(e *Event) bool { return isCall(e, "IsCanceledWithResult") && e.Recv == exec && e.Idx >= p.Base }) {
					if p.State.Facts.Truth(ee.Ev.TS, e.Res[0]) == triT {
						cancelled = true
					}
				}
				if cancelled {
					continue
				}
				for _, cp := range eventsWhere(p, func(e *Event) bool {
					return (isCall(e, "CopyForCancellable") || isCall(e, "CopyForHedge")) && e.Recv == exec && e.Idx >= p.Base
				}) {
					child := cp.Res[0]
					if len(eventsWhere(p, func(e *Event) bool { return isCall(e, "Cancel") && e.Recv == child && e.Idx > cp.Idx })) == 0 {
						bad++
						if bad == 1 {
							c.Fail(name, pos, "an attempt's cancellable context (the winner's) is not cancelled when the hedged execution returns its result: it stays registered with the caller's context until that ends (one context-propagation goroutine per execution when the caller's context is not a standard library type)", pathTrace(ee.Ev, p))
						}
					}
				}
			}
			if bad == 0 {
				c.Ok(name, pos, "every attempt context is cancelled on every returning path")
			}
		}
	}
	// async: the root execution's cancel function must run once the runner has recorded the result
	if fn := c.P.Func("failsafe.(*executor).executeAsync"); fn == nil {
		c.Unresolved("failsafe.(*executor).executeAsync", "not found")
	} else {
		ev := NewEvaluator(c.P, EvalConfig{})
		name, pos := c.fn(fn)+"#child-context", c.P.FuncPos(fn)
		bad, seen := 0, 0
		for _, p := range ev.Run(fn) {
			wc := eventsWhere(p, func(x *Event) bool { return isCall(x, "WithCancel") || isCall(x, "WithCancelCause") })
			gos := eventsWhere(p, func(x *Event) bool { return x.Kind == EvGo && x.Snap != nil })
			if len(wc) != 1 || len(gos) != 1 || len(wc[0].Res) != 2 || ev.EventFn(gos[0]) == nil {
				continue
			}
			seen++
			cancel := wc[0].Res[1]
			for _, q := range ev.RunEvent(gos[0].Snap, gos[0], nil) {
				released := false
				for _, x := range q.Events()[q.Base:] {
					if isDynCall(x, cancel) || (x.Kind == EvDefer && x.FnTerm == cancel) {
						released = true
					}
				}
				if !released {
					bad++
					if bad == 1 {
						c.Fail(name, pos, "the cancellable context derived for an async execution is released only by ExecutionResult.Cancel, never when the execution completes: it stays registered with the executor's context until that ends (one context-propagation goroutine per execution when that context is not a standard library type)", pathTrace(ev, q))
					}
				}
			}
		}
		if seen == 0 {
			c.Unresolved(name, "no path deriving a context and starting the runner found")
		} else if bad == 0 {
			c.Ok(name, pos, "the runner releases the derived context after recording the result")
		}
	}
}

// c19Responses: necessary condition for "responses obtained but not returned are closed".
func c19Responses(c *Ctx) {
	c.Rule("responses")
	n := 0
	for _, fn := range c.P.Funcs {
		if fn.Pkg == nil || fn.Pkg.Pkg.Name() != "failsafehttp" {
			continue
		}
		for _, b := range fn.Blocks {
			for _, in := range b.Instrs {
				cc, isC := in.(ssa.CallInstruction)
				if !isC || !cc.Common().IsInvoke() || cc.Common().Method.Name() != "Close" {
					continue
				}
				// Close on something loaded from a Response's Body field
				if u, isU := cc.Common().Value.(*ssa.UnOp); isU {
					if fa, isFA := u.X.(*ssa.FieldAddr); isFA {
						if fr, okf := fieldRefOf(fa.X.Type(), fa.Field); okf && fr.Type == "Response" && fr.Field == "Body" {
							n++
						}
					}
				}
			}
		}
	}
	if n == 0 {
		c.Fail("failsafehttp#responses", "", "no code path of the HTTP adapter ever closes a response body: responses that are retried or lose a hedge are dropped unclosed and keep their connections", "")
	} else {
		c.Ok("failsafehttp#responses", "", fmt.Sprintf("%d Close calls on response bodies in the adapter", n))
	}
}

// c18EntryPoints: RoundTrip and Request.Do hand the caller's request, the configured executor and the inner
// transport / client to doRequest and return its values; a nil inner round tripper means http.DefaultTransport.
func c18EntryPoints(c *Ctx) {
	c.Rule("http-entry")
	// what the two entry points hand to the attempts (the caller's request, the configured executor, the inner
	// transport's RoundTrip / the client's Do on the configured object) is checked where the attempts are evaluated:
	// C18.http-attempt evaluates RoundTrip and Request.Do themselves
	c18HTTPAttempt(c, map[string]bool{"attempt": true})
	c.Rule("http-entry")
	if fn := c.P.Func("failsafehttp.NewRoundTripperWithExecutor"); fn == nil {
		c.Unresolved("failsafehttp.NewRoundTripperWithExecutor", "not found")
	} else {
		ev := NewEvaluator(c.P, EvalConfig{})
		ts := ev.TS
		ok := true
		inner, ex := ev.Param(fn, fn.Params[0].Name()), ev.Param(fn, fn.Params[1].Name())
		for _, p := range ev.Run(fn) {
			r := p.Rets[0]
			nx := ev.LoadField(p.State, r, "next")
			isNil := p.State.Facts.Truth(ts, ts.Cmp("==", inner, ts.Nil(nil)))
			good := r.Op == "alloc" && ev.LoadField(p.State, r, "executor") == ex
			if good && isNil == triF {
				good = nx == inner
			}
			if good && isNil == triT {
				good = isGlobal(nx, "DefaultTransport")
			}
			if !good || isNil == triU {
				ok = false
				c.Fail(c.fn(fn), c.P.FuncPos(fn), "the round tripper must wrap the given inner round tripper (http.DefaultTransport when nil) and the given executor", pathTrace(ev, p))
			}
		}
		if ok {
			c.Ok(c.fn(fn), c.P.FuncPos(fn), "wraps the inner round tripper (DefaultTransport if nil) and the executor")
		}
	}
	// Request: the object keeps the caller's request, client and executor themselves (every attempt is cloned from
	// the caller's request as it is when Do is called — a snapshot taken at construction would send stale headers)
	if fn := c.P.Func("failsafehttp.NewRequestWithExecutor"); fn == nil {
		c.Unresolved("failsafehttp.NewRequestWithExecutor", "not found")
	} else if len(fn.Params) >= 3 {
		ev := NewEvaluator(c.P, EvalConfig{})
		ok := true
		req, client, ex := ev.Param(fn, fn.Params[0].Name()), ev.Param(fn, fn.Params[1].Name()), ev.Param(fn, fn.Params[2].Name())
		for _, p := range ev.Run(fn) {
			if p.Exit != ExitReturn || len(p.Rets) != 1 {
				continue
			}
			r := p.Rets[0]
			if !(r.Op == "alloc" || (r.Op == "faddr" && isFreshRoot(r))) || ev.LoadField(p.State, r, "request") != req || ev.LoadField(p.State, r, "client") != client || ev.LoadField(p.State, r, "executor") != ex || len(impure(p)) != 0 {
				ok = false
				c.Fail(c.fn(fn), c.P.FuncPos(fn), "the Request must keep the caller's request, client and executor as given (no copy of the request taken at construction: attempts are cloned from the request as it is when Do is called)", pathTrace(ev, p))
			}
		}
		if ok {
			c.Ok(c.fn(fn), c.P.FuncPos(fn), "keeps the request, the client and the executor as given")
		}
	}
}
