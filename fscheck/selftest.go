package main

// Self-validation of the checker (DESIGN §5): every corpus entry is a patch against /repo that must make a
// given rule fire (mutants, seeded adversarial changes) or must leave the checks silent (behaviour-preserving
// refactorings). Each variant is analysed in its own scratch copy and its own process; nothing here turns a
// verdict about /repo red: the tally is recorded in the evidence as validation of the checker.

import (
	"encoding/json"
	"flag"
	"fmt"
	"os"
	"os/exec"
	"path/filepath"
	"sort"
	"strings"
	"sync"
)

type corpusEntry struct {
	Name  string
	Dir   string
	Kind  string // must-fire | must-stay-silent
	Props []string
	Rule  string
	What  string
}

type corpusResult struct {
	Entry   string `json:"entry"`
	Kind    string `json:"kind"`
	Prop    string `json:"property"`
	Outcome string `json:"outcome"` // fired | silent | MISSED | FALSE-ALARM | inapplicable
	Detail  string `json:"detail,omitempty"`
}

func loadCorpus(verif string) []corpusEntry {
	var out []corpusEntry
	// mutants/limits: behaviour-preserving restructurings the anchor resolution is known not to follow (DESIGN.md §5);
	// they are run so that the list stays honest (an entry that has become silent can be promoted), not counted
	for _, sub := range []string{"mutants/fire", "mutants/silent", "mutants/limits"} {
		ds, _ := filepath.Glob(filepath.Join(verif, sub, "*"))
		for _, d := range ds {
			b, err := os.ReadFile(filepath.Join(d, "expect.json"))
			if err != nil {
				continue
			}
			var x struct {
				Kind       string   `json:"kind"`
				Properties []string `json:"properties"`
				Rule       string   `json:"rule_contains"`
				What       string   `json:"what"`
			}
			if json.Unmarshal(b, &x) != nil {
				continue
			}
			out = append(out, corpusEntry{Name: filepath.Base(d), Dir: d, Kind: x.Kind, Props: x.Properties, Rule: x.Rule, What: x.What})
		}
	}
	ds, _ := filepath.Glob(filepath.Join(verif, "seeded", "*"))
	for _, d := range ds {
		b, err := os.ReadFile(filepath.Join(d, "meta.json"))
		if err != nil {
			continue
		}
		var x struct {
			Property string `json:"property"`
			Kind     string `json:"kind"`
		}
		if json.Unmarshal(b, &x) != nil || x.Property == "" {
			continue
		}
		kind := "must-fire"
		if x.Kind == "refactor" {
			kind = "must-stay-silent"
		}
		props := []string{x.Property}
		if x.Property == "ALL" {
			props = nil
			for id := range registry {
				props = append(props, id)
			}
			sort.Strings(props)
		}
		out = append(out, corpusEntry{Name: "seeded/" + filepath.Base(d), Dir: d, Kind: kind, Props: props})
	}
	sort.Slice(out, func(i, j int) bool { return out[i].Name < out[j].Name })
	return out
}

func runVariant(self, repo, verif string, e corpusEntry, props []string) []corpusResult {
	all := func(outcome, detail string) []corpusResult {
		var rs []corpusResult
		for _, p := range props {
			rs = append(rs, corpusResult{Entry: e.Name, Kind: e.Kind, Prop: p, Outcome: outcome, Detail: detail})
		}
		return rs
	}
	tmpRoot := os.Getenv("TMPDIR")
	if tmpRoot == "" || strings.HasPrefix(tmpRoot, "/verif") || strings.HasPrefix(tmpRoot, "/repo") {
		tmpRoot = "/var/tmp"
	}
	dir, err := os.MkdirTemp(tmpRoot, "fsself.")
	if err != nil {
		return all("inapplicable", err.Error())
	}
	defer os.RemoveAll(dir)
	if out, err := exec.Command("rsync", "-a", "--exclude", ".git", repo+"/", dir+"/").CombinedOutput(); err != nil {
		return all("inapplicable", "copy failed: "+string(out))
	}
	p := exec.Command("patch", "-p1", "-s", "--no-backup-if-mismatch", "-E", "-i", filepath.Join(e.Dir, "patch.diff"))
	p.Dir = dir
	if out, err := p.CombinedOutput(); err != nil {
		return all("inapplicable", "patch does not apply: "+firstLine(string(out)))
	}
	// one process analyses the variant for all requested properties (the tree is loaded and type-checked once; a
	// variant that does not compile is reported as such by the loader — no separate build, which would only fill
	// the Go build cache with one copy of the library per variant)
	c := exec.Command(self, "multicheck", "-props", strings.Join(props, ","), "-repo", dir, "-verif", verif)
	out, _ := c.CombinedOutput()
	if strings.Contains(string(out), "LOAD-FAILED: ") {
		i := strings.Index(string(out), "LOAD-FAILED: ")
		return all("inapplicable", "does not build: "+firstLine(string(out)[i+13:]))
	}
	sections := map[string][]string{}
	cur := ""
	for _, l := range strings.Split(string(out), "\n") {
		if strings.HasPrefix(l, "=== ") {
			cur = strings.TrimPrefix(l, "=== ")
			continue
		}
		sections[cur] = append(sections[cur], l)
	}
	var rs []corpusResult
	for _, prop := range props {
		res := corpusResult{Entry: e.Name, Kind: e.Kind, Prop: prop}
		lines, ran := sections[prop]
		if !ran {
			// the analysis process died before reaching this property: fail closed
			lines = []string{"VIOLATION property=" + prop + " (analysis did not complete)", "  rule " + prop + ".checker: " + firstLine(string(out))}
		}
		fired := false
		var hit string
		knownSeen := 0
		for _, l := range lines {
			if strings.HasPrefix(l, "KNOWN-FINDING: property="+prop+" ") {
				knownSeen++
			}
			if strings.HasPrefix(l, "  rule ") {
				if e.Rule == "" || strings.Contains(l, "."+e.Rule) || strings.Contains(l, e.Rule) {
					fired = true
					if hit == "" {
						hit = strings.TrimSpace(l)
					}
				} else if hit == "" && e.Kind == "must-stay-silent" {
					fired = true
					hit = strings.TrimSpace(l)
				}
			}
			if strings.HasPrefix(l, "VIOLATION") {
				fired = true // the interface's criterion; rule_contains only selects which report line is quoted
			}
		}
		if len(hit) > 220 {
			hit = hit[:220]
		}
		switch {
		case e.Kind == "must-fire" && fired:
			res.Outcome, res.Detail = "fired", hit
		case e.Kind == "must-fire":
			res.Outcome = "MISSED"
		case e.Kind == "known-limit" && fired:
			res.Outcome, res.Detail = "limit", hit
		case fired:
			res.Outcome, res.Detail = "FALSE-ALARM", hit
		case knownSeen < expectedKnown(verif, prop):
			// a behaviour-preserving variant still has the recorded defects: a check that stops reporting them has lost
			// sight of the construct (a miss on refactored code)
			res.Outcome, res.Detail = "LOST-FINDING", fmt.Sprintf("%d of %d recorded findings still reported", knownSeen, expectedKnown(verif, prop))
		default:
			res.Outcome = "silent"
		}
		rs = append(rs, res)
	}
	return rs
}

var expectedKnownCache = map[string]int{}
var expectedKnownOnce sync.Once

// expectedKnown: number of `known` (unrepaired) findings recorded for the property.
func expectedKnown(verif, prop string) int {
	expectedKnownOnce.Do(func() {
		b, err := os.ReadFile(filepath.Join(verif, "known_findings.json"))
		if err != nil {
			return
		}
		var fs []struct{ Property, Status string }
		if json.Unmarshal(b, &fs) != nil {
			return
		}
		for _, f := range fs {
			if f.Status == "known" {
				expectedKnownCache[f.Property]++
			}
		}
	})
	return expectedKnownCache[prop]
}

func firstLine(s string) string {
	if i := strings.IndexByte(s, '\n'); i >= 0 {
		s = s[:i]
	}
	if len(s) > 160 {
		s = s[:160]
	}
	return s
}

// runCorpus runs every corpus entry relevant to prop ("" = all properties) with par workers.
func runCorpus(repo, verif, prop string, par int) []corpusResult {
	self, _ := os.Executable()
	type job struct {
		e  corpusEntry
		ps []string
	}
	var jobs []job
	for _, e := range loadCorpus(verif) {
		if (corpusKind != "" && e.Kind != corpusKind) || (corpusOnly != "" && !strings.Contains(e.Name, corpusOnly)) {
			continue
		}
		var ps []string
		for _, p := range e.Props {
			if prop == "" || p == prop {
				ps = append(ps, p)
			}
		}
		if len(ps) > 0 {
			jobs = append(jobs, job{e, ps})
		}
	}
	results := make([][]corpusResult, len(jobs))
	var wg sync.WaitGroup
	sem := make(chan struct{}, par)
	for i, j := range jobs {
		wg.Add(1)
		go func(i int, j job) {
			defer wg.Done()
			sem <- struct{}{}
			defer func() { <-sem }()
			results[i] = runVariant(self, repo, verif, j.e, j.ps)
		}(i, j)
	}
	wg.Wait()
	var flat []corpusResult
	for _, r := range results {
		flat = append(flat, r...)
	}
	return flat
}

var corpusKind, corpusOnly string

func tally(rs []corpusResult) map[string]int {
	t := map[string]int{}
	for _, r := range rs {
		t[r.Outcome]++
	}
	return t
}

func cmdSelftest(args []string) int {
	fs := flag.NewFlagSet("selftest", flag.ExitOnError)
	repo := fs.String("repo", "/repo", "")
	verif := fs.String("verif", "/verif", "")
	prop := fs.String("prop", "", "only entries of this property")
	par := fs.Int("j", 8, "parallel variants")
	kind := fs.String("kind", "", "only must-fire or must-stay-silent entries")
	only := fs.String("only", "", "only entries whose name contains this")
	report := fs.String("report", "", "write all results as JSON to this file")
	fs.Parse(args)
	corpusKind, corpusOnly = *kind, *only
	rs := runCorpus(*repo, *verif, *prop, *par)
	bad := 0
	for _, r := range rs {
		if r.Outcome == "MISSED" || r.Outcome == "FALSE-ALARM" || r.Outcome == "LOST-FINDING" || r.Outcome == "inapplicable" {
			fmt.Printf("%-12s %-28s %s %s\n", r.Outcome, r.Entry, r.Prop, r.Detail)
		}
		if r.Outcome == "MISSED" || r.Outcome == "FALSE-ALARM" || r.Outcome == "LOST-FINDING" {
			bad++
		}
	}
	fmt.Printf("selftest: %d variants: %v\n", len(rs), tally(rs))
	if *report != "" {
		b, _ := json.MarshalIndent(rs, "", " ")
		os.WriteFile(*report, b, 0o644)
	}
	if bad > 0 {
		return 1
	}
	return 0
}
