package main

// C12 — Failure classification follows the documented handle-condition rules (DESIGN §3 C12).

import (
	"fmt"
	"go/types"
	"strings"

	"golang.org/x/tools/go/ssa"
)

func rulesC12(c *Ctx) {
	c12IsFailure(c)
	c12Registrars(c)
	c12AnyOf(c)
	c12Unwrap(c)
	c12Shared(c)
	c12Builders(c)
	// "circuit breakers … alike": the breaker's standalone record entry points classify with the same IsFailure
	c04RecordInternals(c)
	// "retries … alike: any abort match aborts": the retry decision consults the abort conditions whatever the budget;
	// "fallbacks … alike": the fallback classifies its own output by the same conditions
	c.Rule("retry-decision")
	retryDecision(c, map[string]bool{"decision": true})
	c10Apply(c)
	// "no conditions are configured" is a statement about what the user configured: Build installs no default on the
	// builder's shared condition sets
	buildCopiesConfig(c)
	// "hedge cancel conditions … any match cancels": every finished attempt is tested against them
	c.Rule("hedge-attempt")
	c09Loop(c)
	// "circuit breakers … alike": what the breaker's executor records is the verdict of the classification just made
	// (a success recorded through the re-classifying standalone API loses the outcome's error)
	c04Pairing(c)
	// "an outcome is a failure exactly when …": what a policy does with an outcome follows the classification — the
	// shared PostExecute marks the result a success or a failure by IsFailure and nothing else
	c01PostExecute(c)
	c01Verdict(c)
}

// ---- C12.isfailure -------------------------------------------------------------------------------------

func c12IsFailure(c *Ctx) {
	c.Rule("isfailure")
	fn := c.P.Func("policy.(*BaseFailurePolicy).IsFailure")
	if fn == nil {
		c.Unresolved("policy.(*BaseFailurePolicy).IsFailure", "not found")
		return
	}
	name, pos := c.fn(fn), c.P.FuncPos(fn)
	ev := NewEvaluator(c.P, EvalConfig{DecideReturns: true})
	paths := ev.Run(fn)
	if ev.Err != nil || len(paths) == 0 {
		c.Undecided(name, pos, fmt.Sprintf("evaluation failed: %v", ev.Err), "")
		return
	}
	ts := ev.TS
	s0 := ev.NewState()
	recv := ev.Param(fn, fn.Params[0].Name())
	conds := ev.LoadField(s0, recv, "failureConditions")
	checked := ev.LoadField(s0, recv, "errorsChecked")
	result, err := ev.Param(fn, fn.Params[1].Name()), ev.Param(fn, fn.Params[2].Name())
	if conds == nil || checked == nil {
		c.Unresolved(name, "fields failureConditions / errorsChecked not found")
		return
	}
	lenC := ts.intern(&T{Op: "app", Aux: "len", Args: []*T{conds}, Typ: types.Typ[types.Int]})
	aN := ts.Cmp("==", lenC, ts.LinConst(0, types.Typ[types.Int]))
	aE := ts.Cmp("!=", err, ts.Nil(nil))
	ok := true
	rows := 0
	for _, p := range paths {
		if p.Exit != ExitReturn || len(p.Rets) != 1 {
			ok = false
			c.Fail(name, pos, "non-returning path", pathTrace(ev, p))
			continue
		}
		var match *T
		for _, e := range p.Events() {
			if isCall(e, "AppliesToAny") && len(e.Args) == 3 && e.Args[0] == conds && e.Args[1] == result && e.Args[2] == err {
				match = e.Res[0]
			}
		}
		for _, F := range p.State.Facts.Refine(ts, aN, match, aE, checked, p.Rets[0]) {
			rows++
			N, E, C := F.Truth(ts, aN), F.Truth(ts, aE), F.Truth(ts, checked)
			M := triU
			if match != nil {
				M = F.Truth(ts, match)
			}
			// spec: N ⇒ E ; ¬N ⇒ M ∨ (E∧¬C)   (three-valued: a row whose unknowns cannot change the outcome is decided)
			wantN, wantC := E, triOr(M, triAnd(E, C.not()))
			var want tri
			switch N {
			case triT:
				want = wantN
			case triF:
				want = wantC
			default:
				want = triU
				if wantN == wantC {
					want = wantN
				}
			}
			got := F.Truth(ts, p.Rets[0])
			if want == triU || got != want {
				ok = false
				c.Fail(name, pos, fmt.Sprintf("classification row mismatch: noConditions=%s anyMatch=%s err≠nil=%s errorsChecked=%s ⇒ expected %s, code yields %s", N, M, E, C, want, got), "row: "+F.String()+"\n"+pathTrace(ev, p))
			}
		}
	}
	c.Count("decision-table rows", rows)
	if ok {
		c.Ok(name, pos, fmt.Sprintf("%d rows: no conditions ⇒ err≠nil; some condition matches ⇒ failure; else err≠nil ∧ ¬errorsChecked", rows))
	}
	// BaseExecutor.IsFailure delegates to the policy's BaseFailurePolicy when present, else err != nil
	c.Rule("isfailure")
	if bf := c.P.Func("policy.(*BaseExecutor).IsFailure"); bf == nil {
		c.Unresolved("policy.(*BaseExecutor).IsFailure", "not found")
	} else {
		ev := NewEvaluator(c.P, EvalConfig{DecideReturns: true})
		ps := ev.Run(bf)
		good := ev.Err == nil && len(ps) > 0
		e0 := ev.Param(bf, bf.Params[0].Name())
		bfp := ev.LoadField(ev.NewState(), e0, "BaseFailurePolicy")
		r, er := ev.Param(bf, bf.Params[1].Name()), ev.Param(bf, bf.Params[2].Name())
		for _, p := range ps {
			hasPolicy := p.State.Facts.Truth(ev.TS, ev.TS.Cmp("!=", bfp, ev.TS.Nil(nil)))
			calls := eventsWhere(p, func(e *Event) bool { return isCall(e, "IsFailure") })
			switch hasPolicy {
			case triT:
				if len(calls) != 1 || calls[0].Recv != bfp || calls[0].Args[0] != r || calls[0].Args[1] != er || p.State.Facts.Truth(ev.TS, p.Rets[0]) != p.State.Facts.Truth(ev.TS, calls[0].Res[0]) {
					good = false
					c.Fail(c.fn(bf), c.P.FuncPos(bf), "with a failure policy configured, IsFailure must be exactly that policy's IsFailure(result, err)", pathTrace(ev, p))
				}
			case triF:
				if len(calls) != 0 || p.State.Facts.Truth(ev.TS, p.Rets[0]) != p.State.Facts.Truth(ev.TS, ev.TS.Cmp("!=", er, ev.TS.Nil(nil))) {
					good = false
					c.Fail(c.fn(bf), c.P.FuncPos(bf), "without a failure policy, IsFailure must be err != nil", pathTrace(ev, p))
				}
			default:
				good = false
				c.Undecided(c.fn(bf), c.P.FuncPos(bf), "path does not depend on whether a failure policy is configured", pathTrace(ev, p))
			}
		}
		if good {
			c.Ok(c.fn(bf), c.P.FuncPos(bf), "delegates to the configured BaseFailurePolicy, else err != nil")
		}
	}
}

// ---- C12.registrars ------------------------------------------------------------------------------------

// appendedElems flattens append(append(base, …), …) into base and the appended element terms.
func appendedElems(ev *Evaluator, st *State, t *T) (base *T, elems []*T) {
	if t.Op == "app" && t.Aux == "append" && len(t.Args) == 2 {
		b, es := appendedElems(ev, st, t.Args[0])
		sl := t.Args[1]
		if sl.Op == "app" && sl.Aux == "slice" && sl.Args[0].Op == "alloc" {
			arr := sl.Args[0]
			for i := 0; ; i++ {
				addr := ev.TS.intern(&T{Op: "iaddr", Args: []*T{arr, ev.TS.LinConst(int64(i), types.Typ[types.Int])}})
				v, ok := st.cells[addr]
				if !ok {
					// the address term may carry a type
					found := false
					for k, vv := range st.cells {
						if k.Op == "iaddr" && k.Args[0] == arr {
							if n, isC := k.Args[1].IsConstInt(); isC && n == int64(i) {
								v, found = vv, true
							}
						}
					}
					if !found {
						break
					}
				}
				es = append(es, v)
			}
		} else {
			es = append(es, sl)
		}
		return b, es
	}
	return t, nil
}

type registrarSpec struct {
	fn        string // FuncName
	field     string // conditions field
	kind      string // "is", "types", "result", "predicate", "predicate-wrapped"
	setsCheck tri    // errorsChecked must be set (T), must not be set (F), n/a (U)
}

func c12Registrars(c *Ctx) {
	c.Rule("registrars")
	specs := []registrarSpec{
		{"policy.(*BaseFailurePolicy).HandleErrors", "failureConditions", "is", triT},
		{"policy.(*BaseFailurePolicy).HandleErrorTypes", "failureConditions", "types", triT},
		{"policy.(*BaseFailurePolicy).HandleResult", "failureConditions", "result-noerr", triF},
		{"policy.(*BaseFailurePolicy).HandleIf", "failureConditions", "predicate", triT},
		{"policy.(*BaseAbortablePolicy).AbortOnErrors", "abortConditions", "is", triU},
		{"policy.(*BaseAbortablePolicy).AbortOnErrorTypes", "abortConditions", "types", triU},
		{"policy.(*BaseAbortablePolicy).AbortOnResult", "abortConditions", "result", triU},
		{"policy.(*BaseAbortablePolicy).AbortIf", "abortConditions", "predicate", triU},
	}
	for _, sp := range specs {
		fn := c.P.Func(sp.fn)
		if fn == nil {
			c.Unresolved(sp.fn, "not found")
			continue
		}
		checkRegistrar(c, fn, sp)
	}
}

func checkRegistrar(c *Ctx, fn *ssa.Function, sp registrarSpec) {
	name, pos := c.fn(fn), c.P.FuncPos(fn)
	ev := NewEvaluator(c.P, EvalConfig{MaxVisits: visits(4), InlineClosures: true})
	paths := ev.Run(fn)
	if ev.Err != nil || len(paths) == 0 {
		c.Undecided(name, pos, fmt.Sprintf("evaluation failed: %v", ev.Err), "")
		return
	}
	ts := ev.TS
	recv := ev.Param(fn, fn.Params[0].Name())
	arg := ev.Param(fn, fn.Params[1].Name())
	variadic := fn.Signature.Variadic()
	ok := true
	complete := 0
	maxElems := 0
	for _, p := range paths {
		if p.Exit != ExitReturn {
			continue
		}
		complete++
		bad := func(msg string) {
			ok = false
			c.Fail(name, pos, msg, pathTrace(ev, p))
		}
		final := ev.LoadField(p.State, recv, sp.field)
		base, elems := appendedElems(ev, p.State, final)
		if base != ev.LoadField(ev.NewState(), recv, sp.field) {
			bad("the registrar replaces the existing conditions instead of appending to them")
			continue
		}
		// number of registered conditions
		if variadic {
			lenArg := ts.intern(&T{Op: "app", Aux: "len", Args: []*T{arg}, Typ: types.Typ[types.Int]})
			if p.State.Facts.Truth(ts, ts.Cmp("==", lenArg, ts.LinConst(int64(len(elems)), types.Typ[types.Int]))) != triT {
				bad(fmt.Sprintf("%d conditions registered on a path that does not imply len(args) == %d (one condition per argument)", len(elems), len(elems)))
				continue
			}
		} else if len(elems) != 1 {
			bad(fmt.Sprintf("%d conditions registered, expected exactly one", len(elems)))
			continue
		}
		if len(elems) > maxElems {
			maxElems = len(elems)
		}
		// errorsChecked
		if sp.setsCheck != triU {
			chk := ev.LoadField(p.State, recv, "errorsChecked")
			old := ev.LoadField(ev.NewState(), recv, "errorsChecked")
			if sp.setsCheck == triT && !isTrue(chk) {
				bad("an error-handling condition must mark errors as checked (errorsChecked = true), otherwise unmatched errors are still failures")
			}
			if sp.setsCheck == triF && chk != old {
				bad("a result-only condition must not change errorsChecked: unmatched errors stay failures by default")
			}
		}
		// each registered condition
		for k, el := range elems {
			var target *T
			if variadic {
				target = ev.load(ev.NewState(), ts.intern(&T{Op: "iaddr", Args: []*T{arg, ts.LinConst(int64(k), types.Typ[types.Int])}, Typ: nil}), nil)
			} else {
				target = arg
			}
			if !checkCondition(c, ev, p, el, sp.kind, target, name, pos, k) {
				ok = false
			}
		}
	}
	if complete == 0 {
		ok = false
		c.Undecided(name, pos, "no complete path", "")
	}
	if variadic && maxElems < 2 && ok {
		ok = false
		c.Undecided(name, pos, "no path registering two conditions was explored (per-argument capture cannot be decided)", "")
	}
	if ok {
		c.Ok(name, pos, fmt.Sprintf("appends one %s-condition per argument (checked up to %d arguments); errorsChecked as documented", sp.kind, maxElems))
	}
}

// checkCondition evaluates a registered predicate closure in the registrar's final state.
func checkCondition(c *Ctx, ev *Evaluator, p *Path, el *T, kind string, target *T, name, pos string, k int) bool {
	ts := ev.TS
	fail := func(msg string, q *Path) bool {
		d := ""
		if q != nil {
			d = pathTrace(ev, q)
		}
		c.Fail(name, pos, fmt.Sprintf("condition #%d: %s", k, msg), d)
		return false
	}
	if kind == "predicate" {
		if el == target {
			return true
		}
		if el.Op != "closure" {
			return fail("the user predicate itself must be registered", nil)
		}
	}
	if el.Op != "closure" {
		return fail(fmt.Sprintf("registered value %s is not a condition closure", el), nil)
	}
	if len(el.Fn.Params) != 2 {
		return fail("condition has an unexpected signature", nil)
	}
	r := ts.intern(&T{Op: "param", Aux: "r#cond", Typ: el.Fn.Params[0].Type()})
	er := ts.intern(&T{Op: "param", Aux: "err#cond", Typ: el.Fn.Params[1].Type()})
	sub := NewEvaluator(c.P, EvalConfig{DecideReturns: true})
	sub.TS = ev.TS
	qs := sub.CallTerm(p.State, el, []*T{r, er})
	if sub.Err != nil || len(qs) == 0 {
		c.Undecided(name, pos, fmt.Sprintf("condition #%d could not be evaluated: %v", k, sub.Err), "")
		return false
	}
	base := len(p.Events())
	aE := ts.Cmp("!=", er, ts.Nil(nil))
	for _, q := range qs {
		if q.Exit != ExitReturn || len(q.Rets) != 1 {
			return fail("condition has a non-returning path", q)
		}
		var calls []*Event
		for _, e := range q.Events()[base:] {
			if e.Kind == EvCall {
				calls = append(calls, e)
			}
		}
		got := q.State.Facts.Truth(ts, q.Rets[0])
		expectCall := func(method string, a0, a1 *T) (tri, bool) {
			if len(calls) != 1 || calls[0].Method != method || len(calls[0].Args) != 2 || calls[0].Args[0] != a0 || calls[0].Args[1] != a1 {
				return triU, false
			}
			return q.State.Facts.Truth(ts, calls[0].Res[0]), true
		}
		switch kind {
		case "is":
			v, okc := expectCall("Is", er, target)
			if !okc || v != got || got == triU {
				return fail(fmt.Sprintf("must be errors.Is(actual error, target #%d) with the target captured per argument", k), q)
			}
		case "types":
			v, okc := expectCall("ErrorTypesMatch", er, target)
			if !okc || v != got || got == triU {
				return fail(fmt.Sprintf("must be util.ErrorTypesMatch(actual error, target #%d) with the target captured per argument", k), q)
			}
		case "result":
			// abort / cancel conditions on a result match whatever error accompanies it (documented as "if the
			// execution result matches"; only HandleResult is documented to ignore outcomes carrying an error)
			v, okc := expectCall("DeepEqual", r, target)
			if !okc {
				return fail("must be reflect.DeepEqual(actual result, target), whether or not the outcome also carries an error", q)
			}
			if v != got || got == triU {
				return fail("must return reflect.DeepEqual(actual result, target)", q)
			}
		case "result-noerr":
			E := q.State.Facts.Truth(ts, aE)
			switch E {
			case triT:
				if got != triF {
					return fail("HandleResult must not match an outcome that carries an error (documented: only considered when a result is returned, not when an error is returned)", q)
				}
			case triF:
				v, okc := expectCall("DeepEqual", r, target)
				if !okc || v != got || got == triU {
					return fail("for outcomes without an error must be reflect.DeepEqual(actual result, target)", q)
				}
			default:
				return fail("HandleResult condition does not look at the error: it must only match outcomes without an error", q)
			}
		case "predicate":
			// wrapper closure around the user predicate
			if len(calls) != 1 || calls[0].FnTerm != target || len(calls[0].Args) != 2 || calls[0].Args[0] != r || calls[0].Args[1] != er || q.State.Facts.Truth(ts, calls[0].Res[0]) != got || got == triU {
				return fail("must be exactly the user predicate applied to (result, error)", q)
			}
		}
	}
	return true
}

// ---- C12.anyof -----------------------------------------------------------------------------------------

func c12AnyOf(c *Ctx) {
	c.Rule("anyof")
	fn := c.P.Func("util.AppliesToAny")
	if fn == nil {
		c.Unresolved("util.AppliesToAny", "not found")
		return
	}
	name, pos := c.fn(fn), c.P.FuncPos(fn)
	ev := NewEvaluator(c.P, EvalConfig{MaxVisits: visits(4), DecideReturns: true})
	paths := ev.Run(fn)
	if ev.Err != nil || len(paths) == 0 {
		c.Undecided(name, pos, fmt.Sprintf("evaluation failed: %v", ev.Err), "")
		return
	}
	ts := ev.TS
	preds := ev.Param(fn, fn.Params[0].Name())
	v1, v2 := ev.Param(fn, fn.Params[1].Name()), ev.Param(fn, fn.Params[2].Name())
	lenP := ts.intern(&T{Op: "app", Aux: "len", Args: []*T{preds}, Typ: types.Typ[types.Int]})
	ok := true
	complete := 0
	for _, p := range paths {
		if p.Exit == ExitCut {
			continue
		}
		complete++
		bad := func(msg string) {
			ok = false
			c.Fail(name, pos, msg, pathTrace(ev, p))
		}
		var calls []*Event
		for _, e := range p.Events() {
			if e.Kind == EvCall && e.FnTerm != nil {
				calls = append(calls, e)
			}
		}
		// call k is predicate k applied to (value1, value2), all earlier ones returned false
		for k, e := range calls {
			want := ev.load(ev.NewState(), ts.intern(&T{Op: "iaddr", Args: []*T{preds, ts.LinConst(int64(k), types.Typ[types.Int])}}), nil)
			if e.FnTerm.Op != "init" || e.FnTerm.Args[0].Op != "iaddr" || e.FnTerm.Args[0].Args[0] != preds || e.FnTerm.Args[0].Args[1] != ts.LinConst(int64(k), types.Typ[types.Int]) {
				_ = want
				bad(fmt.Sprintf("call #%d is not predicate #%d of the list", k, k))
			}
			if len(e.Args) != 2 || e.Args[0] != v1 || e.Args[1] != v2 {
				bad("a predicate is not applied to exactly (value1, value2)")
			}
			if k < len(calls)-1 && p.State.Facts.Truth(ts, e.Res[0]) != triF {
				bad("evaluation continues after a predicate returned true")
			}
		}
		got := p.State.Facts.Truth(ts, p.Rets[0])
		if len(calls) > 0 && p.State.Facts.Truth(ts, calls[len(calls)-1].Res[0]) == triT {
			if got != triT {
				bad("a predicate matched but the result is not true")
			}
		} else {
			// all returned false: must have covered the whole list
			if got != triF {
				bad("no predicate matched but the result is not false")
			}
			if p.State.Facts.Truth(ts, ts.Cmp("==", lenP, ts.LinConst(int64(len(calls)), types.Typ[types.Int]))) != triT {
				bad(fmt.Sprintf("returns false after %d predicates on a path that does not imply the list has exactly %d elements", len(calls), len(calls)))
			}
		}
	}
	if complete < 3 {
		ok = false
		c.Undecided(name, pos, "fewer than three complete paths (loop not recognised)", "")
	}
	if ok {
		c.Ok(name, pos, fmt.Sprintf("%d complete paths: true iff some predicate, applied in order to (value1,value2), returned true; false only after all returned false", complete))
	}
}

// ---- C12.unwrap ----------------------------------------------------------------------------------------

// errorAs must test assignability of the current error first, follow Unwrap() error, and recurse into
// every element of Unwrap() []error.
func c12Unwrap(c *Ctx) {
	c.Rule("unwrap")
	fn := c.P.Func("util.errorAs")
	if fn == nil {
		c.Unresolved("util.errorAs", "not found")
		return
	}
	name, pos := c.fn(fn), c.P.FuncPos(fn)
	ev := NewEvaluator(c.P, EvalConfig{MaxVisits: visits(3), DecideReturns: true})
	paths := ev.Run(fn)
	if ev.Err != nil || len(paths) == 0 {
		c.Undecided(name, pos, fmt.Sprintf("evaluation failed: %v", ev.Err), "")
		return
	}
	ts := ev.TS
	// the error under test: the parameter of type error; the target type: whatever the first assignability test
	// compares with (a parameter upstream; a field of the receiver when the function became a method of a matcher)
	errIdx := -1
	for i, prm := range fn.Params {
		if types.TypeString(prm.Type(), nil) == "error" {
			errIdx = i
		}
	}
	var errP *T
	if errIdx < 0 {
		// the error travels in a by-value parameter bundle
		for _, prm := range fn.Params {
			st, isS := prm.Type().Underlying().(*types.Struct)
			if !isS {
				continue
			}
			for i := 0; i < st.NumFields(); i++ {
				if types.TypeString(st.Field(i).Type(), nil) == "error" {
					k, ft := fieldKey(prm.Type(), i)
					errP = ts.intern(&T{Op: "fld", Aux: k, Args: []*T{ts.intern(&T{Op: "param", Aux: prm.Name(), Typ: prm.Type()})}, Typ: ft})
				}
			}
		}
		if errP == nil {
			c.Unresolved(name, "no error parameter")
			return
		}
	} else {
		errP = ev.Param(fn, fn.Params[errIdx].Name())
		if errP == nil {
			errP = ts.intern(&T{Op: "param", Aux: fn.Params[errIdx].Name(), Typ: fn.Params[errIdx].Type()})
		}
	}
	var target *T
	ok := true
	seen := map[string]bool{}
	for _, p := range paths {
		bad := func(msg string) {
			ok = false
			c.Fail(name, pos, msg, pathTrace(ev, p))
		}
		evs := p.Events()
		// first: assignability test of the error itself
		var assign []*Event
		for _, e := range evs {
			if isCall(e, "AssignableTo") {
				assign = append(assign, e)
			}
		}
		if len(assign) > 0 && len(assign[0].Args) == 1 && target == nil {
			target = assign[0].Args[0]
			// it must come from outside the search loop: a parameter or a field of a parameter
			if !fromParamsOnly(target) {
				target = nil
			}
		}
		for _, a := range assign {
			if len(a.Args) != 1 || a.Args[0] != target {
				target = nil
			}
		}
		if len(assign) == 0 || target == nil || !(assign[0].Recv.Op == "app" && hasPrefix(assign[0].Recv.Aux, "TypeOf@") && assign[0].Recv.Args[0] == errP) {
			bad("the first step must test whether the error's own type is assignable to the target type")
			continue
		}
		first := p.State.Facts.Truth(ts, assign[0].Res[0])
		if first == triT {
			if p.Exit != ExitReturn || p.State.Facts.Truth(ts, p.Rets[0]) != triT {
				bad("an assignable error must yield true")
			}
			seen["direct"] = true
			continue
		}
		// classification of the error by its Unwrap shape (type switch ⇒ typeok atoms)
		single := findTypeOK(p, errP, "Unwrap() error")
		multi := findTypeOK(p, errP, "Unwrap() []error")
		sv, mv := triU, triU
		if single != nil {
			sv = p.State.Facts.Truth(ts, single)
		}
		if multi != nil {
			mv = p.State.Facts.Truth(ts, multi)
		}
		switch {
		case sv == triT:
			seen["single"] = true
			uw := eventsWhere(p, func(e *Event) bool { return isCall(e, "Unwrap") && e.Recv == errP })
			if len(uw) == 0 {
				bad("an error with Unwrap() error is not unwrapped")
				continue
			}
			inner := uw[0].Res[0]
			if p.State.Facts.Truth(ts, ts.Cmp("==", inner, ts.Nil(nil))) == triT {
				if p.Exit != ExitReturn || p.State.Facts.Truth(ts, p.Rets[0]) != triF {
					bad("a nil cause must end the search with false")
				}
				continue
			}
			// continues with the cause: next assignability test is on the unwrapped error
			if len(assign) < 2 {
				// … or the search recurses on the cause with the same target, and its verdict is the result
				if rec := eventsWhere(p, func(e *Event) bool { return isCall(e, "errorAs") }); len(rec) == 1 && p.Exit == ExitReturn {
					fa := fullArgs(rec[0])
					onCause, sameTarget := false, false
					for _, a := range fa {
						if a == inner {
							onCause = true
						}
						if a == target {
							sameTarget = true
						}
					}
					if onCause && sameTarget && p.State.Facts.Truth(ts, p.Rets[0]) == p.State.Facts.Truth(ts, rec[0].Res[0]) && p.State.Facts.Truth(ts, p.Rets[0]) != triU {
						continue
					}
				}
				if p.Exit != ExitCut {
					bad("the unwrapped cause is not examined")
				}
				continue
			}
			if !(assign[1].Recv.Op == "app" && hasPrefix(assign[1].Recv.Aux, "TypeOf@") && assign[1].Recv.Args[0] == inner) {
				bad("after unwrapping, the cause itself must be tested next")
			}
		case mv == triT:
			seen["multi"] = true
			rec := eventsWhere(p, func(e *Event) bool { return isCall(e, "errorAs") })
			uw := eventsWhere(p, func(e *Event) bool { return isCall(e, "Unwrap") && e.Recv == errP })
			if len(uw) == 0 {
				bad("an error with Unwrap() []error is not unwrapped")
				continue
			}
			list := uw[0].Res[0]
			// every recursive call is on an element of the list with the same target; a true result returns true
			for i, r := range rec {
				// same call as the one being evaluated except for the error argument
				fa := fullArgs(r)
				// the function's own parameters, in the shape its calls are seen in (upstream order; the fields of a
				// parameter bundle)
				var own []*T
				if names, known := refParamNames(c.P.CanonFuncName(fn)); known {
					for _, nm := range names {
						own = append(own, ev.Param(fn, nm))
					}
				} else {
					for _, prm := range fn.Params {
						own = append(own, ts.intern(&T{Op: "param", Aux: prm.Name(), Typ: prm.Type()}))
					}
				}
				sameRest := len(fa) == len(own)
				var a *T
				for j := range fa {
					if !sameRest {
						break
					}
					if own[j] == errP {
						a = fa[j]
						continue
					}
					if fa[j] != own[j] {
						sameRest = false
					}
				}
				if a == nil || !(a.Op == "init" && a.Args[0].Op == "iaddr" && a.Args[0].Args[0] == list) || !sameRest {
					bad("recursion must be on an element of the joined errors with the same target type")
				}
				if i < len(rec)-1 && p.State.Facts.Truth(ts, r.Res[0]) == triT {
					bad("search continues after a joined error matched")
				}
			}
			if p.Exit == ExitReturn {
				got := p.State.Facts.Truth(ts, p.Rets[0])
				if len(rec) > 0 && p.State.Facts.Truth(ts, rec[len(rec)-1].Res[0]) == triT {
					if got != triT {
						bad("a joined error matched but the result is not true")
					}
				} else if got != triF {
					bad("no joined error matched but the result is not false")
				} else {
					// all elements visited (nil ones skipped): number of non-skipped+skipped == len(list)
					lenL := ts.intern(&T{Op: "app", Aux: "len", Args: []*T{list}, Typ: types.Typ[types.Int]})
					visited := 0
					for i := 0; i < 8; i++ {
						if p.State.Facts.Truth(ts, ts.Cmp(">", lenL, ts.LinConst(int64(i), types.Typ[types.Int]))) == triT {
							visited = i + 1
						}
					}
					if p.State.Facts.Truth(ts, ts.Cmp("==", lenL, ts.LinConst(int64(visited), types.Typ[types.Int]))) != triT {
						bad("returns false before all joined errors were examined")
					}
				}
			}
		case sv == triF && mv == triF:
			seen["leaf"] = true
			if p.Exit != ExitReturn || p.State.Facts.Truth(ts, p.Rets[0]) != triF {
				bad("an error that is not assignable and cannot be unwrapped must yield false")
			}
		default:
			bad("the error is not classified by both Unwrap() error and Unwrap() []error")
		}
	}
	for _, k := range []string{"direct", "single", "multi", "leaf"} {
		if ok && !seen[k] {
			ok = false
			c.Fail(name, pos, fmt.Sprintf("errorAs has no %s case (own type / Unwrap() error / Unwrap() []error / not unwrappable)", k), "")
		}
	}
	if ok {
		c.Ok(name, pos, fmt.Sprintf("%d paths: own type first; Unwrap() error followed; every element of Unwrap() []error searched; otherwise false", len(paths)))
	}
	errorTypeInit(c)
	// ErrorTypesMatch: nil error ⇒ false; otherwise errorAs(err, type derived from target)
	if etm := c.P.Func("util.ErrorTypesMatch"); etm == nil {
		c.Unresolved("util.ErrorTypesMatch", "not found")
	} else {
		ev := NewEvaluator(c.P, EvalConfig{DecideReturns: true})
		ps := ev.Run(etm)
		good := ev.Err == nil && len(ps) > 0
		e0 := ev.Param(etm, etm.Params[0].Name())
		for _, p := range ps {
			if p.Exit != ExitReturn {
				continue
			}
			isnil := p.State.Facts.Truth(ev.TS, ev.TS.Cmp("==", e0, ev.TS.Nil(nil)))
			as := eventsWhere(p, func(e *Event) bool { return isCall(e, "errorAs") })
			if isnil == triT {
				if p.State.Facts.Truth(ev.TS, p.Rets[0]) != triF {
					good = false
					c.Fail(c.fn(etm), c.P.FuncPos(etm), "a nil error must not match any type", pathTrace(ev, p))
				}
			} else if len(as) != 1 || !hasArg(as[0], e0) || p.State.Facts.Truth(ev.TS, p.Rets[0]) != p.State.Facts.Truth(ev.TS, as[0].Res[0]) {
				good = false
				c.Fail(c.fn(etm), c.P.FuncPos(etm), "a non-nil error must be classified by errorAs(err, target type)", pathTrace(ev, p))
			} else if used := reflectTypeArg(ev, p, as[0]); used == nil {
				good = false
				c.Fail(c.fn(etm)+"#target-type", c.P.FuncPos(etm), "the type the error is matched against is not identifiable in the call of errorAs", pathTrace(ev, p))
			} else if msg := targetTypeDerivation(c, ev, p, ev.Param(etm, etm.Params[1].Name()), used); msg != "" {
				good = false
				c.Fail(c.fn(etm)+"#target-type", c.P.FuncPos(etm), msg, pathTrace(ev, p))
			}
		}
		if good {
			c.Ok(c.fn(etm), c.P.FuncPos(etm), "nil ⇒ false; else errorAs(err, targetType)")
		}
	}
}

// targetTypeDerivation checks, on one returning path of ErrorTypesMatch, that the type handed to errorAs is the
// documented one: T1 = the target's type with one pointer level removed (so that &MyErr{} and MyErr{} name the same
// error type and *SomeInterface names the interface); T1 itself when it is an interface or implements error, else
// *T1 when that implements error. The reflect calls are pure events of the path; their outcomes are path facts.
func targetTypeDerivation(c *Ctx, ev *Evaluator, p *Path, target, used *T) string {
	ts := ev.TS
	F := p.State.Facts
	reflectConst := func(name string) *T {
		pk := c.P.ByPath["reflect"]
		if pk == nil {
			for _, q := range c.P.Prog.AllPackages() {
				if q.Pkg.Path() == "reflect" {
					if k, ok := q.Pkg.Scope().Lookup(name).(*types.Const); ok {
						return ts.Const(k.Val(), k.Type())
					}
				}
			}
			return nil
		}
		if k, ok := pk.Types.Scope().Lookup(name).(*types.Const); ok {
			return ts.Const(k.Val(), k.Type())
		}
		return nil
	}
	ptrK, ifaceK := reflectConst("Ptr"), reflectConst("Interface")
	if ptrK == nil || ifaceK == nil {
		return "reflect.Ptr / reflect.Interface not resolvable"
	}
	call1 := func(method string, recv *T) *T {
		for _, e := range p.Events() {
			if isCall(e, method) && e.Recv == recv && len(e.Res) >= 1 {
				return e.Res[0]
			}
		}
		return nil
	}
	var t0 *T
	for _, e := range p.Events() {
		if isCall(e, "TypeOf") && len(e.Args) == 1 && e.Args[0] == target && len(e.Res) == 1 {
			t0 = e.Res[0]
		}
	}
	if t0 == nil {
		return "the target's type is not taken with reflect.TypeOf(target)"
	}
	kindIs := func(t, k *T) tri {
		kk := call1("Kind", t)
		if kk == nil {
			return triU
		}
		return F.Truth(ts, ts.Cmp("==", kk, k))
	}
	implements := func(t *T) tri {
		for _, e := range p.Events() {
			if isCall(e, "Implements") && e.Recv == t && len(e.Args) == 1 && isErrorTypeGlobal(e.Args[0]) {
				return F.Truth(ts, e.Res[0])
			}
		}
		return triU
	}
	var t1 *T
	switch kindIs(t0, ptrK) {
	case triT:
		t1 = call1("Elem", t0)
		if t1 == nil {
			return "a pointer target must be dereferenced once (&MyErr{} and MyErr{} name the same error type)"
		}
	case triF:
		t1 = t0
	default:
		return "the path does not establish whether the target is a pointer"
	}
	isIface, impl := kindIs(t1, ifaceK), implements(t1)
	switch {
	case isIface == triT || impl == triT:
		if used != t1 {
			return "an interface target, or a target type that implements error, must be matched as it is (after removing one pointer level)"
		}
	case isIface == triF && impl == triF:
		var t2 *T
		for _, e := range p.Events() {
			if isCall(e, "PointerTo") && len(e.Args) == 1 && e.Args[0] == t1 && len(e.Res) == 1 {
				t2 = e.Res[0]
			}
		}
		if t2 == nil || used != t2 || implements(t2) != triT {
			return "a target type that does not implement error may only be matched through its pointer type, and only when that implements error (else panic)"
		}
	default:
		return "the path does not establish whether the target type is an interface / implements error"
	}
	return ""
}

func hasArg(e *Event, x *T) bool {
	for _, a := range fullArgs(e) {
		if a == x {
			return true
		}
	}
	return false
}

// reflectTypeArg: the reflect.Type a call is given: an argument of that type, or the reflect.Type field of a struct
// (value or fresh allocation) passed as receiver or argument.
func reflectTypeArg(ev *Evaluator, p *Path, e *Event) *T {
	isRT := func(t types.Type) bool { return t != nil && types.TypeString(t, nil) == "reflect.Type" }
	for _, a := range fullArgs(e) {
		if isRT(a.Typ) || (a.Op == "app" && (hasPrefix(a.Aux, "TypeOf@") || hasPrefix(a.Aux, "Elem@") || hasPrefix(a.Aux, "PointerTo@"))) {
			return a
		}
	}
	for _, a := range fullArgs(e) {
		if a.Op == "struct" {
			for _, f := range a.Args {
				if f != nil && (isRT(f.Typ) || (f.Op == "app" && (hasPrefix(f.Aux, "TypeOf@") || hasPrefix(f.Aux, "Elem@") || hasPrefix(f.Aux, "PointerTo@")))) {
					return f
				}
			}
		}
		if n := namedOfPtr(a.Typ); n != nil {
			if s, ok := n.Underlying().(*types.Struct); ok {
				for i := 0; i < s.NumFields(); i++ {
					if isRT(s.Field(i).Type()) {
						if v := ev.LoadField(p.State, a, s.Field(i).Name()); v != nil {
							return v
						}
					}
				}
			}
		}
	}
	return nil
}

// fromParamsOnly: the term denotes something the function was given (a parameter, a field of one, a value loaded
// through one), not something it computed from calls made inside.
func fromParamsOnly(t *T) bool {
	if t == nil {
		return false
	}
	switch t.Op {
	case "param", "const", "nil", "lin":
		if t.Op == "lin" {
			for _, s := range t.Lin.Syms {
				if !fromParamsOnly(s) {
					return false
				}
			}
		}
		return true
	case "init", "faddr", "iaddr", "fld", "extract":
		for _, a := range t.Args {
			if !fromParamsOnly(a) {
				return false
			}
		}
		return len(t.Args) > 0
	}
	return false
}

// isErrorTypeGlobal: the package-level reflect.Type of package util (upstream: errorType, the type of `error`); that
// it is initialised with reflect.TypeOf((*error)(nil)).Elem() is checked by errorTypeInit.
func isErrorTypeGlobal(t *T) bool {
	if t == nil || t.Op != "init" || t.Args[0].Op != "global" || !strings.HasPrefix(t.Args[0].Aux, "util.") {
		return false
	}
	pt, ok := t.Args[0].Typ.(*types.Pointer)
	return ok && types.TypeString(pt.Elem(), nil) == "reflect.Type"
}

// errorTypeInit: the package-level reflect.Type that Implements is tested against must be the type `error` itself:
// reflect.TypeOf((*error)(nil)).Elem(), assigned once by the package initialiser.
func errorTypeInit(c *Ctx) {
	pkg := c.P.SSAPkg[c.P.pkgPath("internal/util")]
	if pkg == nil {
		c.Unresolved("util.errorType", "package not loaded")
		return
	}
	n, good := 0, 0
	for _, fn := range c.P.Funcs {
		if fn.Pkg != pkg {
			continue
		}
		for _, b := range fn.Blocks {
			for _, in := range b.Instrs {
				st, ok := in.(*ssa.Store)
				if !ok {
					continue
				}
				g, isG := st.Addr.(*ssa.Global)
				if !isG || types.TypeString(g.Type().(*types.Pointer).Elem(), nil) != "reflect.Type" {
					continue
				}
				n++
				// Elem() invoked on TypeOf(<nil *error>)
				el, ok1 := st.Val.(*ssa.Call)
				if !ok1 || !el.Call.IsInvoke() || el.Call.Method.Name() != "Elem" {
					continue
				}
				tof, ok2 := el.Call.Value.(*ssa.Call)
				if !ok2 {
					continue
				}
				if cal := calleeOf(&tof.Call); cal == nil || qualName(cal) != "reflect.TypeOf" || len(tof.Call.Args) != 1 {
					continue
				}
				mi, ok3 := tof.Call.Args[0].(*ssa.MakeInterface)
				if !ok3 {
					continue
				}
				if k, isK := mi.X.(*ssa.Const); isK && k.Value == nil && types.TypeString(k.Type(), nil) == "*error" && strings.HasPrefix(fn.Name(), "init") {
					good++
				}
			}
		}
	}
	if n == 1 && good == 1 {
		c.Ok("util.errorType", "", "= reflect.TypeOf((*error)(nil)).Elem(), assigned by the initialiser only")
	} else {
		c.Fail("util.errorType", "", fmt.Sprintf("the reflect.Type that error targets are tested against must be assigned once, by the initialiser, as reflect.TypeOf((*error)(nil)).Elem() (%d assignments, %d of that form)", n, good), "")
	}
}

// derefInit: for a value loaded from memory, the address it was loaded from; other terms unchanged.
func derefInit(t *T) *T {
	if t != nil && t.Op == "init" && len(t.Args) == 1 {
		return t.Args[0]
	}
	return t
}

func findTypeOK(p *Path, x *T, iface string) *T {
	var found *T
	for _, a := range p.State.Facts.Log {
		a.Cond.Walk(func(t *T) {
			if t.Op == "app" && strings.HasPrefix(t.Aux, "typeok:") && len(t.Args) == 1 && t.Args[0] == x {
				s := strings.TrimPrefix(t.Aux, "typeok:")
				s = strings.ReplaceAll(s, "interface{", "")
				s = strings.ReplaceAll(s, "}", "")
				if strings.TrimSpace(s) == iface {
					found = t
				}
			}
		})
	}
	return found
}

// toExecutorWires: the package's ToExecutor hands the executor's BaseExecutor the policy's own BaseFailurePolicy on
// every returning path, so BaseExecutor.IsFailure and the policy's BaseFailurePolicy.IsFailure are one classification.
func toExecutorWires(P *Program, pkg string) (te *ssa.Function, ok bool, trace string) {
	for _, f := range P.Funcs {
		if f.Name() == "ToExecutor" && f.Pkg != nil && f.Pkg.Pkg.Name() == pkg && f.Signature.Recv() != nil {
			te = f
		}
	}
	if te == nil {
		return nil, false, ""
	}
	ev := NewEvaluator(P, EvalConfig{})
	ok = true
	recv := ev.Param(te, te.Params[0].Name())
	n := 0
	for _, p := range ev.Run(te) {
		if p.Exit != ExitReturn {
			continue
		}
		n++
		be := ev.LoadField(p.State, p.Rets[0], "BaseExecutor")
		bfp := ev.LoadField(p.State, be, "BaseFailurePolicy")
		if bfp == nil || loadedField(bfp) != "BaseFailurePolicy" || !bfp.Contains(recv) {
			ok = false
			trace = pathTrace(ev, p)
		}
	}
	if ev.Err != nil || n == 0 {
		ok = false
	}
	return te, ok, trace
}

// ---- C12.shared ----------------------------------------------------------------------------------------

// retry, breaker and fallback classify through one and the same BaseFailurePolicy that the builder filled.
func c12Shared(c *Ctx) {
	c.Rule("shared")
	tab := c.ExecTable()
	base := c.P.Func("policy.(*BaseExecutor).IsFailure")
	for _, pkg := range []string{"retrypolicy", "circuitbreaker", "fallback"} {
		info := tab[pkg]
		if info == nil {
			c.Unresolved(pkg+".executor", "not resolved")
			continue
		}
		if info.Slots["IsFailure"] != base || base == nil {
			c.Fail(pkg+".executor.IsFailure", "", "the IsFailure slot must be BaseExecutor.IsFailure (shared classification)", "")
			continue
		}
		// ToExecutor wires BaseExecutor.BaseFailurePolicy to the policy's own BaseFailurePolicy
		te, ok, trace := toExecutorWires(c.P, pkg)
		if te == nil {
			c.Unresolved(pkg+".ToExecutor", "not found")
			continue
		}
		if !ok {
			c.Fail(c.fn(te), c.P.FuncPos(te), "the executor's BaseFailurePolicy is not the policy's own configured BaseFailurePolicy", trace)
		}
		if ok {
			c.Ok(pkg+".executor.IsFailure", c.P.FuncPos(te), "slot is BaseExecutor.IsFailure over the policy's own BaseFailurePolicy")
		}
	}
	// the breaker's standalone RecordResult/RecordError classify with the same policy object
	if rr := c.P.Func("circuitbreaker.(*circuitBreaker).recordResult"); rr == nil {
		c.Unresolved("circuitbreaker.(*circuitBreaker).recordResult", "not found")
	} else {
		ev := NewEvaluator(c.P, EvalConfig{})
		ok := true
		seenT, seenF := false, false
		for _, p := range ev.Run(rr) {
			isf := eventsWhere(p, func(e *Event) bool { return isCall(e, "IsFailure") })
			if len(isf) != 1 || loadedField(isf[0].Recv) != "BaseFailurePolicy" || isf[0].Args[0] != ev.Param(rr, "result") || isf[0].Args[1] != ev.Param(rr, "err") {
				ok = false
				c.Fail(c.fn(rr), c.P.FuncPos(rr), "recordResult must classify (result, err) with the breaker's own BaseFailurePolicy.IsFailure", pathTrace(ev, p))
				continue
			}
			v := p.State.Facts.Truth(ev.TS, isf[0].Res[0])
			nf := len(eventsWhere(p, func(e *Event) bool { return isCall(e, "recordFailure") }))
			ns := len(eventsWhere(p, func(e *Event) bool { return isCall(e, "recordSuccess") }))
			if (v == triT && !(nf == 1 && ns == 0)) || (v == triF && !(ns == 1 && nf == 0)) || v == triU {
				ok = false
				c.Fail(c.fn(rr), c.P.FuncPos(rr), "recordResult must record exactly one failure when IsFailure, else exactly one success", pathTrace(ev, p))
			}
			seenT = seenT || v == triT
			seenF = seenF || v == triF
		}
		if ok && seenT && seenF {
			c.Ok(c.fn(rr), c.P.FuncPos(rr), "IsFailure ⇒ recordFailure once; else recordSuccess once")
		} else if ok {
			c.Fail(c.fn(rr), c.P.FuncPos(rr), "recordResult lacks a branch", "")
		}
	}
}

// ---- C12.builders --------------------------------------------------------------------------------------

// Every builder method named Handle*/AbortOn*/AbortIf/CancelOn*/CancelIf forwards its arguments unchanged
// to the corresponding Base*Policy registrar, exactly once, and returns the builder.
func c12Builders(c *Ctx) {
	c.Rule("builders")
	want := map[string]string{
		"HandleErrors": "HandleErrors", "HandleErrorTypes": "HandleErrorTypes", "HandleResult": "HandleResult", "HandleIf": "HandleIf",
		"AbortOnErrors": "AbortOnErrors", "AbortOnErrorTypes": "AbortOnErrorTypes", "AbortOnResult": "AbortOnResult", "AbortIf": "AbortIf",
		"CancelOnErrors": "AbortOnErrors", "CancelOnErrorTypes": "AbortOnErrorTypes", "CancelOnResult": "AbortOnResult", "CancelIf": "AbortIf",
	}
	n := 0
	for _, fn := range c.P.Funcs {
		target, ok := want[fn.Name()]
		if !ok || fn.Signature.Recv() == nil || !isBuilderMethod(fn) || fn.Signature.Results().Len() != 1 {
			continue
		}
		rn := namedOfPtr(fn.Signature.Recv().Type())
		if rn == nil || typeCanonName(rn.Obj()) != "config" {
			continue
		}
		n++
		ev := NewEvaluator(c.P, EvalConfig{})
		good := true
		recv := ev.Param(fn, fn.Params[0].Name())
		arg := ev.Param(fn, fn.Params[1].Name())
		for _, p := range ev.Run(fn) {
			calls := eventsWhere(p, func(e *Event) bool { return e.Kind == EvCall && !e.Pure })
			// an empty argument list registers nothing with the abort / cancel registrars (their loop body never runs;
			// the Handle* registrars are different: they also note that errors are checked): returning early is the same
			if len(calls) == 0 && p.Exit == ExitReturn && p.Rets[0] == recv && strings.HasPrefix(target, "AbortOn") && target != "AbortOnResult" {
				ln := ev.TS.intern(&T{Op: "app", Aux: "len", Args: []*T{arg}, Typ: types.Typ[types.Int]})
				if p.State.Facts.Truth(ev.TS, ev.TS.Cmp("==", ln, ev.TS.LinConst(0, types.Typ[types.Int]))) == triT {
					continue
				}
			}
			if p.Exit != ExitReturn || len(calls) != 1 || calls[0].Method != target || len(calls[0].Args) != 1 || calls[0].Args[0] != arg || !strings.HasPrefix(loadedField(calls[0].Recv), "Base") || !calls[0].Recv.Contains(recv) || p.Rets[0] != recv {
				good = false
				c.Fail(c.fn(fn), c.P.FuncPos(fn), fmt.Sprintf("builder method must forward its arguments unchanged to the builder's own %s exactly once and return the builder", target), pathTrace(ev, p))
			}
		}
		if good {
			c.Ok(c.fn(fn)+"@"+fn.Pkg.Pkg.Name(), c.P.FuncPos(fn), "forwards to "+target)
		}
	}
	c.Floor("condition builder methods", n, 20)
	// hedge Build installs "cancel on any result" iff no cancel condition is configured
	if hb := c.P.Func("hedgepolicy.(*config).Build"); hb == nil {
		c.Unresolved("hedgepolicy.(*config).Build", "not found")
	} else {
		ev := NewEvaluator(c.P, EvalConfig{InlineClosures: false})
		good := true
		seen := map[tri]bool{}
		for _, p := range ev.Run(hb) {
			conf := eventsWhere(p, func(e *Event) bool { return isCall(e, "IsConfigured") })
			ab := eventsWhere(p, func(e *Event) bool { return isCall(e, "AbortIf") })
			if len(conf) != 1 {
				good = false
				c.Fail(c.fn(hb), c.P.FuncPos(hb), "Build must consult whether cancel conditions are configured", pathTrace(ev, p))
				continue
			}
			v := p.State.Facts.Truth(ev.TS, conf[0].Res[0])
			seen[v] = true
			if v == triT && len(ab) != 0 {
				good = false
				c.Fail(c.fn(hb), c.P.FuncPos(hb), "a default cancel condition is installed although conditions are configured", pathTrace(ev, p))
			}
			if v == triF {
				if len(ab) != 1 || ab[0].Args[0].Fn == nil {
					good = false
					c.Fail(c.fn(hb), c.P.FuncPos(hb), "with no cancel condition configured Build must install the cancel-on-any-result predicate", pathTrace(ev, p))
					continue
				}
				sub := NewEvaluator(c.P, EvalConfig{DecideReturns: true})
				sub.TS = ev.TS
				for _, q := range sub.CallTerm(p.State, ab[0].Args[0], nil) {
					if q.Exit != ExitReturn || !isTrue(q.Rets[0]) {
						good = false
						c.Fail(c.fn(hb), c.P.FuncPos(hb), "the default cancel predicate must return true for every result", pathTrace(sub, q))
					}
				}
			}
		}
		if good && seen[triT] && seen[triF] {
			c.Ok(c.fn(hb), c.P.FuncPos(hb), "installs an always-true cancel predicate iff none is configured")
		}
	}
}
