package main

// Effectively constant package-level variables. A restructuring may replace a switch or an if-chain by a lookup table:
// a package-level slice or array literal (of values or of function literals) that the package initialiser builds and
// nothing writes afterwards. What such a table holds is decided by the initialiser, so the evaluator evaluates the
// package's init function once (in a state of its own, with its own numbering of fresh terms) and reads the cells it
// left when a load starts from such a variable. A variable that is stored to outside init, whose elements are stored
// to, or that is handed to code that could do so, is not constant and stays symbolic.

import (
	"go/token"
	"go/types"
	"strings"

	"golang.org/x/tools/go/ssa"
)

func (p *Program) constGlobal(g *ssa.Global) bool {
	if p.constGlobals == nil {
		p.constGlobals = map[*ssa.Global]bool{}
		mutable := map[*ssa.Global]bool{}
		seen := map[*ssa.Global]bool{}
		var readOnly func(v ssa.Value, depth int) bool
		readOnly = func(v ssa.Value, depth int) bool {
			refs := v.Referrers()
			if refs == nil || depth > 3 {
				return depth <= 3
			}
			for _, r := range *refs {
				switch x := r.(type) {
				case *ssa.DebugRef, *ssa.Range, *ssa.Lookup, *ssa.Index, *ssa.BinOp:
				case *ssa.UnOp, *ssa.Extract, *ssa.Next:
				case *ssa.Phi:
					if !readOnly(x, depth+1) {
						return false
					}
				case *ssa.Slice:
					if !readOnly(x, depth+1) {
						return false
					}
				case *ssa.IndexAddr:
					if x.X != v {
						continue
					}
					ir := x.Referrers()
					if ir == nil {
						continue
					}
					for _, u := range *ir {
						if ld, isLoad := u.(*ssa.UnOp); !(isLoad && ld.Op == token.MUL) {
							if _, isDbg := u.(*ssa.DebugRef); !isDbg {
								return false
							}
						}
					}
				case ssa.CallInstruction:
					cc := x.Common()
					if bi, isB := cc.Value.(*ssa.Builtin); isB && (bi.Name() == "len" || bi.Name() == "cap") {
						continue
					}
					cal := calleeOf(cc)
					if cal == nil || !p.InScope[cal] {
						return false
					}
					for k, a := range cc.Args {
						if a == v && k < len(cal.Params) && !readOnly(cal.Params[k], depth+1) {
							return false
						}
					}
				default:
					return false
				}
			}
			return true
		}
		for _, fn := range p.Funcs {
			isInit := fn.Name() == "init" && fn.Parent() == nil
			for _, b := range fn.Blocks {
				for _, in := range b.Instrs {
					for _, op := range in.Operands(nil) {
						g, isG := (*op).(*ssa.Global)
						if !isG || g.Pkg == nil {
							continue
						}
						seen[g] = true
						switch x := in.(type) {
						case *ssa.Store:
							if x.Addr == g && !isInit {
								mutable[g] = true
							}
							if x.Val == g {
								mutable[g] = true // address taken
							}
						case *ssa.UnOp:
							if x.Op == token.MUL && x.X == g {
								if !isInit && !readOnly(x, 0) {
									mutable[g] = true
								}
							} else {
								mutable[g] = true
							}
						case *ssa.IndexAddr, *ssa.FieldAddr:
							// &global[i] / &global.f: fine when only loaded from
							if v, isV := in.(ssa.Value); isV && !isInit {
								if refs := v.Referrers(); refs != nil {
									for _, u := range *refs {
										if ld, isLoad := u.(*ssa.UnOp); !(isLoad && ld.Op == token.MUL) {
											if _, isDbg := u.(*ssa.DebugRef); !isDbg {
												mutable[g] = true
											}
										}
									}
								}
							}
						default:
							if !isInit {
								mutable[g] = true
							}
						}
					}
				}
			}
		}
		for g := range seen {
			if !mutable[g] && p.InScope[g.Pkg.Func("init")] || (!mutable[g] && strings.HasPrefix(g.Pkg.Pkg.Path(), modPath)) {
				p.constGlobals[g] = true
			}
		}
	}
	return p.constGlobals[g]
}

// initCells: the abstract heap the initialiser of pkg leaves (nil when it cannot be evaluated to a single path).
func (ev *Evaluator) initCellsOf(pkg *ssa.Package) map[*T]*T {
	if ev.initCells == nil {
		ev.initCells = map[*ssa.Package]map[*T]*T{}
	}
	if cells, done := ev.initCells[pkg]; done {
		return cells
	}
	ev.initCells[pkg] = nil // guards against re-entry while evaluating
	initFn := pkg.Func("init")
	if initFn == nil || len(initFn.Blocks) == 0 {
		return nil
	}
	saveErr, saveRoot, saveCfg := ev.Err, ev.rootPkg, ev.Cfg
	ev.Cfg.Inline = nil
	ev.Cfg.NoSamePkgInline = true
	ev.Cfg.MaxPaths = 64
	st := ev.NewState()
	st.nFresh = 1000000 * (1 + len(ev.initCells))
	ps := ev.RunFrom(st, initFn, nil, nil)
	failed := ev.Err != nil
	ev.Err, ev.rootPkg, ev.Cfg = saveErr, saveRoot, saveCfg
	if failed {
		return nil
	}
	// the initialiser starts with "already initialised? return": the path that did the work is the one that assumed
	// the guard false; any other shape (a data-dependent branch in init) is not followed
	var work *Path
	for _, q := range ps {
		if q.Exit != ExitReturn {
			return nil
		}
		if len(q.State.cells) > 1 {
			if work != nil {
				return nil
			}
			work = q
		}
	}
	if work == nil {
		return nil
	}
	ev.initCells[pkg] = work.State.cells
	// what the initialiser put into the maps it made (a package-level lookup table)
	if ev.initMaps == nil {
		ev.initMaps = map[*T][][2]*T{}
	}
	for _, e := range work.State.Events {
		if e.Kind == EvMapUpdate && e.Addr != nil && e.Addr.Op == "makemap" && len(e.Args) == 1 {
			ev.initMaps[e.Addr] = append(ev.initMaps[e.Addr], [2]*T{e.Args[0], e.Val})
		}
	}
	return ev.initCells[pkg]
}

// constGlobalLoad: what loading addr yields when it is (part of) an effectively constant package-level variable or of
// an object its initialiser built; nil = nothing known.
func (ev *Evaluator) constGlobalLoad(addr *T) *T {
	root := rootOf(addr)
	switch root.Op {
	case "global":
		i := strings.Index(root.Aux, ".")
		if i < 0 {
			return nil
		}
		var pkg *ssa.Package
		for _, sp := range ev.P.SSAPkg {
			if sp != nil && sp.Pkg.Name() == root.Aux[:i] && strings.HasPrefix(sp.Pkg.Path(), modPath) {
				if m, isG := sp.Members[root.Aux[i+1:]].(*ssa.Global); isG && ev.P.constGlobal(m) {
					pkg = sp
				}
			}
		}
		if pkg == nil {
			return nil
		}
		if cells := ev.initCellsOf(pkg); cells != nil {
			return cells[addr]
		}
	case "alloc", "makeslice":
		// an object built by some initialiser already evaluated (reached through a constant variable's value)
		for _, cells := range ev.initCells {
			if v, ok := cells[addr]; ok {
				return v
			}
		}
	}
	return nil
}

var _ = types.Typ

// constMapLookup: m[k] where m is a map a package initialiser filled with constant keys and nothing modifies
// afterwards. A constant key selects its entry; a symbolic key splits the path, one way per entry (k = that key) and
// one for "none of them", so a table lookup and the chain of comparisons it replaced have the same summaries.
// ok=false: not such a map (or too large), the lookup stays symbolic.
func (ev *Evaluator) constMapLookup(st *State, fr *Frame, x *ssa.Lookup, m, k *T) (*T, []*State, bool) {
	entries, known := ev.initMaps[m]
	if !known || len(entries) == 0 || len(entries) > 8 {
		return nil, nil, false
	}
	mt, isMap := x.X.Type().Underlying().(*types.Map)
	if !isMap {
		return nil, nil, false
	}
	ts := ev.TS
	for _, e := range entries {
		if e[0].Op != "const" && e[0].Op != "lin" {
			return nil, nil, false
		}
	}
	result := func(val *T, present bool) *T {
		if x.CommaOk {
			return ts.intern(&T{Op: "tuple", Args: []*T{val, ts.Bool(present)}})
		}
		return val
	}
	zero := ts.zeroOf(mt.Elem())
	if isNillable(mt.Elem()) {
		zero = ts.Nil(mt.Elem())
	}
	// later updates of the same key win
	last := map[*T]*T{}
	var keys []*T
	for _, e := range entries {
		if _, dup := last[e[0]]; !dup {
			keys = append(keys, e[0])
		}
		last[e[0]] = e[1]
	}
	var forks []*State
	for _, key := range keys {
		c := ts.Cmp("==", k, key)
		switch st.Facts.Truth(ts, c) {
		case triT:
			return result(last[key], true), forks, true
		case triF:
			continue
		}
		if probe := st.clone(); !probe.Facts.Assume(ts, c, false) {
			return result(last[key], true), forks, true // k cannot differ from this key
		}
		o := st.clone()
		if o.Facts.Assume(ts, c, true) {
			of := o.top()
			of.env[x] = result(last[key], true)
			of.pc++
			forks = append(forks, o)
		}
		st.Facts.Assume(ts, c, false)
	}
	return result(zero, false), forks, true
}
