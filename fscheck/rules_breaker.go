package main

// Circuit breaker rules: C03 (state machine skeleton, threshold decision tables, transitions, stats ring
// invariants, clock) and C04 (gate, pairing, half-open permits).

import (
	"fmt"
	"go/constant"
	"go/types"
	"strings"

	"golang.org/x/tools/go/ssa"
)

func rulesC04(c *Ctx) {
	c04Gate(c)
	c04Pairing(c)
	c04RecordInternals(c)
	c04HalfOpenPermits(c)
	c03OpenTable(c)
	// "while open and its delay has not elapsed": which delay the open state gets, and when the breaker opens / closes
	c03Transition(c)
	c03Constructors(c)
	c03Edges(c)
	c03ClosedTable(c)
	c03HalfOpenTable(c)
	c03StateOwner(c)
	buildersStore(c, "circuitbreaker")
	delegatingBuilders(c, "circuitbreaker")
	ruleFailureResult(c)
	c.Rule("fresh-executor")
	c01Self(c)
	c.Rule("base-apply")
	tab := c.ExecTable()
	if info := tab["circuitbreaker"]; info != nil && info.Slots["Apply"] != nil && c.fn(info.Slots["Apply"]) == "policy.(*BaseExecutor).Apply" {
		checkBaseApplyFor(c, info)
	}
	c01PostExecute(c)
	lockDiscipline(c, "circuitbreaker")
	// "every admitted trial gives its permit back … however the execution ends": the overriding OnSuccess / OnFailure run
	// the user's listener outside the breaker's mutex (a listener that reads the breaker's state would otherwise
	// deadlock, and the trial's permit is never returned)
	c16Overrides(c)
	// "no more executions admitted in that state run concurrently than the trial capacity": a trial's permit is held for
	// as long as its function runs because the innermost wrapper returns only after the user function returned
	c.Rule("user-function")
	c01Leaf(c)
}

func rulesC03(c *Ctx) {
	c03StateOwner(c)
	c03Edges(c)
	c03Transition(c)
	c03ClosedTable(c)
	c03OpenTable(c)
	c03HalfOpenTable(c)
	c03Constructors(c)
	c03Stats(c)
	c03Metrics(c)
	c03MetricsViews(c)
	// "stays open for exactly the … computed delay": the delay function is given the failing result (executor side)
	c04Pairing(c)
	c03Clock(c)
	c04RecordInternals(c)
	c04HalfOpenPermits(c)
	// "admission decisions": an execution is admitted by asking the breaker for a permit, exactly once
	c04Gate(c)
	c.Rule("shared")
	c12Shared(c)
	// "recorded successes and failures": what the breaker records is decided by the handle conditions as registered
	// (RecordError classifies (zero, err): a result condition that ignored the error would match every recorded error)
	c12Registrars(c)
	// … and RecordResult / RecordError put an outcome through the shared classification table before they count it
	c12IsFailure(c)
	c12AnyOf(c)
	c12Unwrap(c)
	buildersStore(c, "circuitbreaker")
	delegatingBuilders(c, "circuitbreaker")
	witnessRules(c, "C03")
}

func stateConst(c *Ctx, ts *Terms, name string) *T {
	pk := c.P.ByPath[c.P.pkgPath("circuitbreaker")]
	if pk == nil {
		return nil
	}
	o, ok := pk.Types.Scope().Lookup(name).(*types.Const)
	if !ok {
		return nil
	}
	v, ok2 := constant.Int64Val(constant.ToInt(o.Val()))
	if !ok2 {
		return nil
	}
	return ts.LinConst(v, o.Type())
}

// ---- C04.gate ------------------------------------------------------------------------------------------

func c04Gate(c *Ctx) {
	c.Rule("gate")
	tab := c.ExecTable()
	info := tab["circuitbreaker"]
	if info == nil || info.Slots["PreExecute"] == nil {
		c.Unresolved("circuitbreaker.executor.PreExecute", "not resolved")
		return
	}
	fn := info.Slots["PreExecute"]
	name, pos := c.fn(fn), c.P.FuncPos(fn)
	ee := c.NewExecEval(info, EvalConfig{Inline: inlinePkgs(c.P, "internal")})
	ev, ts := ee.Ev, ee.Ev.TS
	paths := ee.RunSlot("PreExecute", ee.Sym("exec", fn.Params[1].Type()))
	if ev.Err != nil || len(paths) == 0 {
		c.Undecided(name, pos, fmt.Sprintf("evaluation failed: %v", ev.Err), "")
		return
	}
	ok := true
	seen := map[tri]bool{}
	for _, p := range paths {
		acq := eventsWhere(p, func(e *Event) bool { return isCall(e, "TryAcquirePermit") })
		if p.Exit != ExitReturn || len(acq) != 1 || loadedField(acq[0].Recv) != "circuitBreaker" {
			ok = false
			c.Fail(name, pos, "PreExecute must ask the breaker for a permit exactly once (TryAcquirePermit)", pathTrace(ev, p))
			continue
		}
		got := p.State.Facts.Truth(ts, acq[0].Res[0])
		seen[got] = true
		switch got {
		case triT:
			if !p.Rets[0].IsNilConst() {
				ok = false
				c.Fail(name, pos, "a granted permit must admit the execution (nil result)", pathTrace(ev, p))
			}
		case triF:
			if !isFailureAlloc(ev, p, p.Rets[0], func(e *T) bool { return isGlobal(e, "ErrOpen") }) {
				ok = false
				c.Fail(name, pos, "a refused permit must fail the execution with ErrOpen (non-nil result, so that the wrapped function is not invoked)", pathTrace(ev, p))
			}
		default:
			ok = false
			c.Undecided(name, pos, "path does not depend on TryAcquirePermit's answer", pathTrace(ev, p))
		}
	}
	if ok && seen[triT] && seen[triF] {
		c.Ok(name, pos, "TryAcquirePermit()=false ⇒ FailureResult(ErrOpen); true ⇒ nil")
	} else if ok {
		c.Fail(name, pos, "PreExecute lacks the admitted or the refused case", "")
	}
}

// ---- C04.pairing ---------------------------------------------------------------------------------------

func c04Pairing(c *Ctx) {
	c.Rule("pairing")
	tab := c.ExecTable()
	info := tab["circuitbreaker"]
	if info == nil || info.Slots["Apply"] == nil {
		c.Unresolved("circuitbreaker.executor.Apply", "not resolved")
		return
	}
	opaque := map[string]bool{"TryAcquirePermit": true, "RecordSuccess": true, "RecordFailure": true, "recordFailure": true, "recordSuccess": true, "recordResult": true, "IsFailure": true}
	ee := c.NewExecEval(info, EvalConfig{Inline: func(f *ssa.Function, d int) bool {
		if opaque[canonName(f)] || !c.P.InScope[f] || f.Pkg == nil {
			return false
		}
		n := f.Pkg.Pkg.Name()
		return n == "circuitbreaker" || n == "policy" || n == "internal" || n == "common"
	}})
	paths, innerFn, exec := ee.RunApply()
	ev, ts := ee.Ev, ee.Ev.TS
	name, pos := "circuitbreaker.executor.Apply (slots inlined)", c.P.FuncPos(info.Slots["Apply"])
	if ev.Err != nil || len(paths) == 0 {
		c.Undecided(name, pos, fmt.Sprintf("evaluation failed: %v", ev.Err), "")
		return
	}
	c.Count("paths", len(paths))
	ok := true
	seen := map[string]bool{}
	isRec := func(e *Event) bool {
		return e.Kind == EvCall && (e.Method == "RecordSuccess" || e.Method == "RecordFailure" || e.Method == "recordFailure" || e.Method == "recordSuccess" || e.Method == "recordResult")
	}
	for _, p := range paths {
		bad := func(msg string) {
			ok = false
			c.Fail(name, pos, msg, pathTrace(ev, p))
		}
		acq := eventsWhere(p, func(e *Event) bool { return isCall(e, "TryAcquirePermit") })
		inner := eventsWhere(p, func(e *Event) bool { return isDynCall(e, innerFn) })
		recs := eventsWhere(p, isRec)
		if len(acq) != 1 {
			bad("the wrapper must ask for a permit exactly once")
			continue
		}
		switch p.State.Facts.Truth(ts, acq[0].Res[0]) {
		case triF:
			seen["refused"] = true
			if len(inner) != 0 || len(recs) != 0 {
				bad("an execution refused by the breaker must neither invoke the wrapped function nor record a result")
			}
		case triT:
			seen["admitted"] = true
			if len(inner) != 1 || inner[0].Idx < acq[0].Idx || inner[0].Args[0] != exec {
				bad("an admitted execution must invoke innerFn(exec) exactly once")
				continue
			}
			if p.Exit != ExitReturn {
				continue
			}
			if len(recs) != 1 || recs[0].Idx < inner[0].Idx {
				bad(fmt.Sprintf("an admitted execution must record exactly one result after the wrapped function returned, however it ended (found %d)", len(recs)))
				continue
			}
			// consistent with the classification of the inner result
			var cls *Event
			for _, e := range p.Events() {
				if isCall(e, "IsFailure") && e.Idx > inner[0].Idx {
					cls = e
				}
			}
			if cls == nil {
				bad("the recorded verdict is not derived from IsFailure of the inner result")
				continue
			}
			isF := p.State.Facts.Truth(ts, cls.Res[0])
			m := recs[0].Method
			if (isF == triT && !(m == "recordFailure" || m == "RecordFailure")) || (isF == triF && !(m == "recordSuccess" || m == "RecordSuccess")) || isF == triU {
				bad("a failure must be recorded as failure and a success as success")
				continue
			}
			// the failure is recorded with the execution *carrying the failing result*: the delay function that decides
			// how long the breaker stays open is computed from it
			if m == "recordFailure" && isF == triT {
				// the execution handed on: the helper's argument, or — when the helper's two steps are written out —
				// the argument of the state's threshold check that follows the record
				arg := argN(recs[0], len(fullArgs(recs[0]))-1)
				if recs[0].Fn == nil || recvCanon(recs[0].Fn) != "circuitBreaker" {
					arg = nil
					for _, e := range p.Events() {
						if isCall(e, "checkThresholdAndReleasePermit") && e.Idx > recs[0].Idx && len(e.Args) == 1 {
							arg = e.Args[0]
						}
					}
				}
				if arg == nil || !copyOf(p, arg, exec, nil) {
					bad("recordFailure must receive exec.CopyWithResult(<the failing result>): the open delay is computed by the delay function from that execution, which would otherwise see the previous attempt's (or no) result")
					continue
				}
				for _, e := range p.Events() {
					if isCall(e, "CopyWithResult") && len(e.Res) == 1 && e.Res[0] == arg {
						// the result handed to OnFailure is the inner result marked as failure (WithFailure of it)
						sameOutcome := func(r, base *T) bool {
							a, b := resultField(ev, p.State, r, "Result"), resultField(ev, p.State, base, "Result")
							x, y := resultField(ev, p.State, r, "Error"), resultField(ev, p.State, base, "Error")
							return a != nil && a == b && x != nil && x == y
						}
						if !(e.Args[0] == inner[0].Res[0] || resultDerivedFrom(p, e.Args[0], inner[0].Res[0]) || sameOutcome(e.Args[0], inner[0].Res[0])) {
							bad("the execution handed to recordFailure must carry the failing result of this attempt")
						}
					}
				}
			}
			// an internal (lock-free) record function must run under the breaker's mutex
			if m == "recordFailure" || m == "recordSuccess" {
				locked := false
				for _, e := range p.Events() {
					if isCall(e, "Lock") && e.Idx < recs[0].Idx && e.Recv != nil && e.Recv.Op == "faddr" && FieldName(e.Recv.Aux) == "mtx" {
						locked = true
					}
					if isCall(e, "Unlock") && e.Idx < recs[0].Idx && e.Recv != nil && e.Recv.Op == "faddr" && FieldName(e.Recv.Aux) == "mtx" {
						locked = false
					}
				}
				if !locked {
					bad("the internal record function is called without holding the breaker's mutex")
				}
			}
		default:
			bad("path does not depend on the permit")
		}
	}
	if ok && !(seen["refused"] && seen["admitted"]) {
		ok = false
		c.Fail(name, pos, "wrapper lacks the admitted or the refused case", "")
	}
	if ok {
		c.Ok(name, pos, fmt.Sprintf("%d paths: refused ⇒ no invocation, nothing recorded; admitted ⇒ innerFn once, then exactly one record (failure ⇔ IsFailure) under the mutex", len(paths)))
	}
}

// ---- C04.record-internals ------------------------------------------------------------------------------

func c04RecordInternals(c *Ctx) {
	c.Rule("record")
	for _, spec := range []struct{ fn, rec string }{{"circuitbreaker.(*circuitBreaker).recordSuccess", "recordSuccess"}, {"circuitbreaker.(*circuitBreaker).recordFailure", "recordFailure"}} {
		fn := c.P.Func(spec.fn)
		if fn == nil {
			// no such helper: its two steps are written where it used to be called; the API rules below and the
			// executor pairing rule evaluate those callers with the breaker's helpers in place
			c.Ok(spec.fn, "", "no separate helper (steps checked in its callers)")
			continue
		}
		ev := NewEvaluator(c.P, EvalConfig{})
		paths := ev.Run(fn)
		ok := ev.Err == nil && len(paths) > 0
		st := ev.LoadField(ev.NewState(), ev.Param(fn, fn.Params[0].Name()), "state")
		for _, p := range paths {
			evs := impure(p)
			good := p.Exit == ExitReturn && len(evs) == 2 && isCall(evs[0], spec.rec) && evs[0].Recv == st && isCall(evs[1], "checkThresholdAndReleasePermit") && evs[1].Recv == st
			if good && spec.rec == "recordFailure" && evs[1].Args[0] != ev.Param(fn, fn.Params[1].Name()) {
				good = false
			}
			if !good {
				ok = false
				c.Fail(spec.fn, c.P.FuncPos(fn), "must record on the current state and then check thresholds / release the permit on that same state, exactly once each, on every path", pathTrace(ev, p))
			}
		}
		if ok {
			c.Ok(spec.fn, c.P.FuncPos(fn), "state."+spec.rec+"() then state.checkThresholdAndReleasePermit(), once each")
		}
	}
	// the standalone API, evaluated with the breaker's own unexported helpers in place (whether RecordSuccess calls
	// a recordSuccess helper or does its two steps itself is not the property's business): under the lock with a
	// deferred unlock, exactly the state-level steps of the documented operation
	inlineBreaker := func(f *ssa.Function, d int) bool {
		return c.P.InScope[f] && recvCanon(f) == "circuitBreaker" && f.Object() != nil && !f.Object().Exported() && len(f.Blocks) > 0
	}
	for _, spec := range []struct {
		fn   string
		kind string // "success", "failure", "classify-result", "classify-error", "permit"
	}{
		{"circuitbreaker.(*circuitBreaker).RecordSuccess", "success"}, {"circuitbreaker.(*circuitBreaker).RecordFailure", "failure"},
		{"circuitbreaker.(*circuitBreaker).RecordResult", "classify-result"}, {"circuitbreaker.(*circuitBreaker).RecordError", "classify-error"},
		{"circuitbreaker.(*circuitBreaker).TryAcquirePermit", "permit"}} {
		fn := c.P.Func(spec.fn)
		if fn == nil {
			c.Unresolved(spec.fn, "not found")
			continue
		}
		ev := NewEvaluator(c.P, EvalConfig{Inline: inlineBreaker})
		paths := ev.Run(fn)
		ok := ev.Err == nil && len(paths) > 0
		st := ev.LoadField(ev.NewState(), ev.Param(fn, fn.Params[0].Name()), "state")
		for _, p := range paths {
			bad := func(msg string) {
				ok = false
				c.Fail(spec.fn, c.P.FuncPos(fn), msg, pathTrace(ev, p))
			}
			var seq []string
			var isf, permit *Event
			for _, e := range p.Events() {
				if e.Kind == EvCall && isCall(e, "IsFailure") {
					isf = e
				}
			}
			for _, e := range impure(p) {
				if e.Kind != EvCall && e.Kind != EvDefer {
					seq = append(seq, "other")
					continue
				}
				pre := ""
				if e.Kind == EvDefer {
					pre = "defer "
				}
				if e.Recv == st && st != nil {
					pre += "state."
					if e.Method == "tryAcquirePermit" {
						permit = e
					}
				}
				if e.Method == "IsFailure" {
					continue
				}
				seq = append(seq, pre+e.Method)
			}
			got := strings.Join(seq, ",")
			okSeq := "Lock,defer Unlock,state.recordSuccess,state.checkThresholdAndReleasePermit,Unlock"
			failSeq := "Lock,defer Unlock,state.recordFailure,state.checkThresholdAndReleasePermit,Unlock"
			switch spec.kind {
			case "success":
				if got != okSeq {
					bad("must, under the breaker's lock (deferred unlock), record a success on the current state and then check thresholds / release the permit, once each; found: " + got)
				}
			case "failure":
				if got != failSeq {
					bad("must, under the breaker's lock (deferred unlock), record a failure on the current state and then check thresholds / release the permit, once each; found: " + got)
				}
			case "classify-result", "classify-error":
				if isf == nil {
					bad("the outcome must be classified by the policy's IsFailure")
					continue
				}
				arg := ev.Param(fn, fn.Params[1].Name())
				if spec.kind == "classify-result" && !(isf.Args[0] == arg && isf.Args[1].IsNilConst()) {
					bad("RecordResult(r) must classify (r, nil)")
				}
				if spec.kind == "classify-error" && isf.Args[1] != arg {
					bad("RecordError(err) must classify (zero, err)")
				}
				switch p.State.Facts.Truth(ev.TS, isf.Res[0]) {
				case triT:
					if got != failSeq {
						bad("an outcome classified as failure must be recorded as a failure, under the lock; found: " + got)
					}
				case triF:
					if got != okSeq {
						bad("an outcome not classified as failure must be recorded as a success, under the lock; found: " + got)
					}
				default:
					bad("what is recorded does not depend on the classification")
				}
			case "permit":
				if got != "Lock,defer Unlock,state.tryAcquirePermit,Unlock" {
					bad("must ask the current state for a permit exactly once under the breaker's lock (deferred unlock); found: " + got)
				} else if p.Exit != ExitReturn || permit == nil || len(p.Rets) != 1 || p.Rets[0] != permit.Res[0] {
					bad("must return the state's admission decision")
				}
			}
		}
		if ok {
			c.Ok(spec.fn, c.P.FuncPos(fn), "Lock; defer Unlock; the documented state-level steps once each")
		}
	}
	// breaker.tryAcquirePermit delegates to the current state
	if fn := c.P.Func("circuitbreaker.(*circuitBreaker).tryAcquirePermit"); fn != nil {
		ev := NewEvaluator(c.P, EvalConfig{})
		ok := true
		st := ev.LoadField(ev.NewState(), ev.Param(fn, fn.Params[0].Name()), "state")
		for _, p := range ev.Run(fn) {
			evs := impure(p)
			if p.Exit != ExitReturn || len(evs) != 1 || !isCall(evs[0], "tryAcquirePermit") || evs[0].Recv != st || p.Rets[0] != evs[0].Res[0] {
				ok = false
				c.Fail(c.fn(fn), c.P.FuncPos(fn), "must return the current state's tryAcquirePermit()", pathTrace(ev, p))
			}
		}
		if ok {
			c.Ok(c.fn(fn), c.P.FuncPos(fn), "delegates to the current state")
		}
	} else {
		c.Ok("circuitbreaker.(*circuitBreaker).tryAcquirePermit", "", "no separate helper (the state is asked directly; checked in TryAcquirePermit and PreExecute)")
	}
}

// resultDerivedFrom: r is base.WithFailure() / base.WithDone(…) (or a chain of them) on this path.
func resultDerivedFrom(p *Path, r, base *T) bool {
	for depth := 0; depth < 4 && r != nil; depth++ {
		if r == base {
			return true
		}
		var next *T
		for _, e := range p.Events() {
			if (isCall(e, "WithFailure") || isCall(e, "WithDone")) && len(e.Res) == 1 && e.Res[0] == r {
				next = e.Recv
			}
		}
		r = next
	}
	return false
}

// onBreakerOrItsState: the receiver is the state's breaker (its tryAcquirePermit helper) or the breaker's current
// state read at that point (the helper written out).
func onBreakerOrItsState(recv *T) bool {
	if recv == nil {
		return false
	}
	if loadedField(recv) == "breaker" {
		return true
	}
	return loadedField(recv) == "state" && recv.Args[0].Op == "faddr" && loadedField(recv.Args[0].Args[0]) == "breaker"
}

// ---- C04.halfopen --------------------------------------------------------------------------------------

func c04HalfOpenPermits(c *Ctx) {
	c.Rule("halfopen-permits")
	intT := types.Typ[types.Uint]
	fn := c.P.Func("circuitbreaker.(*halfOpenState).tryAcquirePermit")
	if fn == nil {
		c.Unresolved("circuitbreaker.(*halfOpenState).tryAcquirePermit", "not found")
	} else {
		ev := NewEvaluator(c.P, EvalConfig{DecideReturns: true})
		ts := ev.TS
		paths := ev.Run(fn)
		s := ev.Param(fn, fn.Params[0].Name())
		perm := ev.LoadField(ev.NewState(), s, "permittedExecutions")
		ok := ev.Err == nil && len(paths) > 0 && perm != nil
		seen := map[tri]bool{}
		for _, p := range paths {
			avail := p.State.Facts.Truth(ts, ts.Cmp(">", perm, ts.LinConst(0, intT)))
			stores := eventsWhere(p, func(e *Event) bool { return e.Kind == EvStore })
			got := p.State.Facts.Truth(ts, p.Rets[0])
			seen[avail] = true
			switch avail {
			case triT:
				if got != triT || len(stores) != 1 || FieldName(stores[0].Addr.Aux) != "permittedExecutions" || stores[0].Val != ts.Add(perm, ts.LinConst(-1, intT), intT) {
					ok = false
					c.Fail(c.fn(fn), c.P.FuncPos(fn), "with a trial permit left: take exactly one (counter−1) and admit", pathTrace(ev, p))
				}
			case triF:
				if got != triF || len(stores) != 0 || len(impure(p)) != 0 {
					ok = false
					c.Fail(c.fn(fn), c.P.FuncPos(fn), "with no trial permit left: refuse and change nothing", pathTrace(ev, p))
				}
			default:
				ok = false
				c.Undecided(c.fn(fn), c.P.FuncPos(fn), "admission does not depend on permittedExecutions > 0", pathTrace(ev, p))
			}
		}
		if ok && seen[triT] && seen[triF] {
			c.Ok(c.fn(fn), c.P.FuncPos(fn), "permittedExecutions>0 ⇒ −1 and true; =0 ⇒ false, no effect")
		}
	}
	// release: +1 on every path of the half-open check
	if fn := c.P.Func("circuitbreaker.(*halfOpenState).checkThresholdAndReleasePermit"); fn == nil {
		c.Unresolved("circuitbreaker.(*halfOpenState).checkThresholdAndReleasePermit", "not found")
	} else {
		ev := NewEvaluator(c.P, EvalConfig{})
		ts := ev.TS
		paths := ev.Run(fn)
		s := ev.Param(fn, fn.Params[0].Name())
		perm := ev.LoadField(ev.NewState(), s, "permittedExecutions")
		ok := ev.Err == nil && len(paths) > 0
		for _, p := range paths {
			stores := eventsWhere(p, func(e *Event) bool {
				return e.Kind == EvStore && e.Addr.Op == "faddr" && FieldName(e.Addr.Aux) == "permittedExecutions"
			})
			if p.Exit != ExitReturn || len(stores) != 1 || !partOfObject(stores[0].Addr, s) || stores[0].Val != ts.Add(perm, ts.LinConst(1, intT), intT) {
				ok = false
				c.Fail(c.fn(fn), c.P.FuncPos(fn), "every recorded trial result must give its permit back: permittedExecutions+1 exactly once on every path, whatever the result", pathTrace(ev, p))
			}
		}
		if ok {
			c.Ok(c.fn(fn)+"#release", c.P.FuncPos(fn), fmt.Sprintf("%d paths each return exactly one permit", len(paths)))
		}
	}
	ix := BuildIndex(c.P)
	allowed := []string{"circuitbreaker.(*halfOpenState).tryAcquirePermit", "circuitbreaker.(*halfOpenState).checkThresholdAndReleasePermit", "circuitbreaker.newHalfOpenState"}
	okW := true
	for _, w := range ix.Writers(FieldRef{Type: "halfOpenState", Pkg: "circuitbreaker", Field: "permittedExecutions"}) {
		if !ix.WithinNames(w, allowed...) {
			okW = false
			c.Fail("circuitbreaker.halfOpenState.permittedExecutions#writers", c.P.FuncPos(w), "the trial permit counter is written by "+c.fn(w), "")
		}
	}
	if okW {
		c.Ok("circuitbreaker.halfOpenState.permittedExecutions#writers", "", "written only by the constructor, tryAcquirePermit and checkThresholdAndReleasePermit")
	}
}

// partOfObject: addr is the address of a field of obj, directly or inside by-value parts of obj.
func partOfObject(addr, obj *T) bool {
	for d := 0; d < 4 && addr != nil && addr.Op == "faddr" && len(addr.Args) > 0; d++ {
		if addr.Args[0] == obj {
			return true
		}
		addr = addr.Args[0]
	}
	return false
}

// ---- C03.state-owner / edges ----------------------------------------------------------------------------

func c03StateOwner(c *Ctx) {
	c.Rule("state-owner")
	ix := BuildIndex(c.P)
	ok := true
	ws := ix.Writers(FieldRef{Type: "circuitBreaker", Pkg: "circuitbreaker", Field: "state"})
	for _, wa := range ix.WriteAccesses(FieldRef{Type: "circuitBreaker", Pkg: "circuitbreaker", Field: "state"}) {
		w := wa.Fn
		// the initial state of a breaker object the function allocated itself (however Build is factored)
		if fa, isFA := wa.Instr.(*ssa.FieldAddr); isFA && isPrivateBase(fa.X) {
			continue
		}
		if !ix.WithinNames(w, "circuitbreaker.(*circuitBreaker).transitionTo", "circuitbreaker.(*config).Build") {
			ok = false
			c.Fail("circuitbreaker.circuitBreaker.state", c.P.FuncPos(w), "the breaker's state is replaced by "+c.fn(w)+" (only Build and transitionTo may)", "")
		}
	}
	if len(ws) < 2 {
		ok = false
		c.Unresolved("circuitbreaker.circuitBreaker.state", "expected writers Build and transitionTo not found")
	}
	if ok {
		c.Ok("circuitbreaker.circuitBreaker.state", "", "written only by Build and transitionTo")
	}
}

func c03Edges(c *Ctx) {
	c.Rule("edges")
	ix := BuildIndex(c.P)
	want := map[string]map[string]bool{
		"open":     {"circuitbreaker.(*circuitBreaker).Open": true, "circuitbreaker.(*closedState).checkThresholdAndReleasePermit": true, "circuitbreaker.(*halfOpenState).checkThresholdAndReleasePermit": true},
		"halfOpen": {"circuitbreaker.(*circuitBreaker).HalfOpen": true, "circuitbreaker.(*openState).tryAcquirePermit": true},
		"close":    {"circuitbreaker.(*circuitBreaker).Close": true, "circuitbreaker.(*halfOpenState).checkThresholdAndReleasePermit": true, "circuitbreaker.(*circuitBreaker).Reset": true},
	}
	for _, tr := range []string{"open", "halfOpen", "close"} {
		fn := c.P.Func("circuitbreaker.(*circuitBreaker)." + tr)
		if fn == nil {
			c.Unresolved("circuitbreaker.(*circuitBreaker)."+tr, "not found")
			continue
		}
		got := map[string]bool{}
		ok := true
		for _, cal := range ix.Callers[fn] {
			// the caller is one of the documented triggers, or a helper reachable only from them
			found := false
			for w := range want[tr] {
				if ix.WithinNames(cal, w) {
					got[w] = true
					found = true
				}
			}
			if !found && ix.WithinNames(cal, sortedKeys(want[tr])...) {
				found = true
			}
			if !found {
				ok = false
				c.Fail("transition:"+tr, c.P.FuncPos(cal), c.fn(cal)+" triggers the transition '"+tr+"', which is not an edge of the documented state machine", "")
			}
		}
		for w := range want[tr] {
			if !got[w] && !strings.HasSuffix(w, ".Reset") {
				ok = false
				c.Fail("transition:"+tr, "", "the documented edge from "+w+" is missing: it no longer calls "+tr, "")
			}
		}
		if ok {
			c.Ok("transition:"+tr, c.P.FuncPos(fn), "triggered exactly from: "+strings.Join(sortedKeys(got), ", "))
		}
		// open/close/halfOpen → transitionTo(<matching state>, exec, <matching listener>)
		ev := NewEvaluator(c.P, EvalConfig{})
		ts := ev.TS
		good := true
		wantState := map[string]string{"open": "OpenState", "halfOpen": "HalfOpenState", "close": "ClosedState"}[tr]
		wantListener := map[string]string{"open": "openListener", "halfOpen": "halfOpenListener", "close": "closeListener"}[tr]
		sc := stateConst(c, ts, wantState)
		for _, p := range ev.Run(fn) {
			evs := impure(p)
			if len(evs) == 1 && isCall(evs[0], "transitionTo") && sc != nil && len(evs[0].Args) == 2 && evs[0].Args[0] == sc && evs[0].Fn != nil && len(evs[0].Fn.Params) == 3 {
				// transitionTo(state, exec): the listener is chosen inside transitionTo, from the target state
				if okL, why, tr2 := transitionPicksListener(c, evs[0].Fn, wantState, wantListener); !okL {
					good = false
					c.Fail(c.fn(fn), c.P.FuncPos(fn), fmt.Sprintf("%s must be exactly transitionTo(%s, …, %s): %s", tr, wantState, wantListener, why), tr2)
					continue
				}
			} else if len(evs) != 1 || !isCall(evs[0], "transitionTo") || sc == nil || len(evs[0].Args) < 3 || evs[0].Args[0] != sc || loadedField(evs[0].Args[2]) != wantListener {
				good = false
				c.Fail(c.fn(fn), c.P.FuncPos(fn), fmt.Sprintf("%s must be exactly transitionTo(%s, …, %s)", tr, wantState, wantListener), pathTrace(ev, p))
				continue
			}
			if tr == "open" && evs[0].Args[1] != ev.Param(fn, fn.Params[1].Name()) {
				good = false
				c.Fail(c.fn(fn), c.P.FuncPos(fn), "open must pass the execution on (needed to compute the delay)", pathTrace(ev, p))
			}
		}
		if good {
			c.Ok(c.fn(fn), c.P.FuncPos(fn), "transitionTo("+wantState+", …, "+wantListener+")")
		}
	}
	// manual API: Lock; defer Unlock; one transition
	for _, spec := range []struct{ fn, inner string }{{"Open", "open"}, {"HalfOpen", "halfOpen"}, {"Close", "close"}} {
		fn := c.P.Func("circuitbreaker.(*circuitBreaker)." + spec.fn)
		if fn == nil {
			c.Unresolved("circuitbreaker.(*circuitBreaker)."+spec.fn, "not found")
			continue
		}
		ev := NewEvaluator(c.P, EvalConfig{})
		ok := true
		for _, p := range ev.Run(fn) {
			var seq []string
			for _, e := range impure(p) {
				pre := ""
				if e.Kind == EvDefer {
					pre = "defer "
				}
				seq = append(seq, pre+e.Method)
			}
			if strings.Join(seq, ",") != "Lock,defer Unlock,"+spec.inner+",Unlock" {
				ok = false
				c.Fail(c.fn(fn), c.P.FuncPos(fn), "manual transition must be: Lock; defer Unlock; "+spec.inner+"()", pathTrace(ev, p))
			}
		}
		if ok {
			c.Ok(c.fn(fn), c.P.FuncPos(fn), "Lock; defer Unlock; "+spec.inner)
		}
	}
}

// transitionPicksListener: a transitionTo without a listener parameter, evaluated for the target wantState, calls of
// the three per-state listeners of the config only the one named wantListener, exactly once when it is set, on every
// path that replaces the state — and none on a path that does not.
func transitionPicksListener(c *Ctx, fn *ssa.Function, wantState, wantListener string) (bool, string, string) {
	ev := NewEvaluator(c.P, EvalConfig{})
	ts := ev.TS
	sc := stateConst(c, ts, wantState)
	cb := ev.Param(fn, fn.Params[0].Name())
	newState := ev.Param(fn, fn.Params[1].Name())
	if sc == nil || cb == nil || newState == nil {
		return false, "parameters not found", ""
	}
	want := ev.LoadField(ev.NewState(), cb, "config", wantListener)
	if want == nil {
		return false, "listener field not found", ""
	}
	paths := ev.Run(fn)
	if ev.Err != nil || len(paths) == 0 {
		return false, fmt.Sprintf("evaluation failed: %v", ev.Err), ""
	}
	n := 0
	for _, p := range paths {
		if p.State.Facts.Truth(ts, ts.Cmp("==", newState, sc)) == triF {
			continue // another target
		}
		stores := eventsWhere(p, func(e *Event) bool {
			return e.Kind == EvStore && e.Addr.Op == "faddr" && FieldName(e.Addr.Aux) == "state"
		})
		specific := eventsWhere(p, func(e *Event) bool {
			if e.Kind != EvCall || e.FnTerm == nil {
				return false
			}
			switch loadedField(e.FnTerm) {
			case "openListener", "closeListener", "halfOpenListener":
				return true
			}
			return false
		})
		for _, e := range specific {
			if e.FnTerm != want {
				return false, "another state's listener is notified", pathTrace(ev, p)
			}
		}
		if len(stores) == 0 {
			if len(specific) != 0 {
				return false, "a listener is notified without a transition", pathTrace(ev, p)
			}
			continue
		}
		n++
		has := p.State.Facts.Truth(ts, ts.Cmp("!=", want, ts.Nil(nil)))
		if has == triU || (has == triT) != (len(specific) == 1) || len(specific) > 1 {
			return false, "the target state's listener must be called exactly once when set", pathTrace(ev, p)
		}
	}
	if n == 0 {
		return false, "no transitioning path", ""
	}
	return true, "", ""
}

// ---- C03.transition ------------------------------------------------------------------------------------

func c03Transition(c *Ctx) {
	c.Rule("transition")
	fn := c.P.Func("circuitbreaker.(*circuitBreaker).transitionTo")
	if fn == nil {
		c.Unresolved("circuitbreaker.(*circuitBreaker).transitionTo", "not found")
		return
	}
	name, pos := c.fn(fn), c.P.FuncPos(fn)
	ev := NewEvaluator(c.P, EvalConfig{})
	ts := ev.TS
	paths := ev.Run(fn)
	if ev.Err != nil || len(paths) == 0 {
		c.Undecided(name, pos, fmt.Sprintf("evaluation failed: %v", ev.Err), "")
		return
	}
	c.Count("paths", len(paths))
	cb := ev.Param(fn, fn.Params[0].Name())
	newState, exec, listener := ev.Param(fn, "newState"), ev.Param(fn, "exec"), ev.Param(fn, "listener")
	s0 := ev.NewState()
	// transitionTo(newState, exec) without a listener parameter picks the target's listener itself: the specific
	// listener of a path is then the configured listener of that path's target
	perTarget := map[string]*T{}
	if listener == nil && len(fn.Params) == 3 {
		for t, f := range map[string]string{"closed": "closeListener", "open": "openListener", "halfopen": "halfOpenListener"} {
			perTarget[t] = ev.LoadField(s0, cb, "config", f)
		}
		if perTarget["closed"] != nil && perTarget["open"] != nil && perTarget["halfopen"] != nil {
			listener = perTarget["closed"]
		}
	}
	isSpecific := func(t *T) bool {
		if len(perTarget) == 0 {
			return t == listener
		}
		return t == perTarget["closed"] || t == perTarget["open"] || t == perTarget["halfopen"]
	}
	old := ev.LoadField(s0, cb, "state")
	generic := ev.LoadField(s0, cb, "config", "stateChangedListener")
	cfgDelay := ev.LoadField(s0, cb, "config", "BaseDelayablePolicy", "Delay")
	cClosed, cOpen, cHalf := stateConst(c, ts, "ClosedState"), stateConst(c, ts, "OpenState"), stateConst(c, ts, "HalfOpenState")
	if newState == nil || exec == nil || listener == nil || old == nil || generic == nil || cClosed == nil || cOpen == nil || cHalf == nil || cfgDelay == nil {
		c.Unresolved(name, "parameters (newState, exec, listener), fields (state, stateChangedListener, Delay) or State constants not found")
		return
	}
	ok := true
	seen := map[string]bool{}
	for _, p := range paths {
		bad := func(msg string) {
			ok = false
			c.Fail(name, pos, msg, pathTrace(ev, p))
		}
		if p.Exit != ExitReturn {
			bad("non-returning path")
			continue
		}
		// current state id
		var cur *T
		for _, e := range p.Events() {
			if isCall(e, "state") && e.Recv == old && cur == nil {
				cur = e.Res[0]
			}
		}
		stores := eventsWhere(p, func(e *Event) bool {
			return e.Kind == EvStore && e.Addr.Op == "faddr" && FieldName(e.Addr.Aux) == "state"
		})
		lcalls := eventsWhere(p, func(e *Event) bool {
			return e.Kind == EvCall && e.FnTerm != nil && (isSpecific(e.FnTerm) || e.FnTerm == generic)
		})
		if cur == nil {
			bad("transitionTo must compare the current state with the target")
			continue
		}
		// a transition replaces the state and nothing else: the configuration it reads (the fixed delay among it) is
		// shared by every breaker built from the same builder and is the fallback of later transitions
		if other := eventsWhere(p, func(e *Event) bool {
			return e.Kind == EvStore && e.Addr != nil && e.Addr.Op == "faddr" && !(FieldName(e.Addr.Aux) == "state" && e.Addr.Args[0] == cb) && e.Addr.Contains(cb)
		}); len(other) != 0 {
			bad("transitionTo writes " + FieldName(other[0].Addr.Aux) + ": a transition may replace the breaker's state and nothing else (the configuration is shared with every breaker of the same builder, and the fixed delay is what later transitions without an execution fall back to)")
			continue
		}
		// the state change and its notifications are one critical section of the caller's lock: transitionTo itself
		// neither releases nor (re)acquires the breaker's mutex
		if lk := eventsWhere(p, func(e *Event) bool {
			return (e.Kind == EvCall || e.Kind == EvDefer) && e.FnTerm == nil && (e.Method == "Unlock" || e.Method == "Lock") && e.Recv != nil && rootOf(e.Recv) == cb
		}); len(lk) != 0 {
			bad("transitionTo releases or re-acquires the breaker's mutex around the notifications: a concurrent transition can then interleave, so listeners see events out of order (the events no longer form a connected path and the specific and generic listeners disagree)")
			continue
		}
		same := p.State.Facts.Truth(ts, ts.Cmp("==", cur, newState))
		if same == triT {
			seen["noop"] = true
			if len(stores) != 0 || len(lcalls) != 0 {
				bad("no transition happens when the breaker is already in the target state: no state change and no event")
			}
			continue
		}
		if same != triF {
			bad("path does not depend on whether the breaker already is in the target state")
			continue
		}
		// which target
		var target string
		switch {
		case p.State.Facts.Truth(ts, ts.Cmp("==", newState, cClosed)) == triT:
			target = "closed"
		case p.State.Facts.Truth(ts, ts.Cmp("==", newState, cOpen)) == triT:
			target = "open"
		case p.State.Facts.Truth(ts, ts.Cmp("==", newState, cHalf)) == triT:
			target = "halfopen"
		default:
			// unknown target state value: nothing is constructed; the code still reports a transition. Ignore (State is a closed enum).
			continue
		}
		seen[target] = true
		if len(stores) != 1 {
			bad("a transition must replace the state exactly once")
			continue
		}
		ctor := map[string]string{"closed": "newClosedState", "open": "newOpenState", "halfopen": "newHalfOpenState"}[target]
		var mk *Event
		for _, e := range p.Events() {
			if isCall(e, ctor) && len(e.Res) == 1 && e.Res[0] == stores[0].Val {
				mk = e
			}
		}
		// the constructor may be a function taking the breaker or a method on it
		var mkArgs []*T
		if mk != nil {
			if mk.Recv != nil {
				mkArgs = append(mkArgs, mk.Recv)
			}
			mkArgs = append(mkArgs, mk.Args...)
		}
		if mk == nil || len(mkArgs) == 0 || mkArgs[0] != cb || (target == "open" && len(mkArgs) != 3) {
			bad("the new state must be a freshly constructed " + target + " state of this breaker")
			continue
		}
		if target == "open" {
			// previous state's stats are kept; delay = computed unless -1, else configured
			if mkArgs[1] != old {
				bad("the open state must keep the previous state's stats (metrics of the state being left)")
				continue
			}
			var cd *Event
			for _, e := range p.Events() {
				if isCall(e, "ComputeDelay") {
					cd = e
				}
			}
			if cd == nil && p.State.Facts.Truth(ts, ts.Cmp("==", exec, ts.Nil(nil))) == triT {
				// no execution (a manual Open): ComputeDelay(nil) is -1 by its own summary (C13/C18 delay rules), so not
				// calling it at all is the same; the configured delay must be used
				if mkArgs[2] != cfgDelay {
					bad("with no execution to compute a delay from, the configured delay must be used")
				}
				goto events
			}
			if cd == nil || cd.Args[0] != exec {
				bad("the open delay must be computed from the delay function for the failing execution")
				continue
			}
			isDefault := p.State.Facts.Truth(ts, ts.Cmp("==", cd.Res[0], ts.LinConst(-1, cd.Res[0].Typ)))
			switch isDefault {
			case triT:
				if mkArgs[2] != cfgDelay {
					bad("with no computed delay (-1) the configured delay must be used")
				}
			case triF:
				if mkArgs[2] != cd.Res[0] {
					bad("a computed delay must be used as the open delay")
				}
			default:
				bad("the open delay does not depend on whether a delay was computed")
			}
		}
	events:
		// events
		for _, lc := range lcalls {
			if lc.Idx < stores[0].Idx {
				bad("a state-change listener is called before the state was replaced")
			}
		}
		specific := listener
		if len(perTarget) != 0 {
			specific = perTarget[target]
			for _, lc := range lcalls {
				if lc.FnTerm != specific && lc.FnTerm != generic {
					bad("a transition must notify the listener registered for its target state, not another state's")
				}
			}
		}
		for _, L := range []*T{specific, generic} {
			has := p.State.Facts.Truth(ts, ts.Cmp("!=", L, ts.Nil(nil)))
			calls := eventsWhere(p, func(e *Event) bool { return isDynCall(e, L) })
			if has == triU || (has == triT) != (len(calls) == 1) || len(calls) > 1 {
				bad("on a transition the specific and the generic state-change listener must each be called exactly once when set, and not otherwise")
				continue
			}
			if len(calls) == 1 {
				evt := calls[0].Args[0]
				if !(evt.Op == "struct" && len(evt.Args) >= 2 && evt.Args[1] == newState && evt.Args[0].Op == "app" && hasPrefix(evt.Args[0].Aux, "state@") && evt.Args[0].Args[0] == old) {
					bad("the event must report OldState = state being left and NewState = target")
				}
			}
		}
	}
	for _, k := range []string{"noop", "closed", "open", "halfopen"} {
		if ok && !seen[k] {
			ok = false
			c.Fail(name, pos, "transitionTo lacks the "+k+" case", "")
		}
	}
	if ok {
		c.Ok(name, pos, fmt.Sprintf("%d paths: same state ⇒ nothing; else fresh state (open keeps old stats, delay = computed or configured), then specific and generic listeners once each with (old, new)", len(paths)))
	}
}

// ---- C03 threshold tables ------------------------------------------------------------------------------

func statCall(p *Path, recv *T, method string) *T {
	for _, e := range p.Events() {
		if isCall(e, method) && e.Recv == recv {
			return e.Res[0]
		}
	}
	return nil
}

func c03ClosedTable(c *Ctx) {
	c.Rule("thresholds-closed")
	fn := c.P.Func("circuitbreaker.(*closedState).checkThresholdAndReleasePermit")
	if fn == nil {
		c.Unresolved("circuitbreaker.(*closedState).checkThresholdAndReleasePermit", "not found")
		return
	}
	name, pos := c.fn(fn), c.P.FuncPos(fn)
	ev := NewEvaluator(c.P, EvalConfig{})
	ts := ev.TS
	paths := ev.Run(fn)
	if ev.Err != nil || len(paths) == 0 {
		c.Undecided(name, pos, fmt.Sprintf("evaluation failed: %v", ev.Err), "")
		return
	}
	s := ev.Param(fn, fn.Params[0].Name())
	s0 := ev.NewState()
	stats := ev.LoadField(s0, s, "stats")
	cfg := func(f string) *T { return ev.LoadField(s0, s, "breaker", "config", f) }
	execThr, rateThr, failThr := cfg("failureExecutionThreshold"), cfg("failureRateThreshold"), cfg("failureThreshold")
	if stats == nil || execThr == nil || rateThr == nil || failThr == nil {
		c.Unresolved(name, "stats / threshold fields not found")
		return
	}
	u := types.Typ[types.Uint]
	ok := true
	rows := 0
	for _, p := range paths {
		execs, rate, fails := statCall(p, s, "executionCount"), statCall(p, s, "failureRate"), statCall(p, s, "failureCount")
		if execs == nil {
			execs = statCall(p, stats, "executionCount")
		}
		if rate == nil {
			rate = statCall(p, stats, "failureRate")
		}
		if fails == nil {
			fails = statCall(p, stats, "failureCount")
		}
		var aX, aRate, aFail *T
		if execs != nil {
			aX = ts.Cmp(">=", execs, execThr)
		}
		aR := ts.Cmp("!=", rateThr, ts.LinConst(0, u))
		if rate != nil {
			aRate = ts.Cmp(">=", rate, rateThr)
		}
		if fails != nil {
			aFail = ts.Cmp(">=", fails, failThr)
		}
		opens := eventsWhere(p, func(e *Event) bool { return isCall(e, "open") })
		for _, F := range p.State.Facts.Refine(ts, aX, aR, aRate, aFail) {
			rows++
			tv := func(a *T) tri {
				if a == nil {
					return triU
				}
				return F.Truth(ts, a)
			}
			X, R := tv(aX), tv(aR)
			want := triAnd(X, triOr(triAnd(R, tv(aRate)), triAnd(R.not(), tv(aFail))))
			if want == triU {
				ok = false
				c.Fail(name, pos, "the decision to open does not depend on: executions ≥ executionThreshold ∧ ((rateThreshold≠0 ∧ failureRate ≥ rateThreshold) ∨ (rateThreshold=0 ∧ failures ≥ failureThreshold))", "row: "+F.String()+"\n"+pathTrace(ev, p))
				continue
			}
			if (want == triT) != (len(opens) == 1) || len(opens) > 1 {
				ok = false
				c.Fail(name, pos, fmt.Sprintf("closed state: threshold met=%s but open() called %d times", want, len(opens)), "row: "+F.String()+"\n"+pathTrace(ev, p))
				continue
			}
			if len(opens) == 1 && opens[0].Args[0] != ev.Param(fn, fn.Params[1].Name()) {
				ok = false
				c.Fail(name, pos, "open must receive the failing execution (delay function input)", pathTrace(ev, p))
			}
		}
	}
	c.Count("decision-table rows", rows)
	if ok {
		c.Ok(name, pos, fmt.Sprintf("%d rows: opens ⇔ executions ≥ executionThreshold ∧ ((rateThr≠0 ∧ rate ≥ rateThr) ∨ (rateThr=0 ∧ failures ≥ failureThreshold))", rows))
	}
}

func c03OpenTable(c *Ctx) {
	c.Rule("thresholds-open")
	fn := c.P.Func("circuitbreaker.(*openState).tryAcquirePermit")
	if fn == nil {
		c.Unresolved("circuitbreaker.(*openState).tryAcquirePermit", "not found")
		return
	}
	name, pos := c.fn(fn), c.P.FuncPos(fn)
	ev := NewEvaluator(c.P, EvalConfig{DecideReturns: true})
	ts := ev.TS
	paths := ev.Run(fn)
	if ev.Err != nil || len(paths) == 0 {
		c.Undecided(name, pos, fmt.Sprintf("evaluation failed: %v", ev.Err), "")
		return
	}
	s := ev.Param(fn, fn.Params[0].Name())
	s0 := ev.NewState()
	start, delay := ev.LoadField(s0, s, "startTime"), ev.LoadField(s0, s, "delay")
	if start == nil || delay == nil {
		c.Unresolved(name, "fields startTime / delay not found")
		return
	}
	i64 := types.Typ[types.Int64]
	ok := true
	seen := map[tri]bool{}
	for _, p := range paths {
		var now, delayNanos *T
		for _, e := range p.Events() {
			if isCall(e, "CurrentUnixNano") {
				now = e.Res[0]
			}
			if isCall(e, "Nanoseconds") && e.Recv == delay {
				delayNanos = e.Res[0]
			}
		}
		if now == nil {
			ok = false
			c.Fail(name, pos, "the open state must read the breaker's clock to decide admission", pathTrace(ev, p))
			continue
		}
		d := delay
		if delayNanos != nil {
			d = delayNanos
		}
		elapsedOK := p.State.Facts.Truth(ts, ts.Cmp(">=", ts.Sub(now, start, i64), d))
		seen[elapsedOK] = true
		half := eventsWhere(p, func(e *Event) bool { return isCall(e, "halfOpen") })
		acq := eventsWhere(p, func(e *Event) bool { return isCall(e, "tryAcquirePermit") })
		stores := eventsWhere(p, func(e *Event) bool { return e.Kind == EvStore })
		switch elapsedOK {
		case triT:
			if len(half) != 1 || len(acq) != 1 || acq[0].Idx < half[0].Idx || !onBreakerOrItsState(acq[0].Recv) || p.State.Facts.Truth(ts, p.Rets[0]) != p.State.Facts.Truth(ts, acq[0].Res[0]) {
				ok = false
				c.Fail(name, pos, "once the delay has elapsed (clock − start ≥ delay, boundary included) the breaker must half-open and the request must take one of the new state's trial permits (return breaker.tryAcquirePermit())", pathTrace(ev, p))
			}
		case triF:
			if len(half) != 0 || len(acq) != 0 || len(stores) != 0 || p.State.Facts.Truth(ts, p.Rets[0]) != triF {
				ok = false
				c.Fail(name, pos, "before the delay has elapsed an open breaker must refuse (false) with no transition and no state change", pathTrace(ev, p))
			}
		default:
			ok = false
			c.Fail(name, pos, "admission by the open state is not decided by: clock − openedAt ≥ delay (a formulation that adds the delay to a clock reading is not accepted: it overflows for very long delays)", pathTrace(ev, p))
		}
	}
	if ok && seen[triT] && seen[triF] {
		c.Ok(name, pos, "clock−start ≥ delay ⇒ halfOpen() then the new state's permit decision; otherwise false with no effect")
	} else if ok {
		c.Fail(name, pos, "open-state admission lacks a case", "")
	}
}

func c03HalfOpenTable(c *Ctx) {
	c.Rule("thresholds-halfopen")
	fn := c.P.Func("circuitbreaker.(*halfOpenState).checkThresholdAndReleasePermit")
	if fn == nil {
		c.Unresolved("circuitbreaker.(*halfOpenState).checkThresholdAndReleasePermit", "not found")
		return
	}
	name, pos := c.fn(fn), c.P.FuncPos(fn)
	ev := NewEvaluator(c.P, EvalConfig{})
	ts := ev.TS
	paths := ev.Run(fn)
	if ev.Err != nil || len(paths) == 0 {
		c.Undecided(name, pos, fmt.Sprintf("evaluation failed: %v", ev.Err), "")
		return
	}
	s := ev.Param(fn, fn.Params[0].Name())
	s0 := ev.NewState()
	stats := ev.LoadField(s0, s, "stats")
	cfg := func(f string) *T { return ev.LoadField(s0, s, "breaker", "config", f) }
	succThr, succCap := cfg("successThreshold"), cfg("successThresholdingCapacity")
	rateThr, execThr := cfg("failureRateThreshold"), cfg("failureExecutionThreshold")
	failThr, failCap := cfg("failureThreshold"), cfg("failureThresholdingCapacity")
	if stats == nil || succThr == nil || succCap == nil || rateThr == nil || execThr == nil || failThr == nil || failCap == nil {
		c.Unresolved(name, "threshold fields not found")
		return
	}
	u := types.Typ[types.Uint]
	ok := true
	rows := 0
	for _, p := range paths {
		get := func(m string) *T {
			if t := statCall(p, s, m); t != nil {
				return t
			}
			return statCall(p, stats, m)
		}
		succ, fail, execs, frate, srate := get("successCount"), get("failureCount"), get("executionCount"), get("failureRate"), get("successRate")
		cmp := func(op string, a, b *T) *T {
			if a == nil || b == nil {
				return nil
			}
			return ts.Cmp(op, a, b)
		}
		aS := ts.Cmp("!=", succThr, ts.LinConst(0, u))
		aR := ts.Cmp("!=", rateThr, ts.LinConst(0, u))
		a1 := cmp(">=", succ, succThr)
		a2 := cmp(">", fail, ts.Sub(succCap, succThr, u))
		a3 := cmp(">=", execs, execThr)
		a4 := cmp(">=", frate, rateThr)
		a5 := cmp(">", srate, ts.Sub(ts.LinConst(100, u), rateThr, u))
		a6 := cmp(">=", fail, failThr)
		a7 := cmp(">", succ, ts.Sub(failCap, failThr, u))
		closes := eventsWhere(p, func(e *Event) bool { return isCall(e, "close") })
		opens := eventsWhere(p, func(e *Event) bool { return isCall(e, "open") })
		for _, F := range p.State.Facts.Refine(ts, aS, aR, a1, a2, a3, a4, a5, a6, a7) {
			rows++
			tv := func(a *T) tri {
				if a == nil {
					return triU
				}
				return F.Truth(ts, a)
			}
			var sx, fx tri
			switch tv(aS) {
			case triT:
				sx, fx = tv(a1), tv(a2)
			case triF:
				switch tv(aR) {
				case triT:
					sx, fx = triAnd(tv(a3), tv(a5)), triAnd(tv(a3), tv(a4))
				case triF:
					sx, fx = tv(a7), tv(a6)
				default:
					sx, fx = triU, triU
				}
			default:
				sx, fx = triU, triU
			}
			wantClose := sx
			wantOpen := triAnd(sx.not(), fx)
			if wantClose == triU || wantOpen == triU {
				ok = false
				c.Fail(name, pos, "the half-open decision does not depend on the documented thresholds (success threshold: successes ≥ thr / failures > capacity−thr; rate: executions ≥ execThr ∧ rate comparison; count: failures ≥ thr / successes > capacity−thr)", "row: "+F.String()+"\n"+pathTrace(ev, p))
				continue
			}
			if (wantClose == triT) != (len(closes) == 1) || (wantOpen == triT) != (len(opens) == 1) || len(closes)+len(opens) > 1 {
				ok = false
				c.Fail(name, pos, fmt.Sprintf("half-open: successes-exceeded=%s failures-exceeded=%s ⇒ expected close=%s open=%s, found close×%d open×%d", sx, fx, wantClose, wantOpen, len(closes), len(opens)), "row: "+F.String()+"\n"+pathTrace(ev, p))
			}
		}
	}
	c.Count("decision-table rows", rows)
	if ok {
		c.Ok(name, pos, fmt.Sprintf("%d rows: closes ⇔ successes exceeded; re-opens ⇔ ¬successes exceeded ∧ failures exceeded, per the configured threshold kind", rows))
	}
}

// ---- C03 constructors ----------------------------------------------------------------------------------

func c03Constructors(c *Ctx) {
	c.Rule("constructors")
	u := types.Typ[types.Uint]
	if fn := c.P.Func("circuitbreaker.newHalfOpenState"); fn == nil {
		c.Unresolved("circuitbreaker.newHalfOpenState", "not found")
	} else {
		ev := NewEvaluator(c.P, EvalConfig{})
		ts := ev.TS
		b := ev.Param(fn, fn.Params[0].Name())
		s0 := ev.NewState()
		cfg := func(f string) *T { return ev.LoadField(s0, b, "config", f) }
		sc, fe, fc := cfg("successThresholdingCapacity"), cfg("failureExecutionThreshold"), cfg("failureThresholdingCapacity")
		ok := sc != nil && fe != nil && fc != nil
		zero := ts.LinConst(0, u)
		paths := ev.Run(fn)
		if !ok {
			c.Unresolved("circuitbreaker.newHalfOpenState", "the breaker's configuration is not reachable from the constructor's first parameter")
			paths = nil
		}
		for _, p := range paths {
			if p.Exit != ExitReturn || len(p.Rets) != 1 {
				ok = false
				c.Undecided(c.fn(fn), c.P.FuncPos(fn), "a path of the constructor does not return (loop bound or panic)", pathTrace(ev, p))
				continue
			}
			r := p.Rets[0]
			perm := ev.LoadField(p.State, r, "permittedExecutions")
			var want *T
			F := p.State.Facts
			// the precedence is decided for every configuration the path stands for: a path that never looked at the
			// success capacity is checked both with and without one
			rowsOK := true
			for _, R := range F.Refine(ts, ts.Cmp("!=", sc, zero), ts.Cmp("!=", fe, zero)) {
				var w *T
				switch {
				case R.Truth(ts, ts.Cmp("!=", sc, zero)) == triT:
					w = sc
				case R.Truth(ts, ts.Cmp("!=", fe, zero)) == triT:
					w = fe
				default:
					w = fc
				}
				if !sameUnder(ev, R, perm, w) {
					rowsOK = false
				}
				want = w
			}
			F = p.State.Facts
			mk := eventsWhere(p, func(e *Event) bool { return isCall(e, "newStats") })
			if !rowsOK {
				want = nil
			}
			viaFactory := len(mk) == 1 && len(fullArgs(mk[0])) == 3 && sameUnder(ev, F, argN(mk[0], 2), perm) && isFalse(argN(mk[0], 1)) && ev.LoadField(p.State, r, "stats") == mk[0].Res[0]
			if !viaFactory && len(mk) == 0 {
				// no stats factory: the leaf constructors directly (a half-open state is never time-based)
				if made, okLeaf := statsMadeDirectly(ev, p, nil, false, perm); okLeaf && ev.LoadField(p.State, r, "stats") == made {
					viaFactory = true
				}
			}
			if r.Op != "alloc" || want == nil || !viaFactory || ev.LoadField(p.State, r, "breaker") != b {
				ok = false
				c.Fail(c.fn(fn), c.P.FuncPos(fn), "a half-open state must start with fresh count-based stats and as many trial permits as its capacity (success capacity, else execution threshold, else failure capacity)", pathTrace(ev, p))
			}
		}
		if ok && len(paths) > 0 {
			c.Ok(c.fn(fn), c.P.FuncPos(fn), "fresh stats; permittedExecutions = capacity")
		}
	}
	if fn := c.P.Func("circuitbreaker.newOpenState"); fn == nil {
		c.Unresolved("circuitbreaker.newOpenState", "not found")
	} else {
		ev := NewEvaluator(c.P, EvalConfig{})
		ok := true
		paths := ev.Run(fn)
		for _, p := range paths {
			r := p.Rets[0]
			clock := eventsWhere(p, func(e *Event) bool { return isCall(e, "CurrentUnixNano") })
			if r.Op != "alloc" || len(clock) != 1 || ev.LoadField(p.State, r, "startTime") != clock[0].Res[0] || ev.LoadField(p.State, r, "delay") != ev.Param(fn, "delay") || ev.LoadField(p.State, r, "stats") != ev.Param(fn, "previousState") || ev.LoadField(p.State, r, "breaker") != ev.Param(fn, fn.Params[0].Name()) {
				ok = false
				c.Fail(c.fn(fn), c.P.FuncPos(fn), "an open state must record the opening instant from the breaker's clock, the delay it was given and the previous state's stats", pathTrace(ev, p))
			}
		}
		if ok && len(paths) > 0 {
			c.Ok(c.fn(fn), c.P.FuncPos(fn), "startTime = clock now; delay and previous stats as given")
		}
	}
	if fn := c.P.Func("circuitbreaker.newClosedState"); fn == nil {
		c.Unresolved("circuitbreaker.newClosedState", "not found")
	} else {
		ev := NewEvaluator(c.P, EvalConfig{})
		ts := ev.TS
		ok := true
		b := ev.Param(fn, fn.Params[0].Name())
		s0 := ev.NewState()
		fe, fc := ev.LoadField(s0, b, "config", "failureExecutionThreshold"), ev.LoadField(s0, b, "config", "failureThresholdingCapacity")
		paths := ev.Run(fn)
		for _, p := range paths {
			if p.Exit != ExitReturn || len(p.Rets) != 1 {
				ok = false
				c.Undecided(c.fn(fn), c.P.FuncPos(fn), "a path of the constructor does not return (loop bound or panic)", pathTrace(ev, p))
				continue
			}
			r := p.Rets[0]
			mk := eventsWhere(p, func(e *Event) bool { return isCall(e, "newStats") })
			want := fc
			if p.State.Facts.Truth(ts, ts.Cmp("!=", fe, ts.LinConst(0, u))) == triT {
				want = fe
			}
			viaFactory := len(mk) == 1 && len(fullArgs(mk[0])) == 3 && sameUnder(ev, p.State.Facts, argN(mk[0], 2), want) && isTrue(argN(mk[0], 1)) && ev.LoadField(p.State, r, "stats") == mk[0].Res[0]
			if !viaFactory && len(mk) == 0 {
				period := ev.LoadField(s0, b, "config", "failureThresholdingPeriod")
				if made, okLeaf := statsMadeDirectly(ev, p, period, true, want); okLeaf && ev.LoadField(p.State, r, "stats") == made {
					viaFactory = true
				}
			}
			if r.Op != "alloc" || !viaFactory {
				ok = false
				c.Fail(c.fn(fn), c.P.FuncPos(fn), "a closed state must start with fresh stats sized by the execution threshold, else the failure thresholding capacity, time-based when a period is configured", pathTrace(ev, p))
			}
		}
		if ok && len(paths) > 0 {
			c.Ok(c.fn(fn), c.P.FuncPos(fn), "fresh stats with the documented capacity")
		}
	}
}

// ---- C03.stats -----------------------------------------------------------------------------------------

func c03Stats(c *Ctx) {
	c.Rule("stats")
	u := types.Typ[types.Uint]
	if fn := c.P.Func("circuitbreaker.(*countingStats).setNext"); fn == nil {
		c.Unresolved("circuitbreaker.(*countingStats).setNext", "not found")
	} else {
		ev := NewEvaluator(c.P, EvalConfig{})
		ts := ev.TS
		paths := ev.Run(fn)
		cs := ev.Param(fn, fn.Params[0].Name())
		value := ev.Param(fn, "value")
		s0 := ev.NewState()
		occ, size, head, succ, fail := ev.LoadField(s0, cs, "occupiedBits"), ev.LoadField(s0, cs, "size"), ev.LoadField(s0, cs, "head"), ev.LoadField(s0, cs, "successes"), ev.LoadField(s0, cs, "failures")
		ok := ev.Err == nil && len(paths) > 0 && occ != nil && size != nil && head != nil && succ != nil && fail != nil && value != nil
		for _, p := range paths {
			bad := func(msg string) {
				ok = false
				c.Fail(c.fn(fn), c.P.FuncPos(fn), msg, pathTrace(ev, p))
			}
			if p.Exit != ExitReturn {
				continue
			}
			fin := func(f string) *T { return ev.LoadField(p.State, cs, f) }
			dOcc := ts.Sub(fin("occupiedBits"), occ, u)
			dS := ts.Sub(fin("successes"), succ, u)
			dF := ts.Sub(fin("failures"), fail, u)
			// invariant: Δsuccesses + Δfailures = ΔoccupiedBits
			if ts.Add(dS, dF, u) != dOcc {
				bad("recording a result must keep successes + failures = occupied bits")
				continue
			}
			full := p.State.Facts.Truth(ts, ts.Cmp("<", occ, size))
			k, isC := dOcc.IsConstInt()
			if !isC || (full == triT && k != 1) || (full == triF && k != 0) || full == triU {
				bad("the window grows by one while not full and stays at its size once full")
				continue
			}
			v := p.State.Facts.Truth(ts, value)
			// the new value is counted
			ds, _ := dS.IsConstInt()
			df, _ := dF.IsConstInt()
			if full == triT && ((v == triT && !(ds == 1 && df == 0)) || (v == triF && !(ds == 0 && df == 1))) {
				bad("a recorded success must add one success, a recorded failure one failure")
			}
			if full == triF {
				// evicted bit decided by Test(head)
				tests := eventsWhere(p, func(e *Event) bool { return isCall(e, "Test") && len(e.Args) == 1 && e.Args[0] == head })
				if len(tests) != 1 {
					bad("when full, the evicted entry must be the one at the head position")
					continue
				}
				old := p.State.Facts.Truth(ts, tests[0].Res[0])
				wantS, wantF := int64(0), int64(0)
				if old == triT {
					wantS--
				} else {
					wantF--
				}
				if v == triT {
					wantS++
				} else {
					wantF++
				}
				if ds != wantS || df != wantF || old == triU || v == triU {
					bad("when full, the oldest entry must be un-counted and the new one counted")
				}
			}
			// bit written at the old head, head advances modulo size
			sets := eventsWhere(p, func(e *Event) bool { return isCall(e, "SetTo") })
			if len(sets) != 1 || sets[0].Args[0] != head || sets[0].Args[1] != value {
				bad("the result must be written at the head position")
			}
			nh := fin("head")
			if !(nh.Op == "bin" && nh.Aux == "%" && nh.Args[0] == ts.Add(head, ts.LinConst(1, u), u) && nh.Args[1] == size) {
				bad("head must advance by one modulo the window size")
			}
		}
		if ok {
			c.Ok(c.fn(fn), c.P.FuncPos(fn), fmt.Sprintf("%d paths: successes+failures=occupied preserved; grows to size then evicts the head entry; head=(head+1)%%size", len(paths)))
		}
	}
	for _, spec := range []struct{ fn, field string }{{"circuitbreaker.(*timedStats).recordSuccess", "successes"}, {"circuitbreaker.(*timedStats).recordFailure", "failures"}} {
		fn := c.P.Func(spec.fn)
		if fn == nil {
			c.Unresolved(spec.fn, "not found")
			continue
		}
		ev := NewEvaluator(c.P, EvalConfig{})
		ts := ev.TS
		ok := true
		paths := ev.Run(fn)
		for _, p := range paths {
			cb := eventsWhere(p, func(e *Event) bool { return isCall(e, "currentBucket") })
			stores := eventsWhere(p, func(e *Event) bool { return e.Kind == EvStore })
			good := p.Exit == ExitReturn && len(cb) == 1 && len(stores) == 2
			if good {
				var b, sm *Event
				for _, s := range stores {
					if s.Addr.Op == "faddr" && FieldName(s.Addr.Aux) == spec.field {
						if s.Addr.Args[0] == cb[0].Res[0] {
							b = s
						} else if s.Addr.Args[0].Op == "faddr" && FieldName(s.Addr.Args[0].Aux) == "summary" {
							sm = s
						}
					}
				}
				good = b != nil && sm != nil
				if good {
					ob := ev.load(ev.NewState(), b.Addr, u)
					os := ev.load(ev.NewState(), sm.Addr, u)
					good = b.Val == ts.Add(ob, ts.LinConst(1, u), u) && sm.Val == ts.Add(os, ts.LinConst(1, u), u)
				}
			}
			if !good {
				ok = false
				c.Fail(spec.fn, c.P.FuncPos(fn), "a timed record must add exactly one to the current bucket and to the summary, same counter", pathTrace(ev, p))
			}
		}
		if ok && len(paths) > 0 {
			c.Ok(spec.fn, c.P.FuncPos(fn), "current bucket +1 and summary +1")
		}
	}
	// currentBucket: expired buckets are removed from the summary and reset, index modulo bucketCount
	if fn := c.P.Func("circuitbreaker.(*timedStats).currentBucket"); fn == nil {
		c.Unresolved("circuitbreaker.(*timedStats).currentBucket", "not found")
	} else {
		ev := NewEvaluator(c.P, EvalConfig{MaxVisits: 3, Inline: func(f *ssa.Function, d int) bool { return c.P.InScope[f] && recvCanon(f) == "stat" }})
		ts := ev.TS
		ok := true
		paths := ev.Run(fn)
		recvS := ev.Param(fn, fn.Params[0].Name())
		head0 := ev.LoadField(ev.NewState(), recvS, "head")
		nanos := ev.LoadField(ev.NewState(), recvS, "bucketNanos")
		for _, p := range paths {
			// the window advances exactly when clock/bucketNanos moved past the head, and then head becomes that value
			var now *T
			for _, e := range p.Events() {
				if isCall(e, "CurrentUnixNano") {
					now = e.Res[0]
				}
			}
			if now != nil && head0 != nil && nanos != nil && p.Exit == ExitReturn {
				newHead := ts.Bin("/", now, nanos, head0.Typ, false)
				adv := p.State.Facts.Truth(ts, ts.Cmp(">", newHead, head0))
				finalHead := ev.LoadField(p.State, recvS, "head")
				nrm := len(eventsWhere(p, func(e *Event) bool {
					return e.Kind == EvStore && e.Addr.Op == "faddr" && (FieldName(e.Addr.Aux) == "successes" || FieldName(e.Addr.Aux) == "failures")
				}))
				switch adv {
				case triT:
					if finalHead != newHead {
						ok = false
						c.Fail(c.fn(fn), c.P.FuncPos(fn), "when time moved to a later bucket the head must become clock/bucketNanos", pathTrace(ev, p))
					}
				case triF:
					if finalHead != head0 || nrm != 0 {
						ok = false
						c.Fail(c.fn(fn), c.P.FuncPos(fn), "while time stays within the head bucket nothing may expire and the head must not move", pathTrace(ev, p))
					}
				default:
					ok = false
					c.Fail(c.fn(fn), c.P.FuncPos(fn), "bucket expiry does not depend on clock/bucketNanos > head", pathTrace(ev, p))
				}
			}
			// which buckets left the summary (their counts are subtracted from it) and which were zeroed: with the
			// bucket helpers (remove / reset upstream) evaluated in place this is read off the stores themselves
			if p.Exit == ExitReturn {
				removed := map[string]map[*T]bool{"successes": {}, "failures": {}}
				zeroed := map[string]map[*T]int{"successes": {}, "failures": {}}
				firstSub := map[*T]int{}
				for _, e := range p.Events() {
					if e.Kind != EvStore || e.Addr.Op != "faddr" {
						continue
					}
					f := FieldName(e.Addr.Aux)
					if f != "successes" && f != "failures" {
						continue
					}
					base := e.Addr.Args[0]
					if base.Op == "iaddr" {
						if k, isK := e.Val.IsConstInt(); isK && k == 0 {
							zeroed[f][base] = e.Idx
						}
						continue
					}
					// a store into the summary: which buckets' counts it subtracts, and when each first appears
					if l := asLin(e.Val); l != nil {
						for k, sym := range l.Syms {
							if l.Coefs[k] == -1 && sym.Op == "init" && sym.Args[0].Op == "faddr" && FieldName(sym.Args[0].Aux) == f && sym.Args[0].Args[0].Op == "iaddr" {
								b := sym.Args[0].Args[0]
								removed[f][b] = true
								if _, seenB := firstSub[b]; !seenB {
									firstSub[b] = e.Idx
								}
							}
						}
					}
				}
				for _, f := range []string{"successes", "failures"} {
					for b := range removed[f] {
						zi, isZ := zeroed[f][b]
						if !isZ || !removed["successes"][b] || !removed["failures"][b] {
							ok = false
							c.Fail(c.fn(fn), c.P.FuncPos(fn), "every bucket removed from the summary must also be reset (and vice versa)", pathTrace(ev, p))
							break
						}
						if zi < firstSub[b] {
							ok = false
							c.Fail(c.fn(fn), c.P.FuncPos(fn), "the bucket subtracted from the summary and the bucket reset must be the same one, subtract first", pathTrace(ev, p))
						}
						if !(b.Args[1].Op == "bin" && b.Args[1].Aux == "%") {
							ok = false
							c.Fail(c.fn(fn), c.P.FuncPos(fn), "bucket indexes must be reduced modulo the bucket count", pathTrace(ev, p))
						}
					}
					for b := range zeroed[f] {
						if !removed[f][b] {
							ok = false
							c.Fail(c.fn(fn), c.P.FuncPos(fn), "every bucket removed from the summary must also be reset (and vice versa)", pathTrace(ev, p))
							break
						}
					}
				}
			}
			if p.Exit == ExitReturn {
				if r := p.Rets[0]; !(r.Op == "iaddr" && r.Args[1].Op == "bin" && r.Args[1].Aux == "%") {
					ok = false
					c.Fail(c.fn(fn), c.P.FuncPos(fn), "the current bucket index must be reduced modulo the bucket count", pathTrace(ev, p))
				}
			}
		}
		if ok && len(paths) > 0 {
			c.Ok(c.fn(fn), c.P.FuncPos(fn), fmt.Sprintf("%d paths: remove/reset paired on the same bucket, indexes modulo bucket count", len(paths)))
		}
	}
}

// ---- C03.clock -----------------------------------------------------------------------------------------

func c03Clock(c *Ctx) {
	c.Rule("clock")
	n := 0
	ok := true
	for _, fn := range c.P.Funcs {
		if fn.Pkg == nil || fn.Pkg.Pkg.Name() != "circuitbreaker" {
			continue
		}
		for _, b := range fn.Blocks {
			for _, in := range b.Instrs {
				cc, isCall := in.(ssa.CallInstruction)
				if !isCall {
					continue
				}
				cal := calleeOf(cc.Common())
				if cal == nil {
					continue
				}
				n++
				q := qualName(cal)
				if q == "time.Now" || q == "time.Since" || q == "time.Until" {
					ok = false
					c.Fail(c.fn(fn), c.P.Pos(in.Pos()), "package circuitbreaker reads the wall clock directly ("+q+") instead of its configured clock", "")
				}
			}
		}
	}
	c.Floor("static calls scanned in circuitbreaker", n, 40)
	if ok {
		c.Ok("circuitbreaker#clock", "", fmt.Sprintf("%d static calls: none to time.Now/Since/Until (time is read through config.clock only)", n))
	}
}

// c03MetricsViews: the breaker answers Metrics queries under its mutex. Any other implementer of the Metrics interface
// reads the state's statistics directly (no lock): such a view may only be built by the transition function, which
// hands it to listeners while the mutex is held; and Metrics() itself must hand out the locking breaker.
func c03MetricsViews(c *Ctx) {
	c.Rule("metrics-views")
	iface := c.P.NamedType("circuitbreaker", "Metrics")
	breaker := c.P.NamedType("circuitbreaker", "circuitBreaker")
	if iface == nil || breaker == nil {
		c.Unresolved("circuitbreaker.Metrics", "interface or breaker type not found")
		return
	}
	ix := BuildIndex(c.P)
	views := map[*types.TypeName]bool{}
	for _, n := range c.P.Implementers(iface) {
		if n.Obj() == breaker.Obj() || n.Obj().Pkg() != breaker.Obj().Pkg() {
			continue
		}
		// its own methods, not the breaker's promoted through embedding
		ms := types.NewMethodSet(types.NewPointer(n))
		for i := 0; i < ms.Len(); i++ {
			if ms.At(i).Obj().Name() == "Executions" && len(ms.At(i).Index()) == 1 {
				views[n.Obj()] = true
			}
		}
	}
	ok := true
	sites := 0
	for _, fn := range c.P.Funcs {
		for _, b := range fn.Blocks {
			for _, in := range b.Instrs {
				al, isAlloc := in.(*ssa.Alloc)
				if !isAlloc {
					continue
				}
				n := namedOfPtr(al.Type())
				if n == nil || !views[n.Origin().Obj()] {
					continue
				}
				sites++
				if !ix.WithinNames(fn, "circuitbreaker.(*circuitBreaker).transitionTo") {
					ok = false
					c.Fail(c.fn(fn)+"#"+n.Obj().Name(), c.P.Pos(al.Pos()), fmt.Sprintf("an unlocked view of the breaker's statistics (%s) is built outside the transition function: whoever gets it reads the state without the breaker's mutex", n.Obj().Name()), "")
				}
			}
		}
	}
	if fn := c.P.Func("circuitbreaker.(*circuitBreaker).Metrics"); fn == nil {
		c.Unresolved("circuitbreaker.(*circuitBreaker).Metrics", "not found")
	} else {
		ev := NewEvaluator(c.P, EvalConfig{})
		recv := ev.Param(fn, fn.Params[0].Name())
		for _, p := range ev.Run(fn) {
			if p.Exit != ExitReturn || len(p.Rets) != 1 || p.Rets[0] != recv || len(impure(p)) != 0 {
				ok = false
				c.Fail(c.fn(fn), c.P.FuncPos(fn), "Metrics() must hand out the breaker itself, whose accessors take the mutex", pathTrace(ev, p))
			}
		}
	}
	if ok {
		c.Ok("circuitbreaker#metrics-views", "", fmt.Sprintf("%d unlocked view type(s), %d construction site(s), all inside transitionTo; Metrics() returns the breaker", len(views), sites))
	}
}

// c03Metrics: the metrics / delay API delegates to the matching accessor of the current state, the rate
// formulas and the stats factory are as documented.
func c03Metrics(c *Ctx) {
	c.Rule("metrics")
	for api, inner := range map[string]string{"Executions": "executionCount", "Failures": "failureCount", "FailureRate": "failureRate", "Successes": "successCount", "SuccessRate": "successRate",
		"State": "state", "RemainingDelay": "remainingDelay"} {
		fn := c.P.Func("circuitbreaker.(*circuitBreaker)." + api)
		if fn == nil {
			c.Unresolved("circuitbreaker.(*circuitBreaker)."+api, "not found")
			continue
		}
		ev := NewEvaluator(c.P, EvalConfig{Pure: func(e *Event) bool { return false }})
		ok := true
		ps := ev.Run(fn)
		st := ev.LoadField(ev.NewState(), ev.Param(fn, fn.Params[0].Name()), "state")
		for _, p := range ps {
			mid, env := lockEnvelopeShared(p, "mtx")
			if !env || len(mid) != 1 || !isCall(mid[0], inner) || mid[0].Recv != st || p.Exit != ExitReturn || p.Rets[0] != mid[0].Res[0] {
				ok = false
				c.Fail(c.fn(fn), c.P.FuncPos(fn), api+"() must be, under the breaker's mutex, exactly the current state's "+inner+"()", pathTrace(ev, p))
			}
		}
		if ok && len(ps) > 0 {
			c.Ok(c.fn(fn), c.P.FuncPos(fn), "Lock; defer Unlock; state."+inner+"()")
		}
	}
	for api, want := range map[string]string{"IsOpen": "OpenState", "IsHalfOpen": "HalfOpenState", "IsClosed": "ClosedState"} {
		fn := c.P.Func("circuitbreaker.(*circuitBreaker)." + api)
		if fn == nil {
			c.Unresolved("circuitbreaker.(*circuitBreaker)."+api, "not found")
			continue
		}
		ev := NewEvaluator(c.P, EvalConfig{DecideReturns: true, Opaque: map[string]bool{"State": true}, Pure: func(e *Event) bool { return e.Method == "State" }})
		ts := ev.TS
		ok := true
		sc := stateConst(c, ts, want)
		ps := ev.Run(fn)
		for _, p := range ps {
			stc := eventsWhere(p, func(e *Event) bool { return isCall(e, "State") })
			if len(stc) != 1 || sc == nil || p.State.Facts.Truth(ts, p.Rets[0]) != p.State.Facts.Truth(ts, ts.Cmp("==", stc[0].Res[0], sc)) || p.State.Facts.Truth(ts, p.Rets[0]) == triU {
				ok = false
				c.Fail(c.fn(fn), c.P.FuncPos(fn), api+"() must be State() == "+want, pathTrace(ev, p))
			}
		}
		if ok && len(ps) > 0 {
			c.Ok(c.fn(fn), c.P.FuncPos(fn), "State() == "+want)
		}
	}
	// state identities and remaining delay
	for typ, want := range map[string]string{"closedState": "ClosedState", "openState": "OpenState", "halfOpenState": "HalfOpenState"} {
		fn := c.P.Func("circuitbreaker.(*" + typ + ").state")
		if fn == nil {
			c.Unresolved("circuitbreaker.(*"+typ+").state", "not found")
			continue
		}
		ev := NewEvaluator(c.P, EvalConfig{})
		ok := true
		sc := stateConst(c, ev.TS, want)
		for _, p := range ev.Run(fn) {
			if p.Exit != ExitReturn || p.Rets[0] != sc {
				ok = false
				c.Fail(c.fn(fn), c.P.FuncPos(fn), typ+".state() must be "+want, pathTrace(ev, p))
			}
		}
		if ok {
			c.Ok(c.fn(fn), c.P.FuncPos(fn), want)
		}
		rd := c.P.Func("circuitbreaker.(*" + typ + ").remainingDelay")
		if rd == nil {
			// promoted from an embedded base the states share
			if n := c.P.NamedType("circuitbreaker", typ); n != nil {
				rd = c.P.MethodOf(n, "remainingDelay")
			}
		}
		if rd == nil {
			c.Unresolved("circuitbreaker.(*"+typ+").remainingDelay", "not found")
			continue
		}
		ev2 := NewEvaluator(c.P, EvalConfig{})
		ts := ev2.TS
		ok2 := true
		for _, p := range ev2.Run(rd) {
			r := p.Rets[0]
			if typ != "openState" {
				if !isZeroInt(r) {
					ok2 = false
					c.Fail(c.fn(rd), c.P.FuncPos(rd), "a breaker that is not open has no remaining delay (0)", pathTrace(ev2, p))
				}
				continue
			}
			s := ev2.Param(rd, rd.Params[0].Name())
			start, delay := ev2.LoadField(ev2.NewState(), s, "startTime"), ev2.LoadField(ev2.NewState(), s, "delay")
			if start == nil || delay == nil {
				ok2 = false
				c.Unresolved("circuitbreaker.openState.startTime/delay", "fields not found")
				break
			}
			var now *T
			for _, e := range p.Events() {
				if isCall(e, "CurrentUnixNano") {
					now = e.Res[0]
				}
			}
			good := now != nil && r.Op == "app" && r.Aux == "max" && len(r.Args) == 2
			if good {
				other := r.Args[0]
				if isZeroInt(other) {
					other = r.Args[1]
				}
				good = other == ts.Sub(delay, ts.Sub(now, start, delay.Typ), delay.Typ)
			}
			if !good {
				ok2 = false
				c.Fail(c.fn(rd), c.P.FuncPos(rd), "the remaining delay of an open breaker must be max(0, delay − (clock − openedAt))", pathTrace(ev2, p))
			}
		}
		if ok2 {
			c.Ok(c.fn(rd), c.P.FuncPos(rd), "remaining delay as documented")
		}
	}
	// stats factory
	if fn := c.P.Func("circuitbreaker.newStats"); fn == nil {
		// no stats factory: which kind of stats a state starts with is then decided where the states are built (the
		// constructors rule checks the leaf constructors directly); both leaves must exist
		if c.P.Func("circuitbreaker.newTimedStats") == nil || c.P.Func("circuitbreaker.newCountingStats") == nil {
			c.Unresolved("circuitbreaker.newStats", "not found")
		} else {
			c.Ok("circuitbreaker.newStats", "", "no stats factory: the kind of stats is decided at the state constructors (constructors rule)")
		}
	} else {
		ev := NewEvaluator(c.P, EvalConfig{})
		ts := ev.TS
		ok := true
		cfg := ev.Param(fn, fn.Params[0].Name())
		period := ev.LoadField(ev.NewState(), cfg, "failureThresholdingPeriod")
		timeBased := ev.Param(fn, "supportsTimeBased")
		paths := ev.Run(fn)
		if cfg == nil || period == nil || timeBased == nil {
			ok = false
			c.Unresolved("circuitbreaker.newStats", "the configuration / time-based flag parameters of the stats factory are not found")
			paths = nil
		}
		for _, p := range paths {
			tb := triAnd(p.State.Facts.Truth(ts, timeBased), p.State.Facts.Truth(ts, ts.Cmp("!=", period, ts.LinConst(0, period.Typ))))
			nt := eventsWhere(p, func(e *Event) bool { return isCall(e, "newTimedStats") })
			nc := eventsWhere(p, func(e *Event) bool { return isCall(e, "newCountingStats") })
			switch tb {
			case triT:
				if len(nt) != 1 || len(nc) != 0 || nt[0].Args[1] != period || loadedField(nt[0].Args[2]) != "clock" || p.Rets[0] != nt[0].Res[0] {
					ok = false
					c.Fail(c.fn(fn), c.P.FuncPos(fn), "time-based thresholding (supported ∧ period≠0) must use timed stats over the configured period and clock", pathTrace(ev, p))
				}
			case triF:
				if len(nc) != 1 || len(nt) != 0 || nc[0].Args[0] != ev.Param(fn, "capacity") || p.Rets[0] != nc[0].Res[0] {
					ok = false
					c.Fail(c.fn(fn), c.P.FuncPos(fn), "count-based thresholding must use counting stats of the given capacity", pathTrace(ev, p))
				}
			default:
				ok = false
				c.Fail(c.fn(fn), c.P.FuncPos(fn), "the kind of stats does not depend on (time-based supported ∧ thresholding period configured)", pathTrace(ev, p))
			}
		}
		if ok {
			c.Ok(c.fn(fn), c.P.FuncPos(fn), "timed stats iff supported ∧ period≠0, else counting stats of the capacity")
		}
	}
	// rates: 0 when empty, else round(part / total * 100)
	for _, sp := range []struct{ fn, part string }{{"circuitbreaker.(*countingStats).failureRate", "failures"}, {"circuitbreaker.(*countingStats).successRate", "successes"},
		{"circuitbreaker.(*timedStats).failureRate", "failures"}, {"circuitbreaker.(*timedStats).successRate", "successes"}} {
		fn := c.P.Func(sp.fn)
		if fn == nil {
			c.Unresolved(sp.fn, "not found")
			continue
		}
		ev := NewEvaluator(c.P, EvalConfig{Opaque: map[string]bool{"executionCount": true}})
		ts := ev.TS
		ok := true
		sawZero, sawRate := false, false
		for _, p := range ev.Run(fn) {
			if p.Exit != ExitReturn {
				continue
			}
			r := p.Rets[0]
			if isZeroInt(r) {
				sawZero = true
				continue
			}
			sawRate = true
			rd := eventsWhere(p, func(e *Event) bool { return isCall(e, "Round") })
			good := len(rd) == 1 && r.Contains(rd[0].Res[0])
			if good {
				a := rd[0].Args[0] // (part/total)*100
				good = a.Op == "bin" && a.Aux == "*" && (a.Args[0].String() == "100" || a.Args[1].String() == "100")
				if good {
					q := a.Args[0]
					if q.String() == "100" {
						q = a.Args[1]
					}
					den := q.Args[1].String()
					good = q.Op == "bin" && q.Aux == "/" && strings.Contains(q.Args[0].String(), sp.part) && (strings.Contains(den, "occupiedBits") || strings.Contains(den, "executionCount") ||
						// the execution count written out: successes + failures of the same summary
						(strings.Contains(den, "successes") && strings.Contains(den, "failures") && strings.Contains(den, "+")))
				}
			}
			if !good {
				ok = false
				c.Fail(sp.fn, c.P.FuncPos(fn), "a rate must be round("+sp.part+" / executions × 100), and 0 when there are no executions", pathTrace(ev, p))
			}
			_ = ts
		}
		if ok && sawZero && sawRate {
			c.Ok(sp.fn, c.P.FuncPos(fn), "0 when empty, else round("+sp.part+"/executions×100)")
		} else if ok {
			c.Fail(sp.fn, c.P.FuncPos(fn), "rate lacks the empty or the non-empty case", "")
		}
	}
}

// statsMadeDirectly: the path makes its stats with the leaf constructors themselves instead of through the stats
// factory: exactly one of newTimedStats(…, period, clock) — only where time-based thresholding is allowed and the path
// knows a period is configured — or newCountingStats(capacity) with the wanted capacity. Returns the stats object.
func statsMadeDirectly(ev *Evaluator, p *Path, period *T, timeBasedAllowed bool, capacity *T) (*T, bool) {
	ts := ev.TS
	nt := eventsWhere(p, func(e *Event) bool { return isCall(e, "newTimedStats") })
	nc := eventsWhere(p, func(e *Event) bool { return isCall(e, "newCountingStats") })
	if len(nt)+len(nc) != 1 || capacity == nil {
		return nil, false
	}
	tb := triF
	if timeBasedAllowed {
		if period == nil {
			return nil, false
		}
		tb = p.State.Facts.Truth(ts, ts.Cmp("!=", period, ts.LinConst(0, period.Typ)))
	}
	switch tb {
	case triT:
		if len(nt) == 1 && len(nt[0].Args) >= 3 && nt[0].Args[1] == period && loadedField(nt[0].Args[2]) == "clock" {
			return nt[0].Res[0], true
		}
	case triF:
		if len(nc) == 1 && len(nc[0].Args) >= 1 && sameUnder(ev, p.State.Facts, nc[0].Args[0], capacity) {
			return nc[0].Res[0], true
		}
	}
	return nil, false
}
