package main

// The execution object's internal protocol (RecordResult / InitializeRetry / Cancel / IsCanceledWithResult,
// the copy constructors, counters) and the async result object. Shared by C07, C08, C09, C14, C15, C17.

import (
	"fmt"
	"strings"

	"golang.org/x/tools/go/ssa"
)

// lockEnvelope checks that the impure events of p start with Lock(mtx); defer Unlock(mtx) and end with
// Unlock(mtx); returns the events in between.
// lockEnvelopeShared: the envelope of a pure reader: the exclusive mode, or the shared mode of a sync.RWMutex.
func lockEnvelopeShared(p *Path, mtxField string) ([]*Event, bool) {
	if mid, ok := lockEnvelope(p, mtxField); ok {
		return mid, true
	}
	return lockEnvelopeMode(p, mtxField, "RLock", "RUnlock")
}

func lockEnvelope(p *Path, mtxField string) ([]*Event, bool) {
	return lockEnvelopeMode(p, mtxField, "Lock", "Unlock")
}

func lockEnvelopeMode(p *Path, mtxField, lockName, unlockName string) ([]*Event, bool) {
	evs := impure(p)
	if len(evs) < 3 {
		return nil, false
	}
	isMtx := func(e *Event) bool {
		r := e.Recv
		if r == nil {
			return false
		}
		if r.Op == "faddr" && FieldName(r.Aux) == mtxField {
			return true
		}
		return loadedField(r) == mtxField
	}
	if !(isCall(evs[0], lockName) && isMtx(evs[0])) {
		return nil, false
	}
	last := evs[len(evs)-1]
	if !(isCall(last, unlockName) && isMtx(last)) {
		return nil, false
	}
	if !(evs[1].Kind == EvDefer && evs[1].Method == unlockName && isMtx(evs[1])) {
		// Lock … Unlock written out: the same envelope when nothing else touches the mutex in between and the path
		// returns (the unlock rule decides separately whether anything in between could leave it locked)
		for _, e := range evs[1 : len(evs)-1] {
			if (isCall(e, "Lock") || isCall(e, "Unlock") || isCall(e, "RLock") || isCall(e, "RUnlock") || e.Kind == EvDefer) && isMtx(e) {
				return nil, false
			}
		}
		if p.Exit != ExitReturn {
			return nil, false
		}
		return evs[1 : len(evs)-1], true
	}
	return evs[2 : len(evs)-1], true
}

func fieldStore(e *Event, base *T, field string) bool {
	return e.Kind == EvStore && e.Addr.Op == "faddr" && rootedAt(e.Addr, base) && FieldName(e.Addr.Aux) == field
}

// execStateMethods checks the selected methods of failsafe.(*execution) against their specification.
// cancelTestHelper resolves the unlocked cancellation-test helper by its role: the single in-package
// function the exported IsCanceledWithResult calls under the lock (robust to renaming the helper).
func cancelTestHelper(c *Ctx) string {
	fn := c.P.Func("failsafe.(*execution).IsCanceledWithResult")
	if fn == nil {
		return "isCanceledWithResult"
	}
	name := ""
	for _, b := range fn.Blocks {
		for _, in := range b.Instrs {
			if cc, ok := in.(ssa.CallInstruction); ok {
				if _, isDefer := in.(*ssa.Defer); isDefer {
					continue
				}
				if cal := calleeOf(cc.Common()); cal != nil && c.P.InScope[cal] && cal.Pkg == fn.Pkg {
					name = canonName(cal)
				}
			}
		}
	}
	if name == "" {
		return "isCanceledWithResult"
	}
	return name
}

func execStateMethods(c *Ctx, which map[string]bool) {
	c.Rule("execution-protocol")
	helper := cancelTestHelper(c)
	all := which == nil
	want := func(m string) bool { return all || which[m] }
	get := func(name string) (*Evaluator, []*Path, string, string, bool) {
		fn := c.P.Func("failsafe.(*execution)." + name)
		if fn == nil {
			c.Unresolved("failsafe.(*execution)."+name, "not found")
			return nil, nil, "", "", false
		}
		// the result constructors of package internal (FailureResult) are evaluated in place: a hand-built
		// &PolicyResult{Error: err, Done: true} and internal.FailureResult(err) are the same value
		ev := NewEvaluator(c.P, EvalConfig{Opaque: map[string]bool{helper: true}, InlineClosures: true, Inline: inlinePkgs(c.P, "internal")})
		ps := ev.Run(fn)
		if ev.Err != nil || len(ps) == 0 {
			c.Undecided(c.fn(fn), c.P.FuncPos(fn), fmt.Sprintf("evaluation failed: %v", ev.Err), "")
			return nil, nil, "", "", false
		}
		return ev, ps, c.fn(fn), c.P.FuncPos(fn), true
	}
	recvOf := func(ev *Evaluator, name string) *T {
		fn := c.P.Func("failsafe.(*execution)." + name)
		return ev.Param(fn, fn.Params[0].Name())
	}

	if want("isCanceledWithResult") || want("RecordResult") || want("InitializeRetry") || want("Cancel") || want("IsCanceledWithResult") {
		if ev, ps, name, pos, okk := get(helper); okk {
			ts := ev.TS
			e := recvOf(ev, helper)
			ctx := ev.LoadField(ev.NewState(), e, "ctx")
			box := ev.LoadField(ev.NewState(), e, "canceledResult")
			ok := ctx != nil && box != nil
			seen := map[string]bool{}
			for _, p := range ps {
				bad := func(msg string) {
					ok = false
					c.Fail(name, pos, msg, pathTrace(ev, p))
				}
				if p.Exit != ExitReturn || len(p.Rets) != 2 || len(impure(p)) != 0 {
					bad("the cancellation test must be a pure read of the context and the stored cancel result")
					continue
				}
				var errv *T
				for _, x := range p.Events() {
					if isCall(x, "Err") && x.Recv == ctx {
						errv = x.Res[0]
					}
				}
				if errv == nil {
					bad("cancellation must be decided by the execution's own context (ctx.Err())")
					continue
				}
				done := p.State.Facts.Truth(ts, ts.Cmp("!=", errv, ts.Nil(nil)))
				stored := ev.load(p.State, box, nil)
				switch done {
				case triF:
					seen["live"] = true
					if !isFalse(p.Rets[0]) || !p.Rets[1].IsNilConst() {
						bad("an execution whose context is not done is not cancelled: must return (false, nil)")
					}
				case triT:
					if !isTrue(p.Rets[0]) {
						bad("an execution whose context is done is cancelled: must return true")
						continue
					}
					has := p.State.Facts.Truth(ts, ts.Cmp("!=", stored, ts.Nil(nil)))
					switch has {
					case triT:
						seen["stored"] = true
						if p.Rets[1] != stored {
							bad("when a cancel result was stored (Timeout / ExecutionResult.Cancel) it must be reported as the cause")
						}
					case triF:
						seen["ctx"] = true
						r := p.Rets[1]
						er := ev.LoadField(p.State, r, "Error")
						if r.Op != "alloc" || er == nil || !(er.Op == "app" && hasPrefix(er.Aux, "Err@") && er.Args[0] == ctx) || !isTrue(ev.LoadField(p.State, r, "Done")) {
							bad("with no stored cancel result the cause must be the context's error: {Error: ctx.Err(), Done: true}")
						}
					default:
						bad("path does not depend on whether a cancel result is stored")
					}
				default:
					bad("path does not depend on the context's state")
				}
			}
			if ok && seen["live"] && seen["stored"] && seen["ctx"] {
				c.Ok(name, pos, "ctx.Err()==nil ⇒ (false,nil); else (true, stored cancel result if any, else {Error: ctx.Err(), Done: true}); no side effects")
			} else if ok {
				c.Fail(name, pos, "cancellation test lacks a case", "")
			}
		}
	}

	if want("IsCanceledWithResult") {
		if ev, ps, name, pos, okk := get("IsCanceledWithResult"); okk {
			ok := true
			for _, p := range ps {
				mid, env := lockEnvelopeShared(p, "mtx") // a pure read of the context and the stored cancel result
				if !env || len(mid) != 1 || !isCall(mid[0], helper) || p.Exit != ExitReturn || len(p.Rets) != 2 || p.Rets[0] != mid[0].Res[0] || p.Rets[1] != mid[0].Res[1] {
					ok = false
					c.Fail(name, pos, "must be: Lock; defer Unlock; return isCanceledWithResult()", pathTrace(ev, p))
				}
			}
			if ok {
				c.Ok(name, pos, "locked wrapper around the cancellation test")
			}
		}
	}

	if want("RecordResult") {
		if ev, ps, name, pos, okk := get("RecordResult"); okk {
			ts := ev.TS
			e := recvOf(ev, "RecordResult")
			fn := c.P.Func("failsafe.(*execution).RecordResult")
			res := ev.Param(fn, fn.Params[1].Name())
			ok := true
			seen := map[string]bool{}
			for _, p := range ps {
				bad := func(msg string) {
					ok = false
					c.Fail(name, pos, msg, pathTrace(ev, p))
				}
				mid, env := lockEnvelope(p, "mtx")
				if !env || len(mid) == 0 || !isCall(mid[0], helper) || p.Exit != ExitReturn {
					bad("must lock the execution (deferred unlock) and test cancellation first")
					continue
				}
				cv := p.State.Facts.Truth(ts, mid[0].Res[0])
				switch cv {
				case triT:
					seen["cancelled"] = true
					if len(mid) != 1 || p.Rets[0] != mid[0].Res[1] {
						bad("a cancelled execution must return the cancel result and record nothing")
					}
				case triF:
					hasRes := p.State.Facts.Truth(ts, ts.Cmp("!=", res, ts.Nil(nil)))
					if !p.Rets[0].IsNilConst() {
						bad("a live execution must return nil")
						continue
					}
					switch hasRes {
					case triT:
						seen["recorded"] = true
						var sr, se *Event
						for _, x := range mid[1:] {
							if fieldStore(x, e, "lastResult") {
								sr = x
							} else if fieldStore(x, e, "lastError") {
								se = x
							} else {
								bad("unexpected effect while recording a result")
							}
						}
						if sr == nil || se == nil || sr.Val != ev.LoadField(ev.NewState(), res, "Result") || se.Val != ev.LoadField(ev.NewState(), res, "Error") {
							bad("recording must overwrite both lastResult and lastError with the recorded outcome's Result and Error (the most recent completed attempt)")
						}
					case triF:
						seen["nil"] = true
						if len(mid) != 1 {
							bad("a nil result records nothing")
						}
					default:
						bad("path does not depend on whether a result is given")
					}
				default:
					bad("path does not depend on the cancellation test")
				}
			}
			if ok && seen["cancelled"] && seen["recorded"] {
				c.Ok(name, pos, "locked; cancelled ⇒ cancel result, nothing recorded; else lastResult and lastError both overwritten, nil returned")
			} else if ok {
				c.Fail(name, pos, "RecordResult lacks a case", "")
			}
		}
	}

	if want("InitializeRetry") {
		if ev, ps, name, pos, okk := get("InitializeRetry"); okk {
			ts := ev.TS
			e := recvOf(ev, "InitializeRetry")
			s0 := ev.NewState()
			attempts, retries := ev.LoadField(s0, e, "attempts"), ev.LoadField(s0, e, "retries")
			box := ev.LoadField(s0, e, "canceledResult")
			ok := attempts != nil && retries != nil && box != nil
			seen := map[string]bool{}
			for _, p := range ps {
				bad := func(msg string) {
					ok = false
					c.Fail(name, pos, msg, pathTrace(ev, p))
				}
				mid, env := lockEnvelope(p, "mtx")
				if !env || len(mid) == 0 || !isCall(mid[0], helper) || p.Exit != ExitReturn {
					bad("must lock the execution (deferred unlock) and test cancellation before anything else: the test and the reset of the stored cancel result must be one critical section")
					continue
				}
				cv := p.State.Facts.Truth(ts, mid[0].Res[0])
				switch cv {
				case triT:
					seen["cancelled"] = true
					if len(mid) != 1 || p.Rets[0] != mid[0].Res[1] {
						bad("a cancelled execution must return the cancel result: no counter is bumped and the stored cancel result is kept")
					}
				case triF:
					seen["live"] = true
					if !p.Rets[0].IsNilConst() {
						bad("a live execution must return nil")
						continue
					}
					var addA, addR []*Event
					var stTime, stBox *Event
					var now *T
					for _, x := range p.Events() {
						if isCall(x, "Now") { // reading the clock is not an effect: it is not among the events of mid
							now = x.Res[0]
						}
					}
					for _, x := range mid[1:] {
						switch {
						case isCall(x, "Add") && x.Recv == attempts:
							addA = append(addA, x)
						case isCall(x, "Add") && x.Recv == retries:
							addR = append(addR, x)
						case isCall(x, "Now"):
							now = x.Res[0]
						case fieldStore(x, e, "attemptStartTime"):
							stTime = x
						case x.Kind == EvStore && x.Addr == box:
							stBox = x
						default:
							bad(fmt.Sprintf("unexpected effect while initialising a retry: %s", x))
						}
					}
					one := func(x *Event) bool { k, isC := x.Args[0].IsConstInt(); return isC && k == 1 }
					if len(addA) != 1 || !one(addA[0]) {
						bad("starting a retry must bump attempts by exactly one")
						continue
					}
					// retries +1 (paired with attempts); the only accepted guard is a test of the attempts bump's own result > 1
					if len(addR) > 1 || (len(addR) == 1 && !one(addR[0])) {
						bad("starting a retry must bump retries by exactly one")
						continue
					}
					if len(addR) == 0 {
						g := p.State.Facts.Truth(ts, ts.Cmp(">", addA[0].Res[0], ts.LinConst(1, addA[0].Res[0].Typ)))
						if g != triF {
							bad("retries is not bumped although attempts was (Attempts = 1 + Retries + Hedges would break)")
						}
						// attempts.Add(1) ≤ 1 cannot happen (the constructor starts attempts at 1): tolerated guard
					}
					if stTime == nil || now == nil || stTime.Val != now {
						bad("the attempt start time must be reset to time.Now()")
					}
					if stBox == nil || !stBox.Val.IsNilConst() {
						bad("the stored cancel result of the previous attempt must be cleared (after the cancellation test, in the same critical section)")
					}
				default:
					bad("path does not depend on the cancellation test")
				}
			}
			if ok && seen["cancelled"] && seen["live"] {
				c.Ok(name, pos, "locked; cancelled ⇒ cancel result, nothing changed; else attempts+1, retries+1, attemptStartTime=now, stored cancel result cleared")
			} else if ok {
				c.Fail(name, pos, "InitializeRetry lacks a case", "")
			}
		}
	}

	if want("Cancel") {
		if ev, ps, name, pos, okk := get("Cancel"); okk {
			ts := ev.TS
			e := recvOf(ev, "Cancel")
			fn := c.P.Func("failsafe.(*execution).Cancel")
			res := ev.Param(fn, fn.Params[1].Name())
			s0 := ev.NewState()
			box := ev.LoadField(s0, e, "canceledResult")
			cf := ev.LoadField(s0, e, "cancelFunc")
			ok := box != nil && cf != nil
			seen := map[string]bool{}
			for _, p := range ps {
				bad := func(msg string) {
					ok = false
					c.Fail(name, pos, msg, pathTrace(ev, p))
				}
				mid, env := lockEnvelope(p, "mtx")
				if !env || len(mid) == 0 || !isCall(mid[0], helper) || p.Exit != ExitReturn {
					bad("must lock the execution (deferred unlock) and test cancellation first")
					continue
				}
				cv := p.State.Facts.Truth(ts, mid[0].Res[0])
				if cv == triT {
					seen["already"] = true
					if len(mid) != 1 {
						bad("cancelling an already cancelled execution must change nothing (the first cause wins)")
					}
					continue
				}
				if cv != triF {
					bad("path does not depend on the cancellation test")
					continue
				}
				seen["cancel"] = true
				var stBox, sr, se, call *Event
				for _, x := range mid[1:] {
					switch {
					case x.Kind == EvStore && x.Addr == box:
						stBox = x
					case fieldStore(x, e, "lastResult"):
						sr = x
					case fieldStore(x, e, "lastError"):
						se = x
					case isDynCall(x, cf):
						call = x
					default:
						bad(fmt.Sprintf("unexpected effect in Cancel: %s", x))
					}
				}
				if stBox == nil || stBox.Val != res {
					bad("Cancel must store the given result as the execution's cancel result")
					continue
				}
				hasRes := p.State.Facts.Truth(ts, ts.Cmp("!=", res, ts.Nil(nil)))
				if hasRes != triF && (sr == nil || se == nil || sr.Val != ev.LoadField(s0, res, "Result") || se.Val != ev.LoadField(s0, res, "Error")) {
					bad("Cancel with a result must also make it the execution's last result and error (waiting policies report LastError as the cause)")
				}
				if hasRes == triF && (sr != nil || se != nil) {
					bad("Cancel(nil) must leave the last result and error alone")
				}
				hasCF := p.State.Facts.Truth(ts, ts.Cmp("!=", cf, ts.Nil(nil)))
				if hasCF == triT {
					if call == nil || call.Idx < stBox.Idx || (sr != nil && call.Idx < sr.Idx) || (se != nil && call.Idx < se.Idx) {
						bad("the context must be cancelled under the lock, after the cancel result and last outcome were stored (observers of Canceled() read them afterwards)")
					}
				} else if hasCF == triF && call != nil {
					bad("nil cancel function called")
				} else if hasCF == triU {
					bad("path does not depend on whether a cancel function is set")
				}
			}
			if ok && seen["already"] && seen["cancel"] {
				c.Ok(name, pos, "locked; already cancelled ⇒ nothing; else store cancel result (+ last result/error), then cancel the context, all under the lock")
			} else if ok {
				c.Fail(name, pos, "Cancel lacks a case", "")
			}
		}
	}

	if want("CopyWithResult") {
		if ev, ps, name, pos, okk := get("CopyWithResult"); okk {
			ts := ev.TS
			fn := c.P.Func("failsafe.(*execution).CopyWithResult")
			e := recvOf(ev, "CopyWithResult")
			res := ev.Param(fn, fn.Params[1].Name())
			ok := true
			for _, p := range ps {
				cp := eventsWhere(p, func(x *Event) bool { return isCall(x, "copy") && x.Recv == e })
				if p.Exit != ExitReturn || len(cp) != 1 || p.Rets[0] != cp[0].Res[0] {
					ok = false
					c.Fail(name, pos, "must return a private copy of the execution (e.copy())", pathTrace(ev, p))
					continue
				}
				cc := cp[0].Res[0]
				has := p.State.Facts.Truth(ts, ts.Cmp("!=", res, ts.Nil(nil)))
				lr, le := ev.LoadField(p.State, cc, "lastResult"), ev.LoadField(p.State, cc, "lastError")
				if has == triT && (lr != ev.LoadField(ev.NewState(), res, "Result") || le != ev.LoadField(ev.NewState(), res, "Error")) {
					ok = false
					c.Fail(name, pos, "the copy must carry the given result's Result and Error as last result and error", pathTrace(ev, p))
				}
				// CopyWithResult(nil) is "a copy as it is": the copy keeps the last result and error copy() gave it (the
				// listeners and delay functions that get such a copy must see the most recent completed attempt's outcome)
				if has == triF {
					for _, x := range p.Events() {
						if x.Kind == EvStore && x.Addr.Op == "faddr" && rootedAt(x.Addr, cc) && (FieldName(x.Addr.Aux) == "lastResult" || FieldName(x.Addr.Aux) == "lastError") {
							ok = false
							c.Fail(name, pos, "without a result the copy must keep the last result and error of the execution it was copied from (CopyWithResult(nil) is handed to OnFull / OnRateLimitExceeded / OnCacheMiss / OnHedge listeners and to the hedge delay function, which must still see the previous attempt's outcome)", pathTrace(ev, p))
							break
						}
					}
				}
				if has == triU {
					ok = false
					c.Fail(name, pos, "what the copy carries does not depend on whether a result is given", pathTrace(ev, p))
				}
				for _, x := range p.Events() {
					if x.Kind == EvStore && rootOf(x.Addr) == e {
						ok = false
						c.Fail(name, pos, "CopyWithResult must not modify the live execution", pathTrace(ev, p))
					}
					// the copy differs from the execution in its last result and error only: its context, cancel state and
					// counters stay the execution's (a fallback function or listener handed the copy observes the same
					// cancellation)
					if x.Kind == EvStore && x.Addr.Op == "faddr" && len(p.Rets) == 1 && rootedAt(x.Addr, p.Rets[0]) {
						if f := FieldName(x.Addr.Aux); f != "lastResult" && f != "lastError" {
							ok = false
							c.Fail(name, pos, "the copy's "+f+" is replaced: CopyWithResult may only set the last result and error (the copy must stay attached to the execution's context and cancellation)", pathTrace(ev, p))
						}
					}
				}
			}
			if ok {
				c.Ok(name, pos, "copy(); result≠nil ⇒ the copy's last result/error are the given ones, result=nil ⇒ unchanged; the live execution is untouched")
			}
		}
	}

	for _, spec := range []struct {
		m     string
		hedge bool
	}{{"CopyForCancellable", false}, {"CopyForHedge", true}} {
		if !want(spec.m) {
			continue
		}
		if ev, ps, name, pos, okk := get(spec.m); okk {
			e := recvOf(ev, spec.m)
			ok := true
			for _, p := range ps {
				bad := func(msg string) {
					ok = false
					c.Fail(name, pos, msg, pathTrace(ev, p))
				}
				cp := eventsWhere(p, func(x *Event) bool { return isCall(x, "copy") && x.Recv == e })
				wc := eventsWhere(p, func(x *Event) bool { return isCall(x, "WithCancel") })
				if p.Exit != ExitReturn || len(cp) != 1 || p.Rets[0] != cp[0].Res[0] || len(wc) != 1 {
					bad("must return e.copy() with a cancellable child context")
					continue
				}
				cc := cp[0].Res[0]
				parentCtx := wc[0].Args[0]
				if !(loadedField(parentCtx) == "ctx" && rootedAt(parentCtx.Args[0], cc)) {
					bad("the child context must derive from the execution's own context (cancellation of the parent reaches the attempt)")
				}
				if ev.LoadField(p.State, cc, "ctx") != wc[0].Res[0] || ev.LoadField(p.State, cc, "cancelFunc") != wc[0].Res[1] {
					bad("the copy must own the child context and its cancel function (so that Cancel cancels under the lock)")
				}
				// apart from its context (and the hedge flag) the copy is the parent: it shares the parent's lock, counters
				// and cancel-result slot, so that a Cancel or a timeout recorded through either is seen through both
				for _, x := range p.Events() {
					if x.Kind != EvStore || x.Addr.Op != "faddr" || !rootedAt(x.Addr, cc) {
						continue
					}
					switch f := FieldName(x.Addr.Aux); f {
					case "ctx", "cancelFunc":
					case "isHedge":
						if !spec.hedge {
							bad("a cancellable copy is not a hedge")
						}
					default:
						bad("the copy's " + f + " is replaced: a child execution must share everything but its context with the execution it was copied from (lock, counters, the slot in which a cancellation's result is stored — otherwise a cancellation recorded through the parent is not reported through the child and the caller sees a bare context error)")
					}
				}
				adds := eventsWhere(p, func(x *Event) bool { return isCall(x, "Add") })
				if !spec.hedge {
					if len(adds) != 0 {
						bad("a cancellable copy is not a new attempt: no counter may change")
					}
					if h := ev.LoadField(p.State, cc, "isHedge"); h != nil && isTrue(h) {
						bad("a cancellable copy is not a hedge")
					}
					continue
				}
				na, nh := 0, 0
				ia, ih := -1, -1
				for _, a := range adds {
					k, isC := a.Args[0].IsConstInt()
					if !isC || k != 1 {
						bad("counters must be bumped by exactly one")
					}
					switch loadedField(a.Recv) {
					case "attempts":
						na++
						ia = a.Idx
					case "hedges":
						nh++
						ih = a.Idx
					default:
						bad("a hedge copy may only bump attempts and hedges")
					}
				}
				if na != 1 || nh != 1 {
					bad(fmt.Sprintf("a hedge must count as exactly one more attempt and one more hedge (attempts+%d, hedges+%d)", na, nh))
				} else if ih < ia {
					// concurrent readers (the attempts already running) must never see more hedges than attempts account for:
					// Attempts ≥ 1 + Retries + Hedges at every instant, so IsFirstAttempt is never true once a hedge is counted
					bad("the hedge is counted before the attempt: a concurrent reader would see Attempts < 1 + Retries + Hedges")
				}
				if h := ev.LoadField(p.State, cc, "isHedge"); h == nil || !isTrue(h) {
					bad("a hedge copy must be marked IsHedge")
				}
			}
			if ok {
				c.Ok(name, pos, map[bool]string{false: "copy() + child context/cancel func; no counter changes", true: "copy() + child context; isHedge; attempts+1 and hedges+1 exactly once"}[spec.hedge])
			}
		}
	}

	if want("copy") {
		if ev, ps, name, pos, okk := get("copy"); okk {
			e := recvOf(ev, "copy")
			ok := true
			for _, p := range ps {
				evs := impure(p)
				// copy only reads the execution: the shared mode of a sync.RWMutex serves as well
				good := p.Exit == ExitReturn && len(evs) >= 2 && ((isCall(evs[0], "Lock") && isCall(evs[len(evs)-1], "Unlock")) || (isCall(evs[0], "RLock") && isCall(evs[len(evs)-1], "RUnlock"))) && p.Rets[0].Op == "alloc"
				if good {
					// every field of the copy equals the original's
					for _, f := range []string{"lastResult", "lastError", "ctx", "attempts", "retries", "hedges", "executions", "canceledResult", "mtx", "startTime", "attemptStartTime", "isHedge", "cancelFunc"} {
						if ev.LoadField(p.State, p.Rets[0], f) != ev.LoadField(ev.NewState(), e, f) {
							good = false
						}
					}
				}
				if !good {
					ok = false
					c.Fail(name, pos, "copy must snapshot the whole execution under its lock into a fresh object (shared counters and cancel state stay shared through pointers)", pathTrace(ev, p))
				}
			}
			if ok {
				c.Ok(name, pos, "Lock; c := *e; Unlock; fresh object with identical fields")
			}
		}
	}

	if want("record") && c.P.Func("failsafe.(*execution).record") != nil {
		if ev, ps, name, pos, okk := get("record"); okk {
			e := recvOf(ev, "record")
			ex := ev.LoadField(ev.NewState(), e, "executions")
			ok := true
			for _, p := range ps {
				evs := impure(p)
				if len(evs) != 1 || !isCall(evs[0], "Add") || evs[0].Recv != ex || evs[0].Args[0] != ev.TS.LinConst(1, evs[0].Args[0].Typ) {
					ok = false
					c.Fail(name, pos, "record() must add exactly one completed execution", pathTrace(ev, p))
				}
			}
			if ok {
				c.Ok(name, pos, "executions.Add(1)")
			}
		}
	}
}

// newExecutionRule: the constructor starts attempts at 1, everything else at 0, both start times at one
// time.Now(), no stored cancel result.
func newExecutionRule(c *Ctx) {
	c.Rule("new-execution")
	fn := c.P.Func("failsafe.newExecution")
	if fn == nil {
		c.Unresolved("failsafe.newExecution", "not found")
		return
	}
	ev := NewEvaluator(c.P, EvalConfig{})
	ok := true
	ps := ev.Run(fn)
	for _, p := range ps {
		bad := func(msg string) {
			ok = false
			c.Fail(c.fn(fn), c.P.FuncPos(fn), msg, pathTrace(ev, p))
		}
		if p.Exit != ExitReturn || p.Rets[0].Op != "alloc" {
			bad("must return a fresh execution")
			continue
		}
		r := p.Rets[0]
		at := ev.LoadField(p.State, r, "attempts")
		adds := eventsWhere(p, func(x *Event) bool { return isCall(x, "Add") })
		if len(adds) != 1 || adds[0].Recv != at || adds[0].Args[0] != ev.TS.LinConst(1, adds[0].Args[0].Typ) {
			bad("a new execution starts with attempts = 1 and retries = hedges = executions = 0")
		}
		seen := map[*T]bool{}
		for _, f := range []string{"attempts", "retries", "hedges", "executions"} {
			v := ev.LoadField(p.State, r, f)
			if v == nil || v.Op != "alloc" || seen[v] {
				bad("each counter must be its own fresh atomic")
			}
			seen[v] = true
		}
		now := eventsWhere(p, func(x *Event) bool { return isCall(x, "Now") })
		if len(now) != 1 || ev.LoadField(p.State, r, "startTime") != now[0].Res[0] || ev.LoadField(p.State, r, "attemptStartTime") != now[0].Res[0] {
			bad("start time and first attempt start time must be the same single time.Now()")
		}
		// (a nil context is not a context: what a defensive constructor substitutes for it is its own business)
		given := ev.Param(fn, fn.Params[0].Name())
		if ev.LoadField(p.State, r, "ctx") != given && p.State.Facts.Truth(ev.TS, ev.TS.Cmp("==", given, ev.TS.Nil(nil))) != triT {
			bad("the execution's context must be the one given")
		}
		box := ev.LoadField(p.State, r, "canceledResult")
		if box == nil {
			bad("no cancel-result cell")
			continue
		}
		if bv := ev.load(p.State, box, nil); box == nil || box.Op != "alloc" || !(bv.IsNilConst() || bv.Op == "zero") {
			bad("a new execution has no stored cancel result")
		}
		if m := ev.LoadField(p.State, r, "mtx"); m == nil || m.Op != "alloc" {
			bad("a new execution needs its own mutex")
		}
	}
	if ok && len(ps) > 0 {
		c.Ok(c.fn(fn), c.P.FuncPos(fn), "attempts=1, other counters 0, startTime=attemptStartTime=now, no cancel result, own mutex")
	}
}

// publishSeq names the steps of publishing an async result among evs: "result" (the atomic result cell receives
// res, directly or through a fresh box), "done" (the flag is set), "close" (the done channel ch is closed); anything
// else is listed as it is.
func publishSeq(ev *Evaluator, st *State, evs []*Event, ch, res *T) []string {
	var seq []string
	for _, x := range evs {
		switch {
		case isCall(x, "Store") && x.Recv != nil && x.Recv.Op == "faddr" && FieldName(x.Recv.Aux) == "result":
			seq = append(seq, "result")
			a := x.Args[0]
			if !(a == res || (a.Op == "alloc" && ev.load(st, a, nil) == res)) {
				seq = append(seq, "wrong-value")
			}
		case isCall(x, "Store") && x.Recv != nil && x.Recv.Op == "faddr" && FieldName(x.Recv.Aux) == "done":
			if isTrue(x.Args[0]) {
				seq = append(seq, "done")
			} else {
				seq = append(seq, "done=false")
			}
		case x.Kind == EvClose && x.Addr == ch:
			seq = append(seq, "close")
		default:
			seq = append(seq, "other:"+x.String())
		}
	}
	return seq
}

// ---- async result object --------------------------------------------------------------------------------

func asyncResultRules(c *Ctx) {
	c.Rule("future")
	// record: store result → done.Store(true) → close(doneChan)
	if fn := c.P.Func("failsafe.(*executionResult).record"); fn == nil {
		// the publication is written out in the async runner itself: same order, checked there
		if !runnerPublishes(c) {
			c.Unresolved("failsafe.(*executionResult).record", "not found, and the async runner does not publish the result itself")
		}
	} else {
		ev := NewEvaluator(c.P, EvalConfig{})
		ok := true
		ps := ev.Run(fn)
		e := ev.Param(fn, fn.Params[0].Name())
		ch := ev.LoadField(ev.NewState(), e, "doneChan")
		res := ev.Param(fn, fn.Params[1].Name())
		for _, p := range ps {
			evs := impure(p)
			seq := publishSeq(ev, p.State, evs, ch, res)
			if p.Exit != ExitReturn || strings.Join(seq, ",") != "result,done,close" {
				ok = false
				c.Fail(c.fn(fn), c.P.FuncPos(fn), "record must publish in this order, once each: store the result, set the done flag, close the done channel; found: "+strings.Join(seq, ", "), pathTrace(ev, p))
			}
		}
		if ok && len(ps) > 0 {
			c.Ok(c.fn(fn), c.P.FuncPos(fn), "result stored → done=true → close(doneChan)")
		}
	}
	// the done channel is closed only in record; record is called only from the async runner
	{
		ix := BuildIndex(c.P)
		rec := c.P.Func("failsafe.(*executionResult).record")
		if rec != nil {
			callers := ix.Callers[rec]
			// the one caller is the function executeAsync starts as a goroutine (closure or method)
			var runner *ssa.Function
			if ea := c.P.Func("failsafe.(*executor).executeAsync"); ea != nil {
				ev := NewEvaluator(c.P, EvalConfig{})
				for _, p := range ev.Run(ea) {
					for _, g := range eventsWhere(p, func(x *Event) bool { return x.Kind == EvGo }) {
						runner = ev.EventFn(g)
					}
				}
			}
			if len(callers) != 1 || runner == nil || callers[0] != runner {
				var ns []string
				for _, x := range callers {
					ns = append(ns, c.fn(x))
				}
				c.Fail("failsafe.(*executionResult).record#callers", "", "record must be called from exactly one place, the async runner goroutine; callers: "+strings.Join(ns, ", "), "")
			} else {
				c.Ok("failsafe.(*executionResult).record#callers", c.P.FuncPos(callers[0]), "only the async runner records")
			}
		}
	}
	// Get waits for the done channel before reading the result
	if fn := c.P.Func("failsafe.(*executionResult).Get"); fn == nil {
		c.Unresolved("failsafe.(*executionResult).Get", "not found")
	} else {
		ev := NewEvaluator(c.P, EvalConfig{})
		ts := ev.TS
		ok := true
		ps := ev.Run(fn)
		e := ev.Param(fn, fn.Params[0].Name())
		ch := ev.LoadField(ev.NewState(), e, "doneChan")
		for _, p := range ps {
			bad := func(msg string) {
				ok = false
				c.Fail(c.fn(fn), c.P.FuncPos(fn), msg, pathTrace(ev, p))
			}
			evs := p.Events()
			var recv, load *Event
			for _, x := range evs {
				if x.Kind == EvRecv && x.Addr == ch && recv == nil {
					recv = x
				}
				if isCall(x, "Load") && x.Recv.Op == "faddr" && FieldName(x.Recv.Aux) == "result" && load == nil {
					load = x
				}
			}
			if recv == nil || load == nil || load.Idx < recv.Idx {
				bad("Get must block on the done channel on every path and only then read the published result")
				continue
			}
			for _, x := range evs {
				if x.Idx < recv.Idx && !x.Pure {
					bad("nothing may precede the wait on the done channel")
				}
				if x.Idx < recv.Idx && x.Pure && isCall(x, "Load") {
					bad("a flag or result is read before the wait on the done channel (a fast path would observe the flag before the result is visible to every reader)")
				}
			}
			if p.Exit != ExitReturn || len(p.Rets) != 2 {
				continue
			}
			pp := load.Res[0]
			has := p.State.Facts.Truth(ts, ts.Cmp("!=", pp, ts.Nil(nil)))
			if has == triT {
				inner := ev.load(p.State, pp, nil)
				direct := p.Rets[0] == ev.LoadField(p.State, pp, "Result") && p.Rets[1] == ev.LoadField(p.State, pp, "Error")
				if !direct && (p.Rets[0] != ev.LoadField(p.State, inner, "Result") || p.Rets[1] != ev.LoadField(p.State, inner, "Error")) {
					bad("Get must return the recorded result's Result and Error")
				}
			}
		}
		if ok && len(ps) > 0 {
			c.Ok(c.fn(fn), c.P.FuncPos(fn), "<-doneChan first, then the recorded Result and Error")
		}
	}
	for _, spec := range []struct {
		m   string
		idx int
	}{{"Result", 0}, {"Error", 1}} {
		fn := c.P.Func("failsafe.(*executionResult)." + spec.m)
		if fn == nil {
			c.Unresolved("failsafe.(*executionResult)."+spec.m, "not found")
			continue
		}
		ev := NewEvaluator(c.P, EvalConfig{})
		ok := true
		ps := ev.Run(fn)
		for _, p := range ps {
			g := eventsWhere(p, func(x *Event) bool { return isCall(x, "Get") })
			if p.Exit != ExitReturn || len(g) != 1 || p.Rets[0] != g[0].Res[spec.idx] || len(impure(p)) != 1 {
				ok = false
				c.Fail(c.fn(fn), c.P.FuncPos(fn), spec.m+"() must be exactly Get()'s value", pathTrace(ev, p))
			}
		}
		if ok && len(ps) > 0 {
			c.Ok(c.fn(fn), c.P.FuncPos(fn), "delegates to Get")
		}
	}
	if fn := c.P.Func("failsafe.(*executionResult).IsDone"); fn == nil {
		c.Unresolved("failsafe.(*executionResult).IsDone", "not found")
	} else {
		ev := NewEvaluator(c.P, EvalConfig{})
		ok := true
		ps := ev.Run(fn)
		for _, p := range ps {
			r := p.Rets[0]
			if p.Exit != ExitReturn || !(r.Op == "app" && hasPrefix(r.Aux, "Load@") && r.Args[0].Op == "faddr" && FieldName(r.Args[0].Aux) == "done") || len(impure(p)) != 0 {
				ok = false
				c.Fail(c.fn(fn), c.P.FuncPos(fn), "IsDone must be the done flag", pathTrace(ev, p))
			}
		}
		if ok && len(ps) > 0 {
			c.Ok(c.fn(fn), c.P.FuncPos(fn), "done.Load()")
		}
	}
	if fn := c.P.Func("failsafe.(*executionResult).Done"); fn == nil {
		c.Unresolved("failsafe.(*executionResult).Done", "not found")
	} else {
		ev := NewEvaluator(c.P, EvalConfig{})
		ok := true
		ps := ev.Run(fn)
		for _, p := range ps {
			if p.Exit != ExitReturn || loadedField(p.Rets[0]) != "doneChan" || len(impure(p)) != 0 {
				ok = false
				c.Fail(c.fn(fn), c.P.FuncPos(fn), "Done must return the done channel", pathTrace(ev, p))
			}
		}
		if ok && len(ps) > 0 {
			c.Ok(c.fn(fn), c.P.FuncPos(fn), "returns doneChan (receive-only by its type)")
		}
	}
	// Cancel: execution.Cancel({ErrExecutionCanceled, Done}) then the context's cancel func
	if fn := c.P.Func("failsafe.(*executionResult).Cancel"); fn == nil {
		c.Unresolved("failsafe.(*executionResult).Cancel", "not found")
	} else {
		ev := NewEvaluator(c.P, EvalConfig{})
		ok := true
		ps := ev.Run(fn)
		for _, p := range ps {
			cs := eventsWhere(p, func(x *Event) bool { return isCall(x, "Cancel") })
			if len(cs) != 1 || loadedField(cs[0].Recv) != "execution" || !isFailureAlloc(ev, p, cs[0].Args[0], func(e *T) bool { return isGlobal(e, "ErrExecutionCanceled") }) {
				ok = false
				c.Fail(c.fn(fn), c.P.FuncPos(fn), "ExecutionResult.Cancel must cancel the execution with {Error: ErrExecutionCanceled, Done: true}", pathTrace(ev, p))
			}
		}
		if ok && len(ps) > 0 {
			c.Ok(c.fn(fn), c.P.FuncPos(fn), "execution.Cancel({ErrExecutionCanceled, Done:true})")
		}
	}
}

// ctorStoresArg: the constructor called by event e stores, on every path, the value it receives as the k-th entry
// of e's (normalised) argument list into the named field of the object it returns.
func ctorStoresArg(c *Ctx, ctor *ssa.Function, e *Event, k int, field string) bool {
	if ctor == nil || len(ctor.Blocks) == 0 {
		return false
	}
	// which actual parameter receives that argument: the raw argument list is positional
	raw := e.RawArgs
	if !e.Normalised {
		raw = e.Args
	}
	want := fullArgs(e)[k]
	pi := -1
	off := 0
	if ctor.Signature.Recv() != nil {
		off = 1
	}
	for i, a := range raw {
		if a == want {
			pi = i + off
		}
	}
	if pi < 0 || pi >= len(ctor.Params) {
		return false
	}
	ev := NewEvaluator(c.P, EvalConfig{})
	prm := ev.TS.intern(&T{Op: "param", Aux: ctor.Params[pi].Name(), Typ: ctor.Params[pi].Type()})
	ps := ev.Run(ctor)
	if ev.Err != nil || len(ps) == 0 {
		return false
	}
	for _, p := range ps {
		if p.Exit != ExitReturn || len(p.Rets) == 0 || ev.LoadField(p.State, p.Rets[0], field) != prm {
			return false
		}
	}
	return true
}

// executeAsyncRule: the root async execution owns its cancel function (so Cancel is atomic with the
// stored cause), the result object is wired to it, and the runner goroutine records execute's value last.
func executeAsyncRule(c *Ctx) {
	c.Rule("atomic-cancel")
	fn := c.P.Func("failsafe.(*executor).executeAsync")
	if fn == nil {
		c.Unresolved("failsafe.(*executor).executeAsync", "not found")
		return
	}
	ev := NewEvaluator(c.P, EvalConfig{})
	ts := ev.TS
	ps := ev.Run(fn)
	name, pos := c.fn(fn), c.P.FuncPos(fn)
	if ev.Err != nil || len(ps) == 0 {
		c.Undecided(name, pos, fmt.Sprintf("evaluation failed: %v", ev.Err), "")
		return
	}
	okCancel, okWire, okRun := true, true, true
	for _, p := range ps {
		ne := eventsWhere(p, func(x *Event) bool { return isCall(x, "newExecution") })
		wc := eventsWhere(p, func(x *Event) bool { return isCall(x, "WithCancel") })
		gos := eventsWhere(p, func(x *Event) bool { return x.Kind == EvGo })
		if p.Exit != ExitReturn || len(ne) != 1 || len(gos) != 1 || p.Rets[0].Op != "alloc" {
			okWire = false
			c.Fail(name+"#wiring", pos, "executeAsync must create one execution, one result object and one runner goroutine", pathTrace(ev, p))
			continue
		}
		exec := ne[0].Res[0]
		r := p.Rets[0]
		if len(wc) == 1 {
			if ne[0].Args[0] != wc[0].Res[0] {
				okCancel = false
				c.Fail(name, pos, "the async execution must run under the cancellable child context created for it", pathTrace(ev, p))
			}
			cf := ev.LoadField(p.State, exec, "cancelFunc")
			threaded := false
			for k, a := range fullArgs(ne[0]) {
				// handed to the constructor, which stores it (checked on the constructor's own summary)
				if a == wc[0].Res[1] && ctorStoresArg(c, ne[0].Fn, ne[0], k, "cancelFunc") {
					threaded = true
				}
			}
			if cf != wc[0].Res[1] && !threaded {
				okCancel = false
				c.Fail(name, pos, "the root execution of an async run must own its context's cancel function: otherwise ExecutionResult.Cancel stores ErrExecutionCanceled under the lock but cancels the context after releasing it, and a retry being initialised in between wipes the cause (the caller then sees a bare context.Canceled)", pathTrace(ev, p))
			}
		} else if p.State.Facts.Truth(ts, ts.Cmp("!=", ev.LoadField(ev.NewState(), ev.Param(fn, fn.Params[0].Name()), "ctx"), ts.Nil(nil))) != triF {
			okCancel = false
			c.Fail(name, pos, "an async execution with a context must get a cancellable child context", pathTrace(ev, p))
		}
		if ev.LoadField(p.State, r, "execution") != exec {
			okWire = false
			c.Fail(name+"#wiring", pos, "the ExecutionResult must refer to the execution that is run", pathTrace(ev, p))
		}
		dc := ev.LoadField(p.State, r, "doneChan")
		if dc == nil || dc.Op != "makechan" {
			okWire = false
			c.Fail(name+"#wiring", pos, "the ExecutionResult needs a fresh done channel", pathTrace(ev, p))
		}
		// runner
		g := gos[0]
		if ev.EventFn(g) == nil || g.Snap == nil {
			okRun = false
			c.Undecided(name+"#runner", pos, "runner goroutine not resolvable", "")
			continue
		}
		for _, q := range ev.RunEvent(g.Snap, g, nil) {
			evs := impure(q)
			var own []*Event
			for _, x := range evs {
				if x.Idx >= q.Base {
					own = append(own, x)
				}
			}
			written := false
			if len(own) == 4 && isCall(own[0], "execute") && q.Exit == ExitReturn && own[0].Args[1] == exec && own[0].Args[0] == ev.Param(fn, "fn") {
				// record's three steps written out in the runner, on the result object itself
				onR := true
				for _, x := range own[1:3] {
					if x.Recv == nil || x.Recv.Op != "faddr" || x.Recv.Args[0] != r {
						onR = false
					}
				}
				written = onR && strings.Join(publishSeq(ev, q.State, own[1:], ev.LoadField(q.State, r, "doneChan"), own[0].Res[0]), ",") == "result,done,close"
			}
			if !written && (q.Exit != ExitReturn || len(own) != 2 || !isCall(own[0], "execute") || own[0].Args[1] != exec || own[0].Args[0] != ev.Param(fn, "fn") ||
				!isCall(own[1], "record") || own[1].Recv != r || own[1].Args[0] != own[0].Res[0]) {
				okRun = false
				c.Fail(name+"#runner", c.P.FuncPos(ev.EventFn(g)), "the runner must be exactly result.record(e.execute(fn, exec, withExec)): the same execute path as sync, its value recorded once as the goroutine's last action", pathTrace(ev, q))
			}
		}
	}
	// the shared executor is never modified by running an execution: its context and policies are written only
	// when it is built (NewExecutor) or copied (WithContext)
	ix := BuildIndex(c.P)
	for field, allowed := range map[string][]string{
		"ctx":      {"failsafe.NewExecutor", "failsafe.(*executor).WithContext"},
		"policies": {"failsafe.NewExecutor"},
	} {
		good := true
		for _, wa := range ix.WriteAccesses(FieldRef{Type: "executor", Pkg: "failsafe", Field: field}) {
			w := wa.Fn
			// a store into an executor object the function allocated itself (a constructor, a copy) cannot touch a
			// shared one
			if fa, isFA := wa.Instr.(*ssa.FieldAddr); isFA && isPrivateBase(fa.X) {
				continue
			}
			if !ix.WithinNames(w, allowed...) {
				good = false
				c.Fail("failsafe.executor."+field+"#writers", c.P.FuncPos(w), "the shared executor's "+field+" is written by "+c.fn(w)+": executions started from one executor must not affect each other (a per-execution context written back into the executor makes later executions children of an earlier one, so cancelling one cancels the others)", "")
			}
		}
		if good {
			c.Ok("failsafe.executor."+field+"#writers", "", "written only when the executor is built or copied")
		}
	}
	if okCancel {
		c.Ok(name, pos, "the root async execution owns its cancel function (Cancel is atomic with the stored cause)")
	}
	if okWire {
		c.Ok(name+"#wiring", pos, "one execution, one result object with a fresh done channel, one runner")
	}
	if okRun {
		c.Ok(name+"#runner", pos, "runner = result.record(execute(fn, exec, withExec))")
	}
}

// runnerPublishes: the goroutine executeAsync starts ends, on every path, with the publication sequence written out
// (store the result execute returned, set the done flag, close the done channel) — the form record() takes when it is
// inlined into its only caller.
func runnerPublishes(c *Ctx) bool {
	ea := c.P.Func("failsafe.(*executor).executeAsync")
	if ea == nil {
		return false
	}
	ev := NewEvaluator(c.P, EvalConfig{})
	found, good := false, true
	for _, p := range ev.Run(ea) {
		if p.Exit != ExitReturn || len(p.Rets) != 1 {
			continue
		}
		r := p.Rets[0]
		for _, g := range eventsWhere(p, func(x *Event) bool { return x.Kind == EvGo }) {
			if ev.EventFn(g) == nil || g.Snap == nil {
				return false
			}
			for _, q := range ev.RunEvent(g.Snap, g, nil) {
				var own []*Event
				for _, x := range impure(q) {
					if x.Idx >= q.Base {
						own = append(own, x)
					}
				}
				found = true
				if q.Exit != ExitReturn || len(own) != 4 || !isCall(own[0], "execute") ||
					strings.Join(publishSeq(ev, q.State, own[1:], ev.LoadField(q.State, r, "doneChan"), own[0].Res[0]), ",") != "result,done,close" {
					good = false
					c.Fail("failsafe.(*executor).executeAsync#publish", c.P.FuncPos(ev.EventFn(g)), "the async runner must publish in this order, once each, after execute returned: store the result, set the done flag, close the done channel", pathTrace(ev, q))
				}
			}
		}
	}
	if found && good {
		c.Ok("failsafe.(*executor).executeAsync#publish", c.P.FuncPos(ea), "runner: execute → result stored → done=true → close(doneChan)")
	}
	return found
}
