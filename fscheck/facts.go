package main

// Fact base of the abstract evaluator: what is assumed on the current path about opaque atoms.
//   - truth value of opaque boolean terms
//   - nil-ness of reference terms
//   - integer intervals (with excluded points) per normalised linear key  Σ c_i·x_i
//   - a subset of {<,=,>} per ordered pair of non-integer terms (floats, strings, pointers, ...)
// Deciding a condition never invents information: undecided ⇒ the evaluator forks on it.

import (
	"fmt"
	"math"
	"sort"
	"strings"
)

const (
	relLT = 1
	relEQ = 2
	relGT = 4
)

type ival struct {
	lo, hi int64
	ne     []int64
}

type Atom struct {
	Cond *T
	Val  bool
}

type Facts struct {
	bools map[*T]bool
	nils  map[*T]bool // true = nil
	ivals map[string]ival
	ikeys map[string]*linKey
	rels  map[[2]int]uint8
	relT  map[[2]int][2]*T
	Log   []Atom
}

func NewFacts() *Facts {
	return &Facts{bools: map[*T]bool{}, nils: map[*T]bool{}, ivals: map[string]ival{}, ikeys: map[string]*linKey{}, rels: map[[2]int]uint8{}, relT: map[[2]int][2]*T{}}
}

func (f *Facts) Clone() *Facts {
	g := NewFacts()
	for k, v := range f.bools {
		g.bools[k] = v
	}
	for k, v := range f.nils {
		g.nils[k] = v
	}
	for k, v := range f.ivals {
		v.ne = append([]int64(nil), v.ne...)
		g.ivals[k] = v
	}
	for k, v := range f.ikeys {
		g.ikeys[k] = v
	}
	for k, v := range f.rels {
		g.rels[k] = v
	}
	for k, v := range f.relT {
		g.relT[k] = v
	}
	g.Log = append([]Atom(nil), f.Log...)
	return g
}

// linKey is the normalised variable part of a linear form.
type linKey struct {
	syms  []*T
	coefs []int64
	str   string
}

func gcd(a, b int64) int64 {
	if a < 0 {
		a = -a
	}
	if b < 0 {
		b = -b
	}
	for b != 0 {
		a, b = b, a%b
	}
	return a
}

func floorDiv(a, b int64) int64 {
	q := a / b
	if (a%b != 0) && ((a < 0) != (b < 0)) {
		q--
	}
	return q
}
func ceilDiv(a, b int64) int64 { return -floorDiv(-a, b) }

// normalise returns key, multiplier m and constant c such that L = m·key + c, m != 0.
func normLin(l *Lin) (*linKey, int64, int64) {
	if len(l.Syms) == 0 {
		return nil, 0, l.C
	}
	g := int64(0)
	for _, c := range l.Coefs {
		g = gcd(g, c)
	}
	if l.Coefs[0] < 0 {
		g = -g
	}
	k := &linKey{}
	var sb strings.Builder
	for i, s := range l.Syms {
		k.syms = append(k.syms, s)
		k.coefs = append(k.coefs, l.Coefs[i]/g)
		fmt.Fprintf(&sb, "%d*%d,", l.Coefs[i]/g, s.id)
	}
	k.str = sb.String()
	return k, g, l.C
}

func (f *Facts) getIval(k *linKey) ival {
	if iv, ok := f.ivals[k.str]; ok {
		return iv
	}
	iv := ival{lo: math.MinInt64, hi: math.MaxInt64}
	if len(k.syms) == 1 && k.coefs[0] == 1 {
		s := k.syms[0]
		if (s.Op == "app" && (s.Aux == "len" || s.Aux == "cap")) || isUnsignedType(s.Typ) {
			iv.lo = 0
		}
	}
	return iv
}

func (iv ival) has(v int64) bool {
	if v < iv.lo || v > iv.hi {
		return false
	}
	for _, x := range iv.ne {
		if x == v {
			return false
		}
	}
	return true
}

func (iv ival) tighten() ival {
	for changed := true; changed; {
		changed = false
		for _, x := range iv.ne {
			if x == iv.lo && iv.lo != math.MinInt64 && iv.lo <= iv.hi {
				iv.lo++
				changed = true
			}
			if x == iv.hi && iv.hi != math.MaxInt64 && iv.lo <= iv.hi {
				iv.hi--
				changed = true
			}
		}
	}
	return iv
}

// tri: 1 true, 0 false, -1 unknown
type tri int

const (
	triU tri = -1
	triF tri = 0
	triT tri = 1
)

func triOf(b bool) tri {
	if b {
		return triT
	}
	return triF
}
func (t tri) not() tri {
	switch t {
	case triT:
		return triF
	case triF:
		return triT
	}
	return triU
}
func triAnd(a, b tri) tri {
	if a == triF || b == triF {
		return triF
	}
	if a == triT && b == triT {
		return triT
	}
	return triU
}
func triOr(a, b tri) tri {
	if a == triT || b == triT {
		return triT
	}
	if a == triF && b == triF {
		return triF
	}
	return triU
}
func (t tri) String() string { return map[tri]string{triT: "true", triF: "false", triU: "unknown"}[t] }

// linGE0 decides / assumes  L >= 0.
func (f *Facts) linGE0(l *Lin, assume bool, val bool) tri {
	k, m, c := normLin(l)
	if k == nil {
		return triOf(c >= 0)
	}
	iv := f.getIval(k)
	// m·v + c >= 0
	var isLower bool
	var bound int64
	if m > 0 {
		isLower, bound = true, ceilDiv(-c, m) // v >= bound
	} else {
		isLower, bound = false, floorDiv(c, -m) // v <= bound
	}
	var res tri = triU
	if isLower {
		if iv.lo >= bound {
			res = triT
		} else if iv.hi < bound {
			res = triF
		}
	} else {
		if iv.hi <= bound {
			res = triT
		} else if iv.lo > bound {
			res = triF
		}
	}
	if res != triU || !assume {
		return res
	}
	if isLower == val {
		// v >= bound (val true, lower) or !(v <= bound) => v >= bound+1
		b := bound
		if !isLower {
			b = bound + 1
		}
		if b > iv.lo {
			iv.lo = b
		}
	} else {
		b := bound
		if isLower {
			b = bound - 1
		}
		if b < iv.hi {
			iv.hi = b
		}
	}
	f.ivals[k.str] = iv.tighten()
	f.ikeys[k.str] = k
	return triOf(val)
}

// linEQ0 decides / assumes  L == 0.
func (f *Facts) linEQ0(l *Lin, assume bool, val bool) tri {
	k, m, c := normLin(l)
	if k == nil {
		return triOf(c == 0)
	}
	if (-c)%m != 0 {
		return triF
	}
	v := (-c) / m
	iv := f.getIval(k)
	if !iv.has(v) {
		return triF
	}
	if iv.lo == iv.hi {
		return triT
	}
	if !assume {
		return triU
	}
	if val {
		iv.lo, iv.hi, iv.ne = v, v, nil
	} else {
		iv.ne = append(iv.ne, v)
		iv = iv.tighten()
	}
	f.ivals[k.str] = iv
	f.ikeys[k.str] = k
	return triOf(val)
}

func opSet(op string) uint8 {
	switch op {
	case "<":
		return relLT
	case "<=":
		return relLT | relEQ
	case "==":
		return relEQ
	case "!=":
		return relLT | relGT
	case ">":
		return relGT
	case ">=":
		return relGT | relEQ
	}
	return 0
}
func mirror(op string) string {
	switch op {
	case "<":
		return ">"
	case "<=":
		return ">="
	case ">":
		return "<"
	case ">=":
		return "<="
	}
	return op
}

func knownNonNil(t *T) bool {
	switch t.Op {
	case "alloc", "closure", "func", "faddr", "iaddr", "global", "mkiface", "makechan", "makeslice", "makemap":
		return true
	}
	return false
}

// Decide evaluates a boolean term against the facts; with assume it records val for an unknown atom.
func (f *Facts) decide(ts *Terms, c *T, assume bool, val bool) tri {
	if b, ok := c.IsConstBool(); ok {
		return triOf(b)
	}
	if c.Op == "un" && c.Aux == "!" {
		return f.decide(ts, c.Args[0], assume, !val).not()
	}
	if c.Op == "cmp" {
		a, b, op := c.Args[0], c.Args[1], c.Aux
		// nil comparisons
		if a.IsNilConst() || b.IsNilConst() {
			if a.IsNilConst() {
				a, b = b, a
			}
			if op != "==" && op != "!=" {
				return triU
			}
			var r tri = triU
			if a.IsNilConst() {
				r = triT
			} else if knownNonNil(a) {
				r = triF
			} else if n, ok := f.nils[a]; ok {
				r = triOf(n)
			}
			want := val
			if op == "!=" {
				r = r.not()
				want = !val
			}
			if r == triU && assume {
				f.nils[a] = want
				return triOf(val)
			}
			return r
		}
		// booleans
		if isBoolType(a.Typ) || isBoolType(b.Typ) {
			if bv, ok := b.IsConstBool(); ok && (op == "==" || op == "!=") {
				eq := (op == "==") == bv // cond ≡ a == eq
				if eq {
					return f.decide(ts, a, assume, val)
				}
				return f.decide(ts, a, assume, !val).not()
			}
			if av, ok := a.IsConstBool(); ok && (op == "==" || op == "!=") {
				eq := (op == "==") == av
				if eq {
					return f.decide(ts, b, assume, val)
				}
				return f.decide(ts, b, assume, !val).not()
			}
		}
		// integers: linear
		if (isIntType(a.Typ) || a.Op == "lin") && (isIntType(b.Typ) || b.Op == "lin") {
			d := asLin(ts.Sub(a, b, a.Typ)) // a - b
			neg := asLin(ts.Sub(b, a, a.Typ))
			switch op {
			case ">=":
				return f.linGE0(d, assume, val)
			case ">":
				d1 := asLin(ts.Add(ts.Sub(a, b, a.Typ), ts.LinConst(-1, a.Typ), a.Typ))
				return f.linGE0(d1, assume, val)
			case "<=":
				return f.linGE0(neg, assume, val)
			case "<":
				n1 := asLin(ts.Add(ts.Sub(b, a, a.Typ), ts.LinConst(-1, a.Typ), a.Typ))
				return f.linGE0(n1, assume, val)
			case "==":
				return f.linEQ0(d, assume, val)
			case "!=":
				return f.linEQ0(d, assume, !val).not()
			}
		}
		// generic relation
		if a == b {
			if isFloatType(a.Typ) {
				// NaN != NaN; treat as unknown-free: assume not NaN
			}
			return triOf(opSet(op)&relEQ != 0)
		}
		if a.Op == "alloc" && b.Op == "alloc" {
			return triOf(opSet(op)&relEQ == 0)
		}
		if a.Op == "const" && b.Op == "const" && a.K != nil && b.K != nil {
			if as, ok := a.IsConstString(); ok {
				if bs, ok := b.IsConstString(); ok {
					var rel uint8 = relEQ
					if as < bs {
						rel = relLT
					} else if as > bs {
						rel = relGT
					}
					return triOf(opSet(op)&rel != 0)
				}
			}
		}
		x, y, o := a, b, op
		if y.id < x.id {
			x, y, o = b, a, mirror(op)
		}
		key := [2]int{x.id, y.id}
		bits, ok := f.rels[key]
		if !ok {
			bits = relLT | relEQ | relGT
		}
		s := opSet(o)
		if bits&^s == 0 {
			return triT
		}
		if bits&s == 0 {
			return triF
		}
		if !assume {
			return triU
		}
		if val {
			bits &= s
		} else {
			bits &^= s
		}
		f.rels[key] = bits
		f.relT[key] = [2]*T{x, y}
		return triOf(val)
	}
	// opaque boolean atom
	if v, ok := f.bools[c]; ok {
		return triOf(v)
	}
	// a type assertion succeeds only on a non-nil interface value: typeok(x) ⇒ x ≠ nil, x = nil ⇒ ¬typeok(x)
	isTypeOK := c.Op == "app" && strings.HasPrefix(c.Aux, "typeok:") && len(c.Args) == 1
	if isTypeOK {
		if n, known := f.nils[c.Args[0]]; (known && n) || c.Args[0].IsNilConst() {
			return triF
		}
	}
	if assume {
		f.bools[c] = val
		if isTypeOK && val {
			f.nils[c.Args[0]] = false
		}
		return triOf(val)
	}
	return triU
}

// Truth decides without assuming.
func (f *Facts) Truth(ts *Terms, c *T) tri {
	if c == nil {
		return triU // an anchor that did not resolve: the rule reports it; nothing is known about it
	}
	return f.decide(ts, c, false, false)
}

// Assume records c = val; returns false if that contradicts the facts.
func (f *Facts) Assume(ts *Terms, c *T, val bool) bool {
	r := f.decide(ts, c, true, val)
	f.Log = append(f.Log, Atom{c, val})
	return r == triOf(val)
}

func (f *Facts) String() string {
	var parts []string
	for _, a := range f.Log {
		if a.Val {
			parts = append(parts, a.Cond.String())
		} else {
			parts = append(parts, "!"+a.Cond.String())
		}
	}
	return strings.Join(parts, " ∧ ")
}

// Dump lists the facts in a canonical order (for evidence samples).
func (f *Facts) Dump() []string {
	var out []string
	for t, v := range f.bools {
		out = append(out, fmt.Sprintf("%s=%v", t, v))
	}
	for t, v := range f.nils {
		if v {
			out = append(out, fmt.Sprintf("%s==nil", t))
		} else {
			out = append(out, fmt.Sprintf("%s!=nil", t))
		}
	}
	for k, iv := range f.ivals {
		lk := f.ikeys[k]
		var ps []string
		for i, s := range lk.syms {
			ps = append(ps, fmt.Sprintf("%d*%s", lk.coefs[i], s))
		}
		lo, hi := "-inf", "+inf"
		if iv.lo != math.MinInt64 {
			lo = fmt.Sprint(iv.lo)
		}
		if iv.hi != math.MaxInt64 {
			hi = fmt.Sprint(iv.hi)
		}
		out = append(out, fmt.Sprintf("%s in [%s,%s]\\%v", strings.Join(ps, "+"), lo, hi, iv.ne))
	}
	for k, bits := range f.rels {
		ts := f.relT[k]
		out = append(out, fmt.Sprintf("rel(%s,%s)=%03b", ts[0], ts[1], bits))
	}
	sort.Strings(out)
	return out
}

// Refine enumerates the truth assignments of the given atoms that the facts leave open and returns one
// extended fact base per consistent assignment (decision-table rows below one evaluated path).
func (f *Facts) Refine(ts *Terms, atoms ...*T) []*Facts {
	out := []*Facts{f}
	for _, a := range atoms {
		if a == nil {
			continue
		}
		var next []*Facts
		for _, g := range out {
			if g.Truth(ts, a) != triU {
				next = append(next, g)
				continue
			}
			for _, v := range []bool{true, false} {
				h := g.Clone()
				if h.Assume(ts, a, v) {
					next = append(next, h)
				}
			}
		}
		out = next
	}
	return out
}
