package main

// Wrapper-level rules of the simple policies: fallback (C10), cache (C11), bulkhead (C06), breaker
// gate / pairing (C04), rate limiter executor (C05), internal.FailureResult.

import (
	"fmt"
	"go/token"
	"go/types"
	"strings"

	"golang.org/x/tools/go/ssa"
)

// ---- internal.FailureResult ----------------------------------------------------------------------------

func ruleFailureResult(c *Ctx) {
	c.Rule("failure-result")
	fn := c.P.Func("internal.FailureResult")
	if fn == nil {
		c.Unresolved("internal.FailureResult", "not found")
		return
	}
	ev := NewEvaluator(c.P, EvalConfig{})
	ok := true
	paths := ev.Run(fn)
	for _, p := range paths {
		r := p.Rets[0]
		if p.Exit != ExitReturn || r.Op != "alloc" || ev.LoadField(p.State, r, "Error") != ev.Param(fn, fn.Params[0].Name()) || !isTrue(ev.LoadField(p.State, r, "Done")) ||
			!isFalse(ev.LoadField(p.State, r, "Success")) || !isFalse(ev.LoadField(p.State, r, "SuccessAll")) {
			ok = false
			c.Fail(c.fn(fn), c.P.FuncPos(fn), "FailureResult(err) must be a fresh, non-nil {Error: err, Done: true, Success: false, SuccessAll: false}", pathTrace(ev, p))
		}
	}
	if ok && len(paths) > 0 {
		c.Ok(c.fn(fn), c.P.FuncPos(fn), "fresh {Error: err, Done: true}, never nil")
	}
}

func isFailureResultOf(p *Path, ret *T, arg func(*T) bool) bool {
	for _, e := range p.Events() {
		if isCall(e, "FailureResult") && len(e.Res) == 1 && e.Res[0] == ret && len(e.Args) == 1 && arg(e.Args[0]) {
			return true
		}
	}
	return false
}

// errClass classifies an error-typed term: "nil", "ctxerr" (ctx.Err() — non-nil once Done is closed, by the
// context contract), "sentinel" (a package-level error variable), or "".
func errClass(t *T) string {
	switch {
	case t.IsNilConst():
		return "nil"
	case t.Op == "app" && hasPrefix(t.Aux, "Err@"):
		return "ctxerr"
	case t.Op == "init" && t.Args[0].Op == "global":
		return "sentinel"
	}
	return ""
}

// isFailureAlloc: ret is a fresh {Error: e, Done: true} with pred(e) (internal.FailureResult inlined).
func isFailureAlloc(ev *Evaluator, p *Path, ret *T, pred func(*T) bool) bool {
	if ret.Op != "alloc" {
		return isFailureResultOf(p, ret, pred)
	}
	e := ev.LoadField(p.State, ret, "Error")
	d := ev.LoadField(p.State, ret, "Done")
	return e != nil && pred(e) && d != nil && isTrue(d)
}

func isGlobal(t *T, name string) bool {
	return t != nil && t.Op == "init" && t.Args[0].Op == "global" && strings.HasSuffix(t.Args[0].Aux, "."+name)
}

// movedFailureResult: f is the result constructor the rules know as internal.FailureResult, found by its role in
// another package of the tree.
func movedFailureResult(p *Program, f *ssa.Function) bool {
	return f != nil && funcCanon[f] == "FailureResult" && f == p.byName["internal.FailureResult"]
}

func inlinePkgs(p *Program, pkgs ...string) func(*ssa.Function, int) bool {
	return func(f *ssa.Function, depth int) bool {
		if !p.InScope[f] || f.Pkg == nil {
			return false
		}
		for _, k := range pkgs {
			if f.Pkg.Pkg.Name() == k {
				return true
			}
			// the result constructor of package internal, wherever it lives now
			if k == "internal" && movedFailureResult(p, f) {
				return true
			}
		}
		return false
	}
}

// ---- C10 fallback -----------------------------------------------------------------------------------

func rulesC10(c *Ctx) {
	c10Apply(c)
	c10Builders(c)
	buildersStore(c, "fallback")
	delegatingBuilders(c, "fallback")
	c.Rule("classification")
	c01PostExecute(c)
	c01Verdict(c)
	c12IsFailure(c)
	c12Registrars(c)
	c12AnyOf(c)
	c12Shared(c)
	c12Unwrap(c)
	// "… to decide whether the execution succeeded": the verdict the completion listeners are given
	c16Executor(c)
	// "sees the failed result and error as the execution's last result": what CopyWithResult hands on
	// "… and the execution is not cancelled": the cancellation test the fallback takes before and after its function
	execStateMethods(c, map[string]bool{"CopyWithResult": true, "copy": true, "IsCanceledWithResult": true, "isCanceledWithResult": true, "Cancel": true})
	c.Rule("fresh-executor")
	c01Self(c)
	buildCopiesConfig(c)
}

func c10Apply(c *Ctx) {
	c.Rule("apply")
	tab := c.ExecTable()
	info := tab["fallback"]
	if info == nil || info.Slots["Apply"] == nil {
		c.Unresolved("fallback.executor.Apply", "not resolved")
		return
	}
	ee := c.NewExecEval(info, EvalConfig{})
	paths, innerFn, exec := ee.RunApply()
	ev := ee.Ev
	ts := ev.TS
	name, pos := c.fn(info.Slots["Apply"])+"$1", c.P.FuncPos(info.Slots["Apply"])
	if ev.Err != nil || len(paths) == 0 {
		c.Undecided(name, pos, fmt.Sprintf("evaluation failed: %v", ev.Err), "")
		return
	}
	c.Count("paths", len(paths))
	listener := ev.LoadField(ee.St, ee.X, "fallback", "config", "onFallbackExecuted")
	if listener == nil {
		c.Unresolved(name, "listener field onFallbackExecuted not found")
		return
	}
	ok := true
	seen := map[string]bool{}
	for _, p := range paths {
		bad := func(msg string) {
			ok = false
			c.Fail(name, pos, msg, pathTrace(ev, p))
		}
		if p.Exit != ExitReturn || len(p.Rets) != 1 {
			bad("non-returning path")
			continue
		}
		evs := impure(p)
		if len(evs) < 2 || !isDynCall(evs[0], innerFn) || len(evs[0].Args) != 1 || evs[0].Args[0] != exec {
			bad("the closure must first call innerFn(exec)")
			continue
		}
		inner := evs[0].Res[0]
		if !isCall(evs[1], "PostExecute") || evs[1].Args[0] != exec || evs[1].Args[1] != inner {
			bad("the inner result must be classified by PostExecute(exec, inner result) right after innerFn returned")
			continue
		}
		pr := evs[1].Res[0]
		succ := p.State.Facts.Truth(ts, ev.LoadField(p.State, pr, "Success"))
		rest := evs[2:]
		if n := len(eventsWhere(p, func(e *Event) bool { return isDynCall(e, innerFn) })); n != 1 {
			bad("innerFn must be called exactly once")
			continue
		}
		fnCalls := eventsWhere(p, func(e *Event) bool { return dynFieldCall(e, "fn") })
		switch succ {
		case triT:
			seen["passthrough"] = true
			if p.Rets[0] != pr || len(rest) != 0 {
				bad("a result the fallback does not handle (PostExecute says Success) must be returned unchanged with no further effects")
			}
		case triF:
			if len(rest) == 0 || !isCall(rest[0], "IsCanceledWithResult") || rest[0].Recv != exec {
				bad("before applying the fallback the closure must test whether the execution is cancelled")
				continue
			}
			c1 := p.State.Facts.Truth(ts, rest[0].Res[0])
			if c1 == triT {
				seen["cancelled-before"] = true
				if p.Rets[0] != rest[0].Res[1] || len(fnCalls) != 0 || len(rest) != 1 {
					bad("a cancelled execution must return the cancel result without invoking the fallback function")
				}
				continue
			}
			if c1 != triF {
				bad("path does not depend on the cancellation test")
				continue
			}
			// copy, fn, cancel test
			if len(rest) < 4 || !isCall(rest[1], "CopyWithResult") || rest[1].Recv != exec || rest[1].Args[0] != pr ||
				!dynFieldCall(rest[2], "fn") || len(rest[2].Args) != 1 || rest[2].Args[0] != rest[1].Res[0] || len(fnCalls) != 1 {
				bad("a handled failure must invoke the fallback function exactly once with a copy of the execution carrying the failed result (exec.CopyWithResult(result))")
				continue
			}
			fr, fe := rest[2].Res[0], rest[2].Res[1]
			if !isCall(rest[3], "IsCanceledWithResult") || rest[3].Recv != exec {
				bad("after the fallback function returned the closure must test cancellation again")
				continue
			}
			c2 := p.State.Facts.Truth(ts, rest[3].Res[0])
			if c2 == triT {
				seen["cancelled-after"] = true
				if p.Rets[0] != rest[3].Res[1] || len(rest) != 4 {
					bad("an execution cancelled while the fallback ran must return the cancel result, not the fallback's output")
				}
				continue
			}
			if c2 != triF {
				bad("path does not depend on the second cancellation test")
				continue
			}
			seen["applied"] = true
			tail := rest[4:]
			hasL := p.State.Facts.Truth(ts, ts.Cmp("!=", listener, ts.Nil(nil)))
			switch hasL {
			case triT:
				if len(tail) != 1 || !isDynCall(tail[0], listener) {
					bad("OnFallbackExecuted must fire exactly once after the fallback was applied")
					continue
				}
				evt := tail[0].Args[0]
				if !(evt.Op == "struct" && len(evt.Args) == 3 && evt.Args[0] == exec && evt.Args[1] == fr && evt.Args[2] == fe) {
					bad("OnFallbackExecuted must carry the fallback's result and error")
				}
			case triF:
				if len(tail) != 0 {
					bad("unexpected effects after the fallback was applied")
				}
			default:
				if debugLoadField {
					for _, x := range tail {
						if x.FnTerm != nil {
							fmt.Printf("DEBUG listener=%s key=%q  called=%s key=%q same=%v\n", listener, listener.key, x.FnTerm, x.FnTerm.key, x.FnTerm == listener)
						}
					}
				}
				bad("path does not depend on whether a listener is set")
			}
			// output
			r := p.Rets[0]
			if r.Op != "alloc" || ev.LoadField(p.State, r, "Result") != fr || ev.LoadField(p.State, r, "Error") != fe || !isTrue(ev.LoadField(p.State, r, "Done")) {
				bad("the fallback's result and error must replace the outcome (Done=true)")
				continue
			}
			isf := eventsWhere(p, func(e *Event) bool {
				return isCall(e, "IsFailure") && len(e.Args) == 2 && e.Args[0] == fr && e.Args[1] == fe
			})
			direct := false
			if len(isf) > 0 && isf[len(isf)-1].Fn != info.Slots["IsFailure"] {
				// the policy's own BaseFailurePolicy.IsFailure called directly: the same classification when ToExecutor
				// hands that very object to the BaseExecutor (whose IsFailure slot delegates to it)
				l := isf[len(isf)-1]
				if l.Fn != nil && l.Fn == c.P.Func("policy.(*BaseFailurePolicy).IsFailure") && l.Recv != nil && loadedField(l.Recv) == "BaseFailurePolicy" && l.Recv.Contains(ee.X) &&
					info.Slots["IsFailure"] == c.P.Func("policy.(*BaseExecutor).IsFailure") {
					if _, wired, _ := toExecutorWires(c.P, "fallback"); wired {
						direct = true
					}
				}
			}
			if len(isf) == 0 || (isf[len(isf)-1].Fn != info.Slots["IsFailure"] && !direct) {
				bad("the fallback's output must be classified by the same IsFailure conditions")
				continue
			}
			want := p.State.Facts.Truth(ts, isf[len(isf)-1].Res[0]).not()
			s1 := p.State.Facts.Truth(ts, ev.LoadField(p.State, r, "Success"))
			s2 := p.State.Facts.Truth(ts, ev.LoadField(p.State, r, "SuccessAll"))
			if want == triU {
				// Success stored symbolically: must be the negation of the classification
				neg := ts.Not(isf[len(isf)-1].Res[0])
				if ev.LoadField(p.State, r, "Success") != neg || ev.LoadField(p.State, r, "SuccessAll") != neg {
					bad("Success and SuccessAll of the replaced outcome must both be !IsFailure(fallback result, fallback error)")
				}
			} else if s1 != want || s2 != want {
				bad("Success and SuccessAll of the replaced outcome must both be !IsFailure(fallback result, fallback error)")
			}
		default:
			bad("path does not depend on whether the inner result is a handled failure (PostExecute(...).Success)")
		}
	}
	for _, k := range []string{"passthrough", "cancelled-before", "cancelled-after", "applied"} {
		if ok && !seen[k] {
			ok = false
			c.Fail(name, pos, "fallback closure lacks the "+k+" case", "")
		}
	}
	if ok {
		c.Ok(name, pos, fmt.Sprintf("%d paths: innerFn once → PostExecute; Success ⇒ returned unchanged; handled failure ∧ not cancelled ⇒ fn(copy with failed result) exactly once, cancel re-test, listener, output classified by the same IsFailure", len(paths)))
	}
}

func c10Builders(c *Ctx) {
	c.Rule("builders")
	for _, spec := range []struct{ fn, kind string }{{"fallback.BuilderWithResult", "result"}, {"fallback.BuilderWithError", "error"}, {"fallback.BuilderWithFunc", "func"}} {
		fn := c.P.Func(spec.fn)
		if fn == nil {
			c.Unresolved(spec.fn, "not found")
			continue
		}
		ev := NewEvaluator(c.P, EvalConfig{Inline: inlinePkgs(c.P, "fallback")})
		ok := true
		paths := ev.Run(fn)
		arg := ev.Param(fn, fn.Params[0].Name())
		for _, p := range paths {
			if p.Exit != ExitReturn || p.Rets[0].Op != "alloc" {
				ok = false
				c.Fail(spec.fn, c.P.FuncPos(fn), "builder must return a fresh configuration", pathTrace(ev, p))
				continue
			}
			f := ev.LoadField(p.State, p.Rets[0], "fn")
			bfp := ev.LoadField(p.State, p.Rets[0], "BaseFailurePolicy")
			if bfp == nil || bfp.Op != "alloc" {
				ok = false
				c.Fail(spec.fn, c.P.FuncPos(fn), "builder must start from a fresh BaseFailurePolicy", pathTrace(ev, p))
			}
			if spec.kind == "func" {
				if f != arg {
					ok = false
					c.Fail(spec.fn, c.P.FuncPos(fn), "the configured fallback function must be the user's function", pathTrace(ev, p))
				}
				continue
			}
			if f == nil || f.Fn == nil {
				ok = false
				c.Fail(spec.fn, c.P.FuncPos(fn), "no fallback function configured", pathTrace(ev, p))
				continue
			}
			sub := NewEvaluator(c.P, EvalConfig{})
			sub.TS = ev.TS
			for _, q := range sub.CallTerm(p.State, f, nil) {
				good := q.Exit == ExitReturn && len(q.Rets) == 2
				if good && spec.kind == "result" {
					good = q.Rets[0] == arg && q.Rets[1].IsNilConst()
				}
				if good && spec.kind == "error" {
					good = q.Rets[1] == arg && (q.Rets[0].Op == "zero" || q.Rets[0].IsNilConst())
				}
				if !good {
					ok = false
					c.Fail(spec.fn, c.P.FuncPos(fn), "WithResult(r) must yield (r, nil) and WithError(e) must yield (zero, e)", pathTrace(sub, q))
				}
			}
		}
		if ok && len(paths) > 0 {
			c.Ok(spec.fn, c.P.FuncPos(fn), "fallback function returns exactly the configured "+spec.kind)
		}
	}
}

// ---- C11 cache ---------------------------------------------------------------------------------------

func rulesC11(c *Ctx) {
	c11Pre(c)
	c11Post(c)
	c.Rule("hit-skips-inner")
	tab := c.ExecTable()
	if info := tab["cachepolicy"]; info != nil && info.Slots["Apply"] != nil && c.fn(info.Slots["Apply"]) == "policy.(*BaseExecutor).Apply" {
		checkBaseApplyFor(c, info)
	} else {
		c.Fail("cachepolicy.executor.Apply", "", "the cache executor's Apply slot is expected to be BaseExecutor.Apply (PreExecute short-circuit)", "")
	}
	c.Rule("fresh-executor")
	c01Self(c)
	c12AnyOf(c)
	// "a string key supplied through the context takes precedence": the context executions see is the one given
	c01WithContext(c)
	// … and the context an attempt made by an enclosing policy sees (a hedge's, a timeout's child) derives from it, so
	// the key travels with it
	c.Rule("execution-protocol")
	execStateMethods(c, map[string]bool{"CopyForHedge": true, "CopyForCancellable": true, "copy": true, "CopyWithResult": true})
	buildersStore(c, "cachepolicy")
	delegatingBuilders(c, "cachepolicy")
}

// cacheKeyTerm describes, under facts F, which key getCacheKey yields: "ctx" (the context value), "cfg"
// (configured key) or "" if undetermined.
func cacheKeyOf(ev *Evaluator, p *Path, x *T) (key *T, kind string) {
	ts := ev.TS
	var ctxVal *T
	for _, e := range p.Events() {
		if isCall(e, "Value") && len(e.Args) == 1 && isGlobal(e.Args[0], "CacheKey") {
			ctxVal = e.Res[0]
		}
		if isCall(e, "Value") && len(e.Args) == 1 && (e.Args[0].Op == "global" || e.Args[0].Op == "lin" || e.Args[0].Op == "const") {
			if e.Recv != nil && e.Recv.Op == "app" && hasPrefix(e.Recv.Aux, "Context@") {
				ctxVal = e.Res[0]
			}
		}
	}
	cfgKey := ev.LoadField(ev.NewState(), x, "cachePolicy", "config", "key")
	if ctxVal == nil {
		return cfgKey, "unknown"
	}
	present := p.State.Facts.Truth(ts, ts.Cmp("!=", ctxVal, ts.Nil(nil)))
	isStr := triU
	for _, a := range p.State.Facts.Log {
		a.Cond.Walk(func(t *T) {
			if t.Op == "app" && strings.HasPrefix(t.Aux, "typeok:string") && t.Args[0] == ctxVal {
				isStr = p.State.Facts.Truth(ts, t)
			}
		})
	}
	switch {
	case present == triT && isStr == triT:
		return ctxVal, "ctx"
	case present == triF || isStr == triF:
		return cfgKey, "cfg"
	}
	return nil, ""
}

func c11Pre(c *Ctx) {
	c.Rule("lookup")
	tab := c.ExecTable()
	info := tab["cachepolicy"]
	if info == nil || info.Slots["PreExecute"] == nil {
		c.Unresolved("cachepolicy.executor.PreExecute", "not resolved")
		return
	}
	fn := info.Slots["PreExecute"]
	name, pos := c.fn(fn), c.P.FuncPos(fn)
	ee := c.NewExecEval(info, EvalConfig{Inline: func(f *ssa.Function, d int) bool {
		// … and the result constructors of package internal (a hand-built hit result and a helper that builds it are one value)
		return canonName(f) == "getCacheKey" || (c.P.InScope[f] && f.Pkg != nil && (f.Pkg.Pkg.Name() == "internal" || movedFailureResult(c.P, f)))
	}})
	ev, ts := ee.Ev, ee.Ev.TS
	exec := ee.Sym("exec", fn.Params[1].Type())
	paths := ee.RunSlot("PreExecute", exec)
	if ev.Err != nil || len(paths) == 0 {
		c.Undecided(name, pos, fmt.Sprintf("evaluation failed: %v", ev.Err), "")
		return
	}
	c.Count("paths", len(paths))
	onHit := ev.LoadField(ee.St, ee.X, "cachePolicy", "config", "onHit")
	onMiss := ev.LoadField(ee.St, ee.X, "cachePolicy", "config", "onMiss")
	ok := true
	seen := map[string]bool{}
	for _, p := range paths {
		bad := func(msg string) {
			ok = false
			c.Fail(name, pos, msg, pathTrace(ev, p))
		}
		if p.Exit != ExitReturn {
			bad("non-returning path")
			continue
		}
		key, kind := cacheKeyOf(ev, p, ee.X)
		if kind == "" || kind == "unknown" {
			bad("the cache key is not chosen as: string value under CacheKey in the execution's context if present, else the configured key")
			continue
		}
		seen["key-"+kind] = true
		K := p.State.Facts.Truth(ts, ts.Cmp("!=", key, ts.Str("")))
		gets := eventsWhere(p, func(e *Event) bool { return isCall(e, "Get") })
		hits := eventsWhere(p, func(e *Event) bool { return isDynCall(e, onHit) })
		misses := eventsWhere(p, func(e *Event) bool { return isDynCall(e, onMiss) })
		if eventsWhere(p, func(e *Event) bool { return isCall(e, "Set") }) != nil {
			bad("PreExecute must not write the cache")
		}
		found := triF
		var cached *T
		switch K {
		case triT:
			if len(gets) != 1 || gets[0].Args[0] != key || loadedField(gets[0].Recv) != "cache" {
				bad("with a non-empty key the cache must be read exactly once with that key")
				continue
			}
			found = p.State.Facts.Truth(ts, gets[0].Res[1])
			cached = gets[0].Res[0]
		case triF:
			if len(gets) != 0 {
				bad("with no key the cache must not be read")
				continue
			}
		default:
			bad("path does not depend on whether the key is empty")
			continue
		}
		switch found {
		case triT:
			seen["hit"] = true
			r := p.Rets[0]
			if r.Op != "alloc" || ev.LoadField(p.State, r, "Result") != cached || !ev.LoadField(p.State, r, "Error").IsNilConst() ||
				!isTrue(ev.LoadField(p.State, r, "Done")) || !isTrue(ev.LoadField(p.State, r, "Success")) || !isTrue(ev.LoadField(p.State, r, "SuccessAll")) {
				bad("a hit must return {Result: cached value, Error: nil, Done/Success/SuccessAll: true}")
			}
			wantL := p.State.Facts.Truth(ts, ts.Cmp("!=", onHit, ts.Nil(nil)))
			if wantL == triU || (wantL == triT) != (len(hits) == 1) || len(hits) > 1 || len(misses) != 0 {
				bad("OnCacheHit must fire exactly once on a hit (when set) and OnCacheMiss must not")
			} else if len(hits) == 1 {
				evt := hits[0].Args[0]
				if !(evt.Op == "struct" && len(evt.Args) == 3 && evt.Args[1] == cached) {
					bad("OnCacheHit must carry the cached value")
				}
			}
		case triF:
			seen["miss"] = true
			if !p.Rets[0].IsNilConst() {
				bad("a miss must let the execution proceed (nil result)")
			}
			wantL := p.State.Facts.Truth(ts, ts.Cmp("!=", onMiss, ts.Nil(nil)))
			if wantL == triU || (wantL == triT) != (len(misses) == 1) || len(misses) > 1 || len(hits) != 0 {
				bad("OnCacheMiss must fire exactly once on a miss (when set) and OnCacheHit must not")
			}
		default:
			bad("path does not depend on whether the entry was found")
		}
	}
	for _, k := range []string{"key-ctx", "key-cfg", "hit", "miss"} {
		if ok && !seen[k] {
			ok = false
			c.Fail(name, pos, "PreExecute lacks the "+k+" case", "")
		}
	}
	if ok {
		c.Ok(name, pos, fmt.Sprintf("%d paths: context string key takes precedence; Get iff key≠\"\"; hit ⇒ {cached,nil,true,true,true}+OnCacheHit; miss ⇒ nil+OnCacheMiss", len(paths)))
	}
}

func c11Post(c *Ctx) {
	c.Rule("store")
	tab := c.ExecTable()
	info := tab["cachepolicy"]
	if info == nil || info.Slots["PostExecute"] == nil {
		c.Unresolved("cachepolicy.executor.PostExecute", "not resolved")
		return
	}
	fn := info.Slots["PostExecute"]
	name, pos := c.fn(fn), c.P.FuncPos(fn)
	ee := c.NewExecEval(info, EvalConfig{Inline: func(f *ssa.Function, d int) bool {
		// … and the result constructors of package internal (a hand-built hit result and a helper that builds it are one value)
		return canonName(f) == "getCacheKey" || (c.P.InScope[f] && f.Pkg != nil && (f.Pkg.Pkg.Name() == "internal" || movedFailureResult(c.P, f)))
	}})
	ev, ts := ee.Ev, ee.Ev.TS
	exec := ee.Sym("exec", fn.Params[1].Type())
	er := ee.Sym("er", fn.Params[2].Type())
	paths := ee.RunSlot("PostExecute", exec, er)
	if ev.Err != nil || len(paths) == 0 {
		c.Undecided(name, pos, fmt.Sprintf("evaluation failed: %v", ev.Err), "")
		return
	}
	conds := ev.LoadField(ee.St, ee.X, "cachePolicy", "config", "cacheConditions")
	onCache := ev.LoadField(ee.St, ee.X, "cachePolicy", "config", "onCache")
	resR, resE := ev.LoadField(ee.St, er, "Result"), ev.LoadField(ee.St, er, "Error")
	if conds == nil || onCache == nil {
		c.Unresolved(name, "fields cacheConditions / onCache not found")
		return
	}
	lenC := ts.intern(&T{Op: "app", Aux: "len", Args: []*T{conds}, Typ: types.Typ[types.Int]})
	aZ := ts.Cmp("==", lenC, ts.LinConst(0, types.Typ[types.Int]))
	aE0 := ts.Cmp("==", resE, ts.Nil(nil))
	ok := true
	rows := 0
	sawSet := false
	for _, p := range paths {
		if p.Exit != ExitReturn || len(p.Rets) != 1 || p.Rets[0] != er {
			ok = false
			c.Fail(name, pos, "PostExecute must return the inner result unchanged", pathTrace(ev, p))
			continue
		}
		var match *T
		for _, e := range p.Events() {
			if isCall(e, "AppliesToAny") && len(e.Args) == 3 && e.Args[0] == conds && e.Args[1] == resR && e.Args[2] == resE {
				match = e.Res[0]
			}
		}
		key, kind := cacheKeyOf(ev, p, ee.X)
		sets := eventsWhere(p, func(e *Event) bool { return isCall(e, "Set") })
		cached := eventsWhere(p, func(e *Event) bool { return isDynCall(e, onCache) })
		for _, F := range p.State.Facts.Refine(ts, aZ, aE0, match) {
			Z, E0 := F.Truth(ts, aZ), F.Truth(ts, aE0)
			if Z == triT && match != nil && F.Truth(ts, match) == triT {
				continue // infeasible: nothing matches an empty condition list (C12.anyof)
			}
			rows++
			M := triF // no conditions ⇒ nothing matches
			if match != nil {
				M = F.Truth(ts, match)
			} else if Z != triT && !(Z == triT) {
				M = triU
			}
			if Z == triT {
				M = triF
			}
			should := triOr(triAnd(Z, E0), M)
			bad := func(msg string) {
				ok = false
				c.Fail(name, pos, msg, "row: "+F.String()+"\n"+pathTrace(ev, p))
			}
			if should == triU {
				bad("the decision to store does not depend on: (no CacheIf conditions ∧ result has no error) ∨ some CacheIf condition matches")
				continue
			}
			if should == triF {
				if len(sets) != 0 || len(cached) != 0 {
					bad("a result that is not cacheable (carries an error with no matching CacheIf condition) is stored")
				}
				continue
			}
			if kind == "" || kind == "unknown" {
				if len(sets) == 0 {
					bad("a cacheable result (no error with no CacheIf conditions, or a matching CacheIf condition) is not stored")
				} else {
					bad("the cache key is not chosen as: context string key if present, else the configured key")
				}
				continue
			}
			K := F.Truth(ts, ts.Cmp("!=", key, ts.Str("")))
			switch K {
			case triT:
				if len(sets) != 1 || sets[0].Args[0] != key || sets[0].Args[1] != resR || loadedField(sets[0].Recv) != "cache" {
					bad("a cacheable result must be stored exactly once as Set(key, result.Result)")
					continue
				}
				sawSet = true
				wantL := F.Truth(ts, ts.Cmp("!=", onCache, ts.Nil(nil)))
				if wantL == triU || (wantL == triT) != (len(cached) == 1) || len(cached) > 1 {
					bad("OnResultCached must fire exactly once after the result was stored (when set)")
				} else if len(cached) == 1 && cached[0].Idx < sets[0].Idx {
					bad("OnResultCached fires before the result is stored")
				} else if len(cached) == 1 {
					evt := cached[0].Args[0]
					if !(evt.Op == "struct" && len(evt.Args) == 1 && copyOf(p, evt.Args[0], exec, er)) {
						bad("OnResultCached must carry a copy of the execution with the result that was stored (exec.CopyWithResult(result)): the execution's own last result lags one attempt behind")
					}
				}
			case triF:
				if len(sets) != 0 || len(cached) != 0 {
					bad("with no key the cache must not be written")
				}
			default:
				bad("path does not depend on whether the key is empty")
			}
		}
	}
	c.Count("decision-table rows", rows)
	if ok && !sawSet {
		ok = false
		c.Fail(name, pos, "no path stores a result", "")
	}
	if ok {
		c.Ok(name, pos, fmt.Sprintf("%d rows: Set(key, Result) ⇔ ((no conditions ∧ Error==nil) ∨ a condition matches) ∧ key≠\"\"; OnResultCached after the store; argument returned unchanged", rows))
	}
}

// ---- C06 bulkhead ------------------------------------------------------------------------------------

func rulesC06(c *Ctx) {
	c06Capacity(c)
	c06ChannelOwner(c)
	c06Acquire(c)
	c06Pairing(c)
	buildersStore(c, "bulkhead")
	delegatingBuilders(c, "bulkhead")
	ruleFailureResult(c)
	c.Rule("fresh-executor")
	c01Self(c)
	// "executions of the wrapped function in progress": a permit is held for as long as the function runs because the
	// innermost wrapper returns only after the user function returned (it calls it on its own goroutine, once)
	c.Rule("user-function")
	c01Leaf(c)
}

func c06Capacity(c *Ctx) {
	c.Rule("capacity")
	fn := c.P.Func("bulkhead.(*config).Build")
	if fn == nil {
		c.Unresolved("bulkhead.(*config).Build", "not found")
		return
	}
	ev := NewEvaluator(c.P, EvalConfig{})
	ok := true
	paths := ev.Run(fn)
	recv := ev.Param(fn, fn.Params[0].Name())
	for _, p := range paths {
		r := p.Rets[0]
		sem := ev.LoadField(p.State, r, "semaphore")
		if p.Exit != ExitReturn || r.Op != "alloc" || sem == nil || sem.Op != "makechan" || sem.Args[0] != ev.LoadField(ev.NewState(), recv, "maxConcurrency") {
			ok = false
			c.Fail(c.fn(fn), c.P.FuncPos(fn), "the bulkhead's semaphore must be a fresh channel whose capacity is exactly the configured maxConcurrency", pathTrace(ev, p))
		}
	}
	if ok && len(paths) > 0 {
		c.Ok(c.fn(fn), c.P.FuncPos(fn), "semaphore = make(chan struct{}, maxConcurrency)")
	}
	ix := BuildIndex(c.P)
	ws := ix.Writers(FieldRef{Type: "bulkhead", Pkg: "bulkhead", Field: "semaphore"})
	allIn := len(ws) >= 1
	for _, w := range ws {
		if !ix.Within(w, func(f *ssa.Function) bool { return f == fn }) {
			allIn = false
		}
	}
	if !allIn {
		var ns []string
		for _, w := range ws {
			ns = append(ns, c.fn(w))
		}
		c.Fail("bulkhead.bulkhead.semaphore#writers", "", "the semaphore must be assigned once, in Build; writers: "+strings.Join(ns, ", "), "")
	} else {
		c.Ok("bulkhead.bulkhead.semaphore#writers", c.P.FuncPos(fn), "assigned only in Build")
	}
}

// semaphoreUses classifies every use of a load of bulkhead.semaphore in the program.
func c06ChannelOwner(c *Ctx) {
	c.Rule("channel-owner")
	ix := BuildIndex(c.P)
	// the acquire functions and helpers only they reach
	sendOK := func(fn *ssa.Function) bool {
		if ix.WithinNames(fn, "bulkhead.(*bulkhead).AcquirePermit", "bulkhead.(*bulkhead).AcquirePermitWithMaxWait", "bulkhead.(*bulkhead).TryAcquirePermit") {
			return true
		}
		// the body of an acquire function moved into a helper that the package also calls directly (thin wrapper)
		switch canonName(fn) {
		case "AcquirePermit", "AcquirePermitWithMaxWait", "TryAcquirePermit":
			return recvCanon(fn) == "" || recvCanon(fn) == "bulkhead"
		}
		return false
	}
	recvOK := func(fn *ssa.Function) bool { return ix.WithinNames(fn, "bulkhead.(*bulkhead).ReleasePermit") }
	n := 0
	ok := true
	// walk follows the channel value: through conversions, φs, unexported accessors that return it and in-scope
	// helpers that take it as an argument; every send / receive found must sit in an acquire / the release function
	seenV := map[ssa.Value]bool{}
	var walk func(v ssa.Value, depth int)
	walk = func(v ssa.Value, depth int) {
		if seenV[v] || v.Referrers() == nil {
			return
		}
		seenV[v] = true
		for _, use := range *v.Referrers() {
			fn := use.Parent()
			name := c.fn(fn)
			n++
			handedOut := func() {
				ok = false
				c.Fail(name, c.P.Pos(use.Pos()), fmt.Sprintf("the semaphore channel is used by %T (closed, copied or handed out): only acquire sends and the release receive may touch it", use), "")
			}
			switch x := use.(type) {
			case *ssa.Send:
				if x.Chan == v && !sendOK(fn) {
					ok = false
					c.Fail(name, c.P.Pos(x.Pos()), "a permit is taken (send on the semaphore) outside the three acquire functions", "")
				} else if x.Chan != v {
					handedOut()
				}
			case *ssa.Select:
				for _, s := range x.States {
					if s.Chan != v {
						if s.Send == v {
							handedOut()
						}
						continue
					}
					if s.Dir == types.SendOnly && !sendOK(fn) {
						ok = false
						c.Fail(name, c.P.Pos(x.Pos()), "a permit is taken (send on the semaphore) outside the three acquire functions", "")
					}
					if s.Dir == types.RecvOnly && !recvOK(fn) {
						ok = false
						c.Fail(name, c.P.Pos(x.Pos()), "a permit is returned (receive from the semaphore) outside ReleasePermit", "")
					}
				}
			case *ssa.UnOp:
				if !recvOK(fn) {
					ok = false
					c.Fail(name, c.P.Pos(x.Pos()), "a permit is returned (receive from the semaphore) outside ReleasePermit", "")
				}
			case *ssa.DebugRef:
			case *ssa.ChangeType:
				walk(x, depth)
			case *ssa.Phi:
				walk(x, depth)
			case *ssa.Return:
				if depth > 3 || len(x.Results) != 1 || fn.Object() == nil || fn.Object().Exported() {
					handedOut()
					continue
				}
				for _, caller := range ix.Callers[origin(fn)] {
					for _, b := range caller.Blocks {
						for _, in := range b.Instrs {
							if cv, isV := in.(*ssa.Call); isV {
								if cal := calleeOf(cv.Common()); cal != nil && origin(cal) == origin(fn) {
									walk(cv, depth+1)
								}
							}
						}
					}
				}
			case *ssa.BinOp:
				// comparing the channel (with nil) reads nothing from it
				if x.Op != token.EQL && x.Op != token.NEQ {
					handedOut()
				}
			case ssa.CallInstruction:
				if bi, isB := x.Common().Value.(*ssa.Builtin); isB && (bi.Name() == "len" || bi.Name() == "cap") {
					continue // occupancy / capacity of the semaphore: a read-only observation
				}
				cal := calleeOf(x.Common())
				if cal == nil || depth > 3 || !c.P.InScope[origin(cal)] || x.Common().Value == v {
					handedOut()
					continue
				}
				cal = origin(cal)
				found := false
				for i, a := range x.Common().Args {
					if a == v && i < len(cal.Params) {
						found = true
						walk(cal.Params[i], depth+1)
					}
				}
				if !found {
					handedOut()
				}
			default:
				handedOut()
			}
		}
	}
	for _, fn := range c.P.Funcs {
		for _, b := range fn.Blocks {
			for _, in := range b.Instrs {
				fa, isFA := in.(*ssa.FieldAddr)
				if !isFA {
					continue
				}
				fr, okf := fieldRefOfAddr(fa)
				if !okf || fr.Pkg != "bulkhead" || fr.Type != "bulkhead" || fr.Field != "semaphore" {
					continue
				}
				for _, ld := range *fa.Referrers() {
					u, isLoad := ld.(*ssa.UnOp)
					if !isLoad {
						continue // the store in Build
					}
					walk(u, 0)
				}
			}
		}
	}
	c.Floor("uses of the semaphore", n, 3)
	if ok {
		c.Ok("bulkhead.bulkhead.semaphore#uses", "", fmt.Sprintf("%d uses: sends only in AcquirePermit/AcquirePermitWithMaxWait/TryAcquirePermit, receive only in ReleasePermit, never closed or handed out", n))
	}
}

func c06Acquire(c *Ctx) {
	c.Rule("acquire")
	for _, spec := range []struct {
		fn      string
		boolRet bool
	}{{"bulkhead.(*bulkhead).AcquirePermit", false}, {"bulkhead.(*bulkhead).AcquirePermitWithMaxWait", false}, {"bulkhead.(*bulkhead).TryAcquirePermit", true}} {
		fn := c.P.Func(spec.fn)
		if fn == nil {
			c.Unresolved(spec.fn, "not found")
			continue
		}
		ev := NewEvaluator(c.P, EvalConfig{DecideReturns: true, Inline: func(f *ssa.Function, d int) bool {
			// the function's own body when it lives in a helper the method merely forwards to
			return c.P.InScope[f] && f != fn && canonName(f) == fn.Name()
		}})
		ts := ev.TS
		paths := ev.Run(fn)
		if ev.Err != nil || len(paths) == 0 {
			c.Undecided(spec.fn, c.P.FuncPos(fn), fmt.Sprintf("evaluation failed: %v", ev.Err), "")
			continue
		}
		recv := ev.Param(fn, fn.Params[0].Name())
		sem := ev.LoadField(ev.NewState(), recv, "semaphore")
		ok := true
		succ, failN := 0, 0
		for _, p := range paths {
			if p.Exit != ExitReturn {
				ok = false
				c.Fail(spec.fn, c.P.FuncPos(fn), "non-returning path", pathTrace(ev, p))
				continue
			}
			sends := 0
			var lastSel *Event
			for _, e := range p.Events() {
				if e.Kind == EvSelect && e.Chosen >= 0 && e.Cases[e.Chosen].Dir == types.SendOnly && e.Cases[e.Chosen].Chan == sem {
					sends++
				}
				if e.Kind == EvSend && e.Addr == sem {
					sends++
				}
				if e.Kind == EvSelect {
					lastSel = e
				}
				if (e.Kind == EvRecv && e.Addr == sem) || (e.Kind == EvSelect && e.Chosen >= 0 && e.Cases[e.Chosen].Dir == types.RecvOnly && e.Cases[e.Chosen].Chan == sem) {
					ok = false
					c.Fail(spec.fn, c.P.FuncPos(fn), "an acquire function gives a permit back", pathTrace(ev, p))
				}
			}
			var success tri
			if spec.boolRet {
				success = p.State.Facts.Truth(ts, p.Rets[0])
			} else {
				// what the path knows about the returned error comes first: a context error read before the wait and
				// found nil is nil, whatever ended the wait afterwards
				success = p.State.Facts.Truth(ts, ts.Cmp("==", p.Rets[0], ts.Nil(nil)))
				if success == triU {
					switch errClass(p.Rets[0]) {
					case "nil":
						success = triT
					case "ctxerr", "sentinel":
						success = triF
					}
				}
			}
			if success == triU {
				ok = false
				c.Undecided(spec.fn, c.P.FuncPos(fn), "cannot decide whether a path reports success", pathTrace(ev, p))
				continue
			}
			if (success == triT) != (sends == 1) || sends > 1 {
				ok = false
				c.Fail(spec.fn, c.P.FuncPos(fn), fmt.Sprintf("a path takes %d permits but reports success=%s: success must be reported exactly when one permit was taken", sends, success), pathTrace(ev, p))
				continue
			}
			if success == triT {
				succ++
				continue
			}
			failN++
			if !spec.boolRet && lastSel != nil {
				// the reason reported must match the case that ended the wait
				r := p.Rets[0]
				if lastSel.Chosen >= 0 && lastSel.Cases[lastSel.Chosen].Dir == types.RecvOnly {
					ch := lastSel.Cases[lastSel.Chosen].Chan
					isCtx := ch.Op == "app" && hasPrefix(ch.Aux, "Done@")
					if isCtx && !(r.Op == "app" && hasPrefix(r.Aux, "Err@") && r.Args[0] == ch.Args[0]) {
						ok = false
						c.Fail(spec.fn, c.P.FuncPos(fn), "an acquire ended by the context must return that context's error", pathTrace(ev, p))
					} else if isCtx {
						// … read after the wait ended: an error read before it says nothing about why the wait ended
						for _, e := range p.Events() {
							if e.Kind == EvCall && len(e.Res) > 0 && e.Res[0] == r && e.Idx < lastSel.Idx {
								ok = false
								c.Fail(spec.fn, c.P.FuncPos(fn), "the context's error must be read after the wait was ended by the context, not before", pathTrace(ev, p))
							}
						}
					}
					if !isCtx && !isGlobal(r, "ErrFull") {
						ok = false
						c.Fail(spec.fn, c.P.FuncPos(fn), "an acquire ended by the max-wait timer must return ErrFull", pathTrace(ev, p))
					}
				} else if lastSel.Chosen == -1 && !isGlobal(r, "ErrFull") {
					ok = false
					c.Fail(spec.fn, c.P.FuncPos(fn), "an acquire refused without waiting must return ErrFull", pathTrace(ev, p))
				}
			}
		}
		if ok && (succ == 0 || (failN == 0)) {
			ok = false
			c.Fail(spec.fn, c.P.FuncPos(fn), "acquire function lacks a success or a failure path", "")
		}
		if ok {
			c.Ok(spec.fn, c.P.FuncPos(fn), fmt.Sprintf("%d paths: success ⇔ exactly one send on the semaphore was chosen; failures take nothing and report the reason of the case that ended the wait", len(paths)))
		}
	}
	// ReleasePermit: exactly one blocking receive from the semaphore
	if fn := c.P.Func("bulkhead.(*bulkhead).ReleasePermit"); fn == nil {
		c.Unresolved("bulkhead.(*bulkhead).ReleasePermit", "not found")
	} else {
		ev := NewEvaluator(c.P, EvalConfig{})
		paths := ev.Run(fn)
		sem := ev.LoadField(ev.NewState(), ev.Param(fn, fn.Params[0].Name()), "semaphore")
		ok := ev.Err == nil && len(paths) > 0
		for _, p := range paths {
			evs := impure(p)
			if p.Exit != ExitReturn || len(evs) != 1 || evs[0].Kind != EvRecv || evs[0].Addr != sem {
				ok = false
				c.Fail(c.fn(fn), c.P.FuncPos(fn), "ReleasePermit must perform exactly one (blocking) receive from the semaphore on every path and nothing else", pathTrace(ev, p))
			}
		}
		if ok {
			c.Ok(c.fn(fn), c.P.FuncPos(fn), "one blocking receive from the semaphore")
		}
	}
}

func c06Pairing(c *Ctx) {
	c.Rule("pairing")
	tab := c.ExecTable()
	info := tab["bulkhead"]
	if info == nil || info.Slots["Apply"] == nil {
		c.Unresolved("bulkhead.executor.Apply", "not resolved")
		return
	}
	// whole wrapper with the executor's slots inlined; opaque: the acquire, the release, innerFn
	opaque := map[string]bool{"AcquirePermitWithMaxWait": true, "AcquirePermit": true, "TryAcquirePermit": true, "ReleasePermit": true}
	ee := c.NewExecEval(info, EvalConfig{Inline: func(f *ssa.Function, d int) bool {
		if opaque[canonName(f)] || !c.P.InScope[f] || f.Pkg == nil {
			return false
		}
		return f.Pkg.Pkg.Name() == "bulkhead" || f.Pkg.Pkg.Name() == "policy" || f.Pkg.Pkg.Name() == "internal" || movedFailureResult(c.P, f)
	}})
	paths, innerFn, exec := ee.RunApply()
	ev, ts := ee.Ev, ee.Ev.TS
	name, pos := "bulkhead.executor.Apply (slots inlined)", c.P.FuncPos(info.Slots["Apply"])
	if ev.Err != nil || len(paths) == 0 {
		c.Undecided(name, pos, fmt.Sprintf("evaluation failed: %v", ev.Err), "")
		return
	}
	c.Count("paths", len(paths))
	onFull := ev.LoadField(ee.St, ee.X, "bulkhead", "config", "onFull")
	maxWait := ev.LoadField(ee.St, ee.X, "bulkhead", "config", "maxWaitTime")
	ok := true
	seen := map[string]bool{}
	for _, p := range paths {
		bad := func(msg string) {
			ok = false
			c.Fail(name, pos, msg, pathTrace(ev, p))
		}
		acq := eventsWhere(p, func(e *Event) bool {
			return e.Kind == EvCall && (e.Method == "AcquirePermitWithMaxWait" || e.Method == "AcquirePermit" || e.Method == "TryAcquirePermit")
		})
		rel := eventsWhere(p, func(e *Event) bool {
			return isCall(e, "ReleasePermit") || (e.Kind == EvDefer && e.Method == "ReleasePermit")
		})
		relCalls := eventsWhere(p, func(e *Event) bool { return isCall(e, "ReleasePermit") })
		inner := eventsWhere(p, func(e *Event) bool { return isDynCall(e, innerFn) })
		_ = rel
		var aa []*T
		if len(acq) == 1 {
			aa = lastArgs(acq[0], 2)
		}
		if len(acq) != 1 || !strings.EqualFold(acq[0].Method, "AcquirePermitWithMaxWait") || aa == nil || len(fullArgs(acq[0])) != 3 || aa[1] != maxWait ||
			!(aa[0].Op == "app" && hasPrefix(aa[0].Aux, "Context@") && aa[0].Args[0] == exec) {
			bad("the wrapper must try to acquire exactly one permit with the execution's context and the configured max wait time")
			continue
		}
		got := p.State.Facts.Truth(ts, ts.Cmp("==", acq[0].Res[0], ts.Nil(nil)))
		switch got {
		case triT:
			seen["admitted"] = true
			if len(inner) != 1 || inner[0].Idx < acq[0].Idx || len(inner[0].Args) != 1 || inner[0].Args[0] != exec {
				bad("an admitted execution must run innerFn(exec) exactly once after the permit was acquired")
				continue
			}
			if p.Exit != ExitReturn {
				continue
			}
			if len(relCalls) != 1 || relCalls[0].Idx < inner[0].Idx {
				bad(fmt.Sprintf("an admitted execution must give its permit back exactly once after innerFn returned (found %d ReleasePermit calls)", len(relCalls)))
				continue
			}
			if p.Rets[0] != inner[0].Res[0] {
				bad("the bulkhead must return the inner result unchanged")
			}
		case triF:
			seen["rejected"] = true
			if len(inner) != 0 || len(relCalls) != 0 {
				bad("a refused or cancelled acquire must neither run innerFn nor release a permit it did not get")
				continue
			}
			// a wait that ended because the execution was cancelled reports the cancellation's cause (the stored
			// cancel result: the timeout's, ErrExecutionCanceled, or the context's own error), not a bare context error
			ct := eventsWhere(p, func(e *Event) bool { return isCall(e, "IsCanceledWithResult") && e.Recv == exec && e.Idx > acq[0].Idx })
			if len(ct) != 1 {
				bad("after a failed acquire the wrapper must test whether the execution was cancelled (IsCanceledWithResult), so that the cause of the cancellation is what the caller receives")
				continue
			}
			cancelled := triAnd(p.State.Facts.Truth(ts, ct[0].Res[0]), p.State.Facts.Truth(ts, ts.Cmp("!=", ct[0].Res[1], ts.Nil(nil))))
			switch cancelled {
			case triT:
				if p.Exit == ExitReturn && p.Rets[0] != ct[0].Res[1] {
					bad("a wait ended by cancellation must return the execution's cancel result")
				}
				if len(eventsWhere(p, func(e *Event) bool { return isDynCall(e, onFull) })) != 0 {
					bad("OnFull must not fire for a cancelled wait")
				}
				continue
			case triF:
			default:
				bad("the outcome of a failed acquire does not depend on whether the execution was cancelled")
				continue
			}
			if p.Exit == ExitReturn && !isFailureAlloc(ev, p, p.Rets[0], func(a *T) bool { return a == acq[0].Res[0] }) {
				bad("a refused acquire must fail the execution with the acquire's error (ErrFull or the context error)")
			}
			// listener ⇔ errors.Is(err, ErrFull)
			full := eventsWhere(p, func(e *Event) bool { return isDynCall(e, onFull) })
			// the acquire functions fail with ErrFull or with the context's error (C06.acquire), and a done context makes
			// the cancellation test above succeed (execution-protocol): on this path — acquire failed, execution not
			// cancelled — the error can only be ErrFull, whether or not the code re-tests it
			var isFull tri = triT
			for _, e := range p.Events() {
				if isCall(e, "Is") && len(e.Args) == 2 && e.Args[0] == acq[0].Res[0] && isGlobal(e.Args[1], "ErrFull") {
					isFull = p.State.Facts.Truth(ts, e.Res[0])
				}
			}
			hasL := p.State.Facts.Truth(ts, ts.Cmp("!=", onFull, ts.Nil(nil)))
			want := triAnd(hasL, isFull)
			if hasL == triF {
				want = triF
			}
			if want == triU || (want == triT) != (len(full) == 1) || len(full) > 1 {
				bad("OnFull must fire exactly once iff the acquire failed with ErrFull (and a listener is set)")
			}
		default:
			bad("path does not depend on whether the permit was acquired")
		}
	}
	if ok && !(seen["admitted"] && seen["rejected"]) {
		ok = false
		c.Fail(name, pos, "wrapper lacks the admitted or the rejected case", "")
	}
	if ok {
		c.Ok(name, pos, fmt.Sprintf("%d paths: one acquire with exec.Context() and maxWaitTime; admitted ⇒ innerFn once then exactly one ReleasePermit, inner result returned; refused ⇒ neither, FailureResult(err), OnFull ⇔ ErrFull", len(paths)))
	}
	// ReleasePermit has no other caller in the library
	ix := BuildIndex(c.P)
	rp := c.P.Func("bulkhead.(*bulkhead).ReleasePermit")
	if rp != nil {
		var others []string
		for _, cal := range ix.Callers[rp] {
			if c.fn(cal) != "bulkhead.(*executor).PostExecute" {
				others = append(others, c.fn(cal))
			}
		}
		if len(others) > 0 {
			c.Fail("bulkhead.(*bulkhead).ReleasePermit#callers", "", "ReleasePermit is also called from "+strings.Join(others, ", ")+" (a permit could be released twice or without being held)", "")
		} else {
			c.Ok("bulkhead.(*bulkhead).ReleasePermit#callers", "", "only the executor's PostExecute releases inside the library")
		}
	}
}
