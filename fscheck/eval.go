package main

// ABSEVAL — path-sensitive abstract evaluator over go/ssa (DESIGN §2.2).
//
// It propagates abstract terms through the SSA of one function (optionally inlining static callees and
// resolved interface calls), keeps an abstract heap keyed by access path (store-to-load forwarding), and
// decides every branch condition against a fact base. A condition the facts do not decide becomes a new
// atom of the predicate abstraction: the evaluation continues once under each truth value. The result is,
// per case of that finite abstraction, the function's summary: ordered effects (opaque calls with their
// argument terms, stores to non-local memory, channel operations, spawns), the exit kind and the returned
// terms. Nothing from /repo is executed; values are never concrete inputs, only constants and symbols.

import (
	"fmt"
	"go/constant"
	"go/token"
	"go/types"
	"sort"
	"strings"

	"golang.org/x/tools/go/ssa"
)

type EventKind int

const (
	EvCall EventKind = iota
	EvStore
	EvSend
	EvRecv
	EvSelect
	EvGo
	EvDefer
	EvClose
	EvPanic
	EvMapUpdate
)

func (k EventKind) String() string {
	return [...]string{"call", "store", "send", "recv", "select", "go", "defer", "close", "panic", "mapupdate"}[k]
}

type SelCase struct {
	Dir  types.ChanDir
	Chan *T
	Send *T
}

type Event struct {
	Kind       EventKind
	Callee     string        // qualified name of a static callee, or "invoke:<Method>", or "dyn"
	Fn         *ssa.Function // static callee (origin) if any
	Method     string        // method / function short name
	FnTerm     *T            // called function value for dynamic calls
	Recv       *T            // receiver (method calls and invokes)
	Args       []*T          // arguments (without receiver), in the order of the function's upstream signature
	RawArgs    []*T          // arguments and receiver as the analysed tree passes them (set when they were normalised)
	RawRecv    *T
	Normalised bool
	Res        []*T // results
	Addr       *T   // store / send / recv / close: address or channel
	Val        *T   // store / send: value
	Cases      []SelCase
	Chosen     int // select: chosen case, -1 = default
	Pure       bool
	Instr      ssa.Instruction
	InFn       *ssa.Function
	Depth      int
	Snap       *State // state right after the event (only for spawns / calls receiving closures)
	Idx        int
}

func (e *Event) String() string {
	var as []string
	for _, a := range e.Args {
		as = append(as, a.String())
	}
	switch e.Kind {
	case EvCall, EvGo, EvDefer:
		name := e.Callee
		if e.FnTerm != nil {
			name = "dyn:" + e.FnTerm.String()
		}
		recv := ""
		if e.Recv != nil {
			recv = e.Recv.String() + "."
		}
		var rs []string
		for _, r := range e.Res {
			rs = append(rs, r.String())
		}
		pre := ""
		if e.Kind != EvCall {
			pre = e.Kind.String() + " "
		}
		s := fmt.Sprintf("%s%s%s(%s)", pre, recv, name, strings.Join(as, ", "))
		if len(rs) > 0 {
			s += " -> " + strings.Join(rs, ", ")
		}
		return s
	case EvStore:
		return fmt.Sprintf("store %s := %s", e.Addr, e.Val)
	case EvSend:
		return fmt.Sprintf("send %s <- %s", e.Addr, e.Val)
	case EvRecv:
		return fmt.Sprintf("recv <-%s -> %v", e.Addr, e.Res)
	case EvClose:
		return fmt.Sprintf("close(%s)", e.Addr)
	case EvSelect:
		var cs []string
		for i, c := range e.Cases {
			m := " "
			if i == e.Chosen {
				m = "*"
			}
			if c.Dir == types.SendOnly {
				cs = append(cs, fmt.Sprintf("%s%s<-%s", m, c.Chan, c.Send))
			} else {
				cs = append(cs, fmt.Sprintf("%s<-%s", m, c.Chan))
			}
		}
		if e.Chosen == -1 {
			cs = append(cs, "*default")
		}
		return "select{" + strings.Join(cs, "; ") + "}"
	case EvPanic:
		return fmt.Sprintf("panic(%s)", e.Val)
	case EvMapUpdate:
		return fmt.Sprintf("mapupdate %s[%s] = %s", e.Addr, e.Args[0], e.Val)
	}
	return "?"
}

type ExitKind int

const (
	ExitReturn ExitKind = iota
	ExitPanic
	ExitCut // loop bound reached
)

func (k ExitKind) String() string { return [...]string{"return", "panic", "loopcut"}[k] }

type deferred struct {
	call  *ssa.CallCommon
	instr ssa.Instruction
	fn    *T
	recv  *T
	args  []*T
}

type Frame struct {
	fn          *ssa.Function
	env         map[ssa.Value]*T
	block       *ssa.BasicBlock
	prev        *ssa.BasicBlock
	pc          int
	visits      map[*ssa.BasicBlock]int
	defers      []deferred
	free        []*T
	retTo       ssa.Value // value in the caller to bind the result to (nil: discard)
	retOverride *T        // set by clampSelect for `if a < b { return a }; return b`
	noAdv       bool      // on return do not advance the caller's pc (deferred call)
	depth       int
	refunds     int // loop-header visits not counted because the facts alone decided the loop test (known trip count)
}

func (f *Frame) clone() *Frame {
	g := *f
	g.env = make(map[ssa.Value]*T, len(f.env))
	for k, v := range f.env {
		g.env[k] = v
	}
	g.visits = make(map[*ssa.BasicBlock]int, len(f.visits))
	for k, v := range f.visits {
		g.visits[k] = v
	}
	g.defers = append([]deferred(nil), f.defers...)
	return &g
}

type State struct {
	frames []*Frame
	cells  map[*T]*T
	gen    map[*T]int
	Facts  *Facts
	Events []*Event
	nFresh int
	epoch  int
	base   int // index of the frame whose return ends the evaluation

	pendingCut *ssa.BasicBlock
}

func (s *State) clone() *State {
	c := &State{Facts: s.Facts.Clone(), nFresh: s.nFresh, epoch: s.epoch, base: s.base}
	for _, f := range s.frames {
		c.frames = append(c.frames, f.clone())
	}
	c.cells = make(map[*T]*T, len(s.cells))
	for k, v := range s.cells {
		c.cells[k] = v
	}
	c.gen = make(map[*T]int, len(s.gen))
	for k, v := range s.gen {
		c.gen[k] = v
	}
	c.Events = append([]*Event(nil), s.Events...)
	return c
}

type Path struct {
	State *State
	Exit  ExitKind
	Rets  []*T
	CutAt *ssa.BasicBlock
	Base  int // number of events that were already in the starting state
}

func (p *Path) Events() []*Event { return p.State.Events }

type EvalConfig struct {
	// Inline decides whether a static callee (origin, with body) is evaluated in place.
	Inline func(callee *ssa.Function, depth int) bool
	// KeepPanics: also report paths that end in an explicit panic guarded by a nil test / failed type test.
	KeepPanics bool
	// KeepHandedClosures: a function literal handed to a helper and called there stays an opaque call event (the rule
	// is about that very call).
	KeepHandedClosures bool
	// ResolveInvoke may bind an interface method call to a concrete function (nil = opaque).
	ResolveInvoke func(ev *Evaluator, st *State, recv *T, method string) (*ssa.Function, *T)
	// DecideReturns: fork on undecided boolean results of the evaluated (base) function.
	DecideReturns bool
	// Pure marks calls whose result is a function of callee, arguments and the current epoch only.
	Pure func(e *Event) bool
	// InlineClosures: calls of closure terms created during the evaluation are evaluated in place.
	InlineClosures bool
	MaxVisits      int // how often one block may be entered per frame (loop bound)
	MaxPaths       int
	MaxDepth       int
	// MayWrite lists "Type.field" cells an opaque in-repo callee may store to (nil = none).
	MayWrite func(callee *ssa.Function) map[string]bool
	// SnapshotAll: snapshot the state at every event (expensive; used by few rules).
	SnapshotAll bool
	// NoSamePkgInline disables the default policy of evaluating small helpers of the analysed function's own
	// package in place (so that extracting a helper does not change a summary). Functions whose calls are the
	// protocol events the rules look for (protocolNames) are never inlined by that policy.
	NoSamePkgInline bool
	// Opaque: additional function names kept opaque by the same-package policy.
	Opaque map[string]bool
}

type Evaluator struct {
	P       *Program
	TS      *Terms
	Cfg     EvalConfig
	Err     error
	done    []*Path
	rootPkg *ssa.Package
	// seamVals: values the seam table supplied (their receivers are bound by static type)
	seamVals map[*T]bool
	// initCells: per package, the heap its initialiser leaves (globals.go)
	initCells map[*ssa.Package]map[*T]*T
	initMaps  map[*T][][2]*T // contents of the maps package initialisers made (globals.go)
}

// protocolNames: functions whose calls are events of the rules' specifications; the same-package inlining
// policy never evaluates them in place (a rule that wants one inlined says so through EvalConfig.Inline).
var protocolNames = map[string]bool{
	"Apply": true, "PreExecute": true, "PostExecute": true, "OnSuccess": true, "OnFailure": true, "IsFailure": true, "ToExecutor": true, "Build": true,
	"IsAbortable": true, "IsConfigured": true, "ComputeDelay": true, "AppliesToAny": true, "errorAs": true, "ErrorTypesMatch": true,
	"HandleErrors": true, "HandleErrorTypes": true, "HandleResult": true, "HandleIf": true, "AbortOnErrors": true, "AbortOnErrorTypes": true, "AbortOnResult": true, "AbortIf": true,
	"CopyWithResult": true, "CopyForCancellable": true, "CopyForHedge": true, "copy": true, "record": true, "RecordResult": true, "InitializeRetry": true,
	"Cancel": true, "IsCanceledWithResult": true, "isCanceledWithResult": true, "newExecution": true, "newExecutionDoneEvent": true,
	"execute": true, "executeSync": true, "executeAsync": true, "Get": true, "getDelay": true,
	"acquirePermits": true, "acquirePermitsWithMaxWait": true, "AcquirePermit": true, "AcquirePermits": true, "AcquirePermitWithMaxWait": true, "AcquirePermitsWithMaxWait": true,
	"TryAcquirePermit": true, "TryAcquirePermits": true, "ReservePermit": true, "ReservePermits": true, "TryReservePermit": true, "TryReservePermits": true, "ReleasePermit": true,
	"RecordSuccess": true, "RecordFailure": true, "RecordError": true, "recordSuccess": true, "recordFailure": true, "recordResult": true,
	"tryAcquirePermit": true, "checkThresholdAndReleasePermit": true, "open": true, "close": true, "halfOpen": true, "Open": true, "Close": true, "HalfOpen": true, "transitionTo": true,
	"newClosedState": true, "newOpenState": true, "newHalfOpenState": true, "newStats": true, "newCountingStats": true, "newTimedStats": true,
	"currentBucket": true, "setNext": true, "state": true,
	"executionCount": true, "failureCount": true, "failureRate": true, "successCount": true, "successRate": true,
	"bodyReader": true, "MergeContexts": true, "FailureResult": true, "WithDone": true, "WithFailure": true, "DelayFunc": true,
	"Builder": true, "RetryPolicyBuilder": true, "BuilderWithFunc": true, "BuilderWithResult": true, "BuilderWithError": true,
	"RandomDelay": true, "RandomDelayFactor": true, "RandomDelayInRange": true, "RoundDown": true, "NewStopwatch": true, "NewClock": true,
	"Run": true, "RunWithExecution": true, "GetWithExecution": true, "RunAsync": true, "GetAsync": true, "RunWithExecutionAsync": true, "GetWithExecutionAsync": true,
	"NewExecutor": true, "WithContext": true, "Reset": true, "Result": true, "Error": true, "IsDone": true, "Done": true,
}

func NewEvaluator(p *Program, cfg EvalConfig) *Evaluator {
	if cfg.MaxVisits == 0 {
		cfg.MaxVisits = 2
	}
	if cfg.MaxPaths == 0 {
		cfg.MaxPaths = 80000
	}
	if cfg.MaxDepth == 0 {
		cfg.MaxDepth = 6
	}
	if cfg.Pure == nil {
		cfg.Pure = defaultPure
	}
	return &Evaluator{P: p, TS: NewTerms(), Cfg: cfg}
}

// isProtocol: the callee is one of the functions rules look for by name. A function that merely shares such a name
// but did not exist in the reviewed tree (a new helper called execute in another package, say) is not.
func (ev *Evaluator) isProtocol(callee *ssa.Function) bool {
	if !protocolNames[canonName(callee)] {
		return false
	}
	if callee.Object() != nil && callee.Object().Exported() {
		return true
	}
	if _, known := refParamNames(ev.P.CanonFuncName(callee)); known {
		return true
	}
	// registered under an upstream name by a role (possibly with a different receiver shape)
	if ev.P.aliased == nil {
		ev.P.aliased = map[*ssa.Function]bool{}
		refParamNames("")
		for name := range refPrints {
			if f := ev.P.byName[name]; f != nil {
				ev.P.aliased[f] = true
			}
		}
	}
	return ev.P.aliased[callee]
}

// assertedTypeString names the type of a type assertion; an interface type declared in the library itself is
// named by its method set, so that `interface{ Unwrap() error }` and a named `type unwrapper interface{ Unwrap() error }`
// are the same test.
func assertedTypeString(t types.Type) string {
	if n, ok := t.(*types.Named); ok && n.Obj().Pkg() != nil && strings.HasPrefix(n.Obj().Pkg().Path(), modPath) && !n.Obj().Exported() {
		if _, isI := n.Underlying().(*types.Interface); isI {
			return types.TypeString(n.Underlying(), nil)
		}
	}
	return types.TypeString(t, nil)
}

// onlyCalled: the closure value is used for nothing but being called where it was made (never passed on, stored,
// returned or started as a goroutine): a local helper.
func onlyCalled(t *T) bool {
	mc, ok := t.Site.(*ssa.MakeClosure)
	if !ok || mc.Referrers() == nil {
		return false
	}
	for _, r := range *mc.Referrers() {
		switch u := r.(type) {
		case *ssa.Call:
			if u.Call.Value != mc {
				return false
			}
		case *ssa.DebugRef:
		default:
			return false
		}
	}
	return true
}

// nonNilResults: external constructors whose (first) result is never nil.
var nonNilResults = map[string]bool{
	"time.NewTimer": true, "time.AfterFunc": true, "time.NewTicker": true, "context.WithCancel": true, "context.WithCancelCause": true,
	"context.WithTimeout": true, "context.WithDeadline": true, "context.Background": true, "context.TODO": true,
	"errors.New": true, "fmt.Errorf": true, "bytes.NewReader": true, "io.NopCloser": true,
}

// clockReads: the injected time sources (tests replace them): their reads stay named reads whatever implements them.
var clockReads = map[string]bool{"CurrentUnixNano": true, "ElapsedTime": true}

// ---- default purity ----------------------------------------------------------------------------------

var pureNames = map[string]bool{
	"Err": true, "Done": true, "Context": true, "Value": true, "Load": true, "ElapsedTime": true, "Retries": true,
	"Attempts": true, "Executions": true, "Hedges": true, "Canceled": true, "IsCanceled": true, "Nanoseconds": true,
	"CurrentUnixNano": true, "executionCount": true, "failureCount": true, "failureRate": true, "successCount": true,
	"successRate": true, "state": true, "Code": true, "Error": true, "MatchString": true, "Is": true, "DeepEqual": true,
	"ErrorTypesMatch": true, "AppliesToAny": true, "LastResult": true, "LastError": true, "IsConfigured": true,
	"IsAbortable": true, "IsFailure": true, "ComputeDelay": true, "Since": true, "FromError": true, "TypeOf": true,
	"AssignableTo": true, "Implements": true, "Kind": true, "Elem": true, "PointerTo": true, "Atoi": true,
	"Seconds": true, "remainingDelay": true, "Bytes": true, "String": true, "IsFirstAttempt": true, "IsRetry": true,
	"IsHedge": true, "StartTime": true, "AttemptStartTime": true, "ElapsedAttemptTime": true, "Background": true,
	"Test": true, "Round": true, "RoundDown": true, "allowsRetries": true, "Unwrap": true, "UnixNano": true,
}

func defaultPure(e *Event) bool {
	if e.Kind != EvCall || e.FnTerm != nil {
		return false
	}
	// diagnostics (printing, logging) are not effects any property speaks about
	if strings.HasPrefix(e.Callee, "fmt.") || strings.HasPrefix(e.Callee, "log.") || strings.HasPrefix(e.Callee, "(*log.") || strings.HasPrefix(e.Callee, "log/slog.") || strings.HasPrefix(e.Callee, "(*log/slog.") {
		return true
	}
	// reading the clock changes nothing
	if e.Callee == "time.Now" {
		return true
	}
	return pureNames[e.Method]
}

// ---- state helpers -----------------------------------------------------------------------------------

func (ev *Evaluator) NewState() *State {
	return &State{cells: map[*T]*T{}, gen: map[*T]int{}, Facts: NewFacts()}
}

func (st *State) top() *Frame { return st.frames[len(st.frames)-1] }

func (ev *Evaluator) fresh(st *State, op string, typ types.Type, site ssa.Instruction, args ...*T) *T {
	st.nFresh++
	t := &T{Op: op, Aux: fmt.Sprint(st.nFresh), Typ: typ, Args: args, Site: site}
	return ev.TS.intern(t)
}

func fieldKey(structType types.Type, idx int) (string, types.Type) {
	t := structType
	if p, ok := t.Underlying().(*types.Pointer); ok {
		t = p.Elem()
	}
	name := "?"
	if n, ok := t.(*types.Named); ok {
		name = typeCanonName(n.Obj())
		if n.Obj().Pkg() != nil {
			name = n.Obj().Pkg().Name() + "." + name
		}
	}
	s, ok := t.Underlying().(*types.Struct)
	if !ok {
		return name + ".?", nil
	}
	f := s.Field(idx)
	return name + "." + embeddedCanon(f), f.Type()
}

// embeddedCanon: the name of a struct field; an embedded field is named after its type, so it follows the type's
// canonical name when the type was renamed.
func embeddedCanon(f *types.Var) string {
	if f.Embedded() {
		t := f.Type()
		if p, ok := t.(*types.Pointer); ok {
			t = p.Elem()
		}
		if n, ok := t.(*types.Named); ok {
			return typeCanonName(n.Obj())
		}
	}
	return f.Name()
}

// fieldByTypeName: an embedding of the reviewed tree made explicit. A path step names an embedded part by its type
// ("config", "fallback"); on a tree where that part is held under a field name of its own (cfg *config[R]) the step
// is the only non-embedded field of the struct whose type is (a pointer to) the unexported same-package type the step
// names. -1 when there is none or more than one.
func fieldByTypeName(s *types.Struct, owner types.Type, want string) int {
	on, ok := owner.(*types.Named)
	if !ok || on.Obj().Pkg() == nil {
		return -1
	}
	idx := -1
	for j := 0; j < s.NumFields(); j++ {
		f := s.Field(j)
		if f.Embedded() {
			continue
		}
		t := f.Type()
		if p, isP := t.(*types.Pointer); isP {
			t = p.Elem()
		}
		n, isN := t.(*types.Named)
		if !isN || n.Obj().Pkg() != on.Obj().Pkg() || n.Obj().Exported() || typeCanonName(n.Obj()) != want {
			continue
		}
		if _, isS := n.Underlying().(*types.Struct); !isS {
			continue
		}
		if idx >= 0 {
			return -1
		}
		idx = j
	}
	return idx
}

// FieldName strips the type qualifier of a faddr/fld Aux.
func FieldName(aux string) string { return canonicalField(aux) }

func (ev *Evaluator) faddr(base *T, structType types.Type, idx int) *T {
	k, ft := fieldKey(structType, idx)
	var pt types.Type
	if ft != nil {
		pt = types.NewPointer(ft)
	}
	return ev.TS.intern(&T{Op: "faddr", Aux: k, Args: []*T{base}, Typ: pt})
}

func rootOf(a *T) *T {
	for a.Op == "faddr" || a.Op == "iaddr" {
		a = a.Args[0]
	}
	return a
}

func isFreshRoot(a *T) bool {
	op := rootOf(a).Op
	return op == "alloc" || op == "makeslice"
}

func isAncestor(anc, a *T) bool {
	for a.Op == "faddr" || a.Op == "iaddr" {
		a = a.Args[0]
		if a == anc {
			return true
		}
	}
	return false
}

// decomposable: struct types whose fields the heap tracks individually.
func decomposable(t types.Type) *types.Struct {
	if t == nil {
		return nil
	}
	s, ok := t.Underlying().(*types.Struct)
	if !ok {
		return nil
	}
	if n, ok := t.(*types.Named); ok {
		if n.Obj().Pkg() == nil || !strings.HasPrefix(n.Obj().Pkg().Path(), modPath) {
			return nil
		}
	}
	return s
}

func (ev *Evaluator) load(st *State, addr *T, typ types.Type) *T {
	if addr == nil {
		// a rule asked for a field the analysed tree does not have in that shape: an undefined value, which no
		// expectation matches (the rule reports what it could not establish)
		return ev.TS.intern(&T{Op: "undef", Aux: "no-address", Typ: typ})
	}
	if v, ok := st.cells[addr]; ok {
		return v
	}
	if addr.Op == "faddr" && ev.P.unsetHook(addr.Aux, typ) {
		return ev.TS.zeroOf(typ)
	}
	// a whole opaque value stored at an ancestor
	if addr.Op == "faddr" {
		if pv, ok := st.cells[addr.Args[0]]; ok && pv.Op != "struct" {
			// a field of "what was at X when nothing had been written there" is what was at X.f then (a struct copied
			// as a whole by a generic helper, whose body cannot name the fields)
			if pv.Op == "init" && pv.Aux == "" && len(pv.Args) == 1 {
				src := ev.TS.intern(&T{Op: "faddr", Aux: addr.Aux, Args: []*T{pv.Args[0]}, Typ: addr.Typ})
				return ev.TS.intern(&T{Op: "init", Aux: "", Args: []*T{src}, Typ: typ})
			}
			return ev.TS.intern(&T{Op: "fld", Aux: addr.Aux, Args: []*T{pv}, Typ: typ})
		}
	}
	if s := decomposable(typ); s != nil {
		args := make([]*T, s.NumFields())
		for i := 0; i < s.NumFields(); i++ {
			args[i] = ev.load(st, ev.faddr(addr, typ, i), s.Field(i).Type())
		}
		return ev.TS.intern(&T{Op: "struct", Aux: types.TypeString(typ, func(*types.Package) string { return "" }), Args: args, Typ: typ})
	}
	if gv := ev.constGlobalLoad(addr); gv != nil {
		return gv
	}
	if isFreshRoot(addr) {
		return ev.TS.zeroOf(typ)
	}
	if sv := ev.seamLoad(st, addr, typ); sv != nil {
		if ev.seamVals == nil {
			ev.seamVals = map[*T]bool{}
		}
		ev.seamVals[sv] = true
		return sv
	}
	g := st.gen[addr]
	aux := ""
	if g > 0 {
		aux = fmt.Sprintf("@%d", g)
	}
	v := ev.TS.intern(&T{Op: "init", Aux: aux, Args: []*T{addr}, Typ: typ})
	return v
}

func (ev *Evaluator) store(st *State, addr *T, val *T) {
	for k := range st.cells {
		if isAncestor(addr, k) {
			delete(st.cells, k)
		}
	}
	if val.Op == "struct" {
		delete(st.cells, addr)
		if s := decomposable(val.Typ); s != nil && s.NumFields() == len(val.Args) {
			for i, a := range val.Args {
				ev.store(st, ev.faddr(addr, val.Typ, i), a)
			}
			return
		}
	}
	st.cells[addr] = val
	// may-alias: same field of another non-fresh base of the same struct type is no longer known
	if addr.Op == "faddr" && !isFreshRoot(addr) {
		for k := range st.cells {
			if k != addr && k.Op == "faddr" && k.Aux == addr.Aux && !isFreshRoot(k) {
				delete(st.cells, k)
				st.gen[k]++
			}
		}
	}
}

func (ev *Evaluator) havoc(st *State, fields map[string]bool) {
	if len(fields) == 0 {
		return
	}
	for k := range st.cells {
		if k.Op == "faddr" && fields[k.Aux] {
			delete(st.cells, k)
			st.gen[k]++
		}
	}
	for f := range fields {
		_ = f
	}
	// cells never loaded before must also get a new generation: bump lazily by epoch
	st.epoch++
}

var debugLoadField = false

// LoadField reads ptr.<field path> from the heap of st (rules use it on final states).
func (ev *Evaluator) LoadField(st *State, ptr *T, fields ...string) *T {
	cur := ptr
	var typ types.Type = ptr.Typ
	// a canonical field whose actual counterpart lives in a part under a clashing name is mapped to "part.leaf"
	for i := 0; i < len(fields); i++ {
		if n := namedOfPtr(typ); i == 0 && n != nil && n.Obj().Pkg() != nil {
			if a, okA := toActual[n.Obj().Pkg().Name()+"."+typeCanonName(n.Obj())+"."+fields[0]]; okA && strings.Contains(a, ".") {
				fields = append(strings.Split(a, "."), fields[1:]...)
			}
		}
		break
	}
	for i, f := range fields {
		// find struct type
		var stt types.Type
		if typ != nil {
			if p, ok := typ.Underlying().(*types.Pointer); ok {
				stt = p.Elem()
			} else {
				stt = typ
			}
		}
		idx := -1
		if stt != nil {
			if s, ok := stt.Underlying().(*types.Struct); ok {
				want := f
				if n, isN := stt.(*types.Named); isN && n.Obj().Pkg() != nil {
					if a, okA := toActual[n.Obj().Pkg().Name()+"."+typeCanonName(n.Obj())+"."+f]; okA {
						want = a
					}
				}
				if i > 0 && strings.Contains(want, ".") {
					// the actual counterpart lives in a by-value part under a clashing leaf name ("failure.threshold")
					c2 := cur
					if c2.Typ == nil {
						c2.Typ = typ
					}
					return ev.LoadField(st, c2, append(strings.Split(want, "."), fields[i+1:]...)...)
				}
				for j := 0; j < s.NumFields(); j++ {
					if s.Field(j).Name() == want || embeddedCanon(s.Field(j)) == want {
						idx = j
					}
				}
				if idx < 0 {
					idx = fieldByTypeName(s, stt, want)
				}
				if idx < 0 {
					// promoted field of an embedded struct (by value or by pointer)
					for j := 0; j < s.NumFields() && idx < 0; j++ {
						if !s.Field(j).Embedded() {
							// a named grouping part: a by-value struct of the same package
							nt, isN := s.Field(j).Type().(*types.Named)
							sn, isSN := stt.(*types.Named)
							if !isN || !isSN || nt.Obj().Pkg() != sn.Obj().Pkg() || nt.Obj().Exported() {
								continue
							}
							if _, isStruct := nt.Underlying().(*types.Struct); !isStruct {
								continue
							}
						}
						et := s.Field(j).Type()
						if pt, isP := et.Underlying().(*types.Pointer); isP {
							et = pt.Elem()
						}
						es, isS := et.Underlying().(*types.Struct)
						if !isS {
							continue
						}
						for k := 0; k < es.NumFields(); k++ {
							if es.Field(k).Name() == want {
								sub := ev.LoadField(st, cur, s.Field(j).Name())
								if sub == nil {
									continue
								}
								if sub.Typ == nil {
									sub.Typ = s.Field(j).Type()
								}
								rest := append([]string{f}, fields[i+1:]...)
								if _, isP := s.Field(j).Type().Underlying().(*types.Pointer); !isP {
									// embedded by value: address arithmetic on the embedded struct's address
									addr2 := ev.faddr(cur, stt, j)
									addr2.Typ = types.NewPointer(s.Field(j).Type())
									return ev.LoadField(st, addr2, rest...)
								}
								return ev.LoadField(st, sub, rest...)
							}
						}
					}
				}
			}
		}
		var addr *T
		var ft types.Type
		if idx >= 0 {
			addr = ev.faddr(cur, stt, idx)
			_, ft = fieldKey(stt, idx)
		} else {
			// search by suffix among known cells
			for k := range st.cells {
				if k.Op == "faddr" && k.Args[0] == cur && FieldName(k.Aux) == f {
					addr = k
				}
			}
			if addr == nil {
				// a path written for the reviewed tree's composition (executor → policy → config → f) on a tree where an
				// intermediate object was flattened away (the executor holds the config directly): when this step is
				// missing but the next one is present right here, the step is skipped
				if i < len(fields)-1 && stt != nil {
					if s2, isS := stt.Underlying().(*types.Struct); isS {
						next := fields[i+1]
						if n2, isN := stt.(*types.Named); isN && n2.Obj().Pkg() != nil {
							if a, okA := toActual[n2.Obj().Pkg().Name()+"."+typeCanonName(n2.Obj())+"."+next]; okA && !strings.Contains(a, ".") {
								next = a
							}
						}
						byType := fieldByTypeName(s2, stt, next)
						for j := 0; j < s2.NumFields(); j++ {
							if s2.Field(j).Name() == next || embeddedCanon(s2.Field(j)) == next || j == byType {
								c2 := cur
								if c2.Typ == nil {
									c2.Typ = typ
								}
								return ev.LoadField(st, c2, fields[i+1:]...)
							}
						}
					}
				}
				if debugLoadField {
					fmt.Printf("LoadField: no field %q on %s (type %v)\n", f, cur, typ)
				}
				return nil
			}
			if addr.Typ != nil {
				ft = addr.Typ.(*types.Pointer).Elem()
			}
		}
		if i < len(fields)-1 && ft != nil {
			// a by-value struct part: keep addressing into it instead of loading the aggregate
			if _, isStruct := ft.Underlying().(*types.Struct); isStruct {
				if _, isPtr := ft.(*types.Pointer); !isPtr {
					a2 := addr
					if a2.Typ == nil {
						a2.Typ = types.NewPointer(ft)
					}
					cur, typ = a2, types.NewPointer(ft)
					continue
				}
			}
		}
		v := ev.load(st, addr, ft)
		if i == len(fields)-1 {
			return v
		}
		cur, typ = v, ft
	}
	return cur
}

// ValueField reads field `name` of v, which is either a pointer to a struct (LoadField) or a struct value (a
// composite built on this path, or an opaque value such as a received message).
func (ev *Evaluator) ValueField(st *State, v *T, name string) *T {
	if v == nil || v.Typ == nil {
		return nil
	}
	if _, isPtr := v.Typ.Underlying().(*types.Pointer); isPtr {
		return ev.LoadField(st, v, name)
	}
	s, ok := v.Typ.Underlying().(*types.Struct)
	if !ok {
		return nil
	}
	want := name
	if n, isN := v.Typ.(*types.Named); isN && n.Obj().Pkg() != nil {
		if a, okA := toActual[n.Obj().Pkg().Name()+"."+typeCanonName(n.Obj())+"."+name]; okA {
			want = a
		}
	}
	for i := 0; i < s.NumFields(); i++ {
		if s.Field(i).Name() != want {
			continue
		}
		if v.Op == "struct" && i < len(v.Args) {
			return v.Args[i]
		}
		k, ft := fieldKey(v.Typ, i)
		return ev.TS.intern(&T{Op: "fld", Aux: k, Args: []*T{v}, Typ: ft})
	}
	return nil
}

// ---- running -----------------------------------------------------------------------------------------

// Run evaluates fn from a fresh state with symbolic parameters.
func (ev *Evaluator) Run(fn *ssa.Function) []*Path {
	st := ev.NewState()
	var args []*T
	for _, p := range fn.Params {
		args = append(args, ev.TS.intern(&T{Op: "param", Aux: p.Name(), Typ: p.Type()}))
	}
	var free []*T
	for _, f := range fn.FreeVars {
		free = append(free, ev.TS.intern(&T{Op: "free", Aux: f.Name(), Typ: f.Type()}))
	}
	return ev.RunFrom(st, fn, args, free)
}

// Param: the term of fn's parameter that upstream calls `name`. Parameters are addressed by their position in the
// reviewed tree (fingerprints.json records the upstream parameter names of every function), so renaming a parameter
// or a receiver changes nothing; functions the reference does not know are addressed by the current name.
func (ev *Evaluator) Param(fn *ssa.Function, name string) *T {
	if names, ok := refParamNames(ev.P.CanonFuncName(fn)); ok && len(names) == len(fn.Params) {
		for i, n := range names {
			if n == name {
				p := fn.Params[i]
				return ev.TS.intern(&T{Op: "param", Aux: p.Name(), Typ: p.Type()})
			}
		}
	}
	for _, p := range fn.Params {
		if p.Name() == name {
			return ev.TS.intern(&T{Op: "param", Aux: p.Name(), Typ: p.Type()})
		}
	}
	// the parameter travels in a by-value bundle (a struct parameter with a field of that name)
	for _, p := range fn.Params {
		if fi := bundleField(p.Type(), name); fi >= 0 {
			k, ft := fieldKey(p.Type(), fi)
			return ev.TS.intern(&T{Op: "fld", Aux: k, Args: []*T{ev.TS.intern(&T{Op: "param", Aux: p.Name(), Typ: p.Type()})}, Typ: ft})
		}
	}
	return nil
}

func indexOf(names []string, n string) (int, bool) {
	for i, x := range names {
		if x == n {
			return i, true
		}
	}
	return -1, false
}

// bundleOf: t is a parameter bundle holding at least one of the named upstream parameters (index of the first), else -1.
func bundleOf(t types.Type, names []string) int {
	for i, n := range names {
		if bundleField(t, n) >= 0 {
			return i
		}
	}
	return -1
}

func sameTerms(a, b []*T) bool {
	if len(a) != len(b) {
		return false
	}
	for i := range a {
		if a[i] != b[i] {
			return false
		}
	}
	return true
}

// bundleField: t is a struct type declared in the library (a parameter bundle) with a field of this name; its index.
func bundleField(t types.Type, name string) int {
	n, ok := t.(*types.Named)
	if !ok || n.Obj().Pkg() == nil || !strings.HasPrefix(n.Obj().Pkg().Path(), modPath) {
		return -1
	}
	st, ok := n.Underlying().(*types.Struct)
	if !ok {
		return -1
	}
	for i := 0; i < st.NumFields(); i++ {
		if st.Field(i).Name() == name {
			return i
		}
	}
	return -1
}

// normaliseArgs rewrites the argument list of a call of a library function into the order and shape of the
// function's upstream signature when the analysed tree reordered the parameters or bundled them into a struct.
func (ev *Evaluator) normaliseArgs(e *Event, callee *ssa.Function) {
	names, ok := refParamNames(ev.P.CanonFuncName(callee))
	if !ok || len(names) == 0 {
		return
	}
	actual := callee.Params
	full := fullArgs(e)
	if len(full) != len(actual) {
		return
	}
	same := len(names) == len(actual)
	byName := map[string]int{}
	for j, p := range actual {
		byName[p.Name()] = j
		if same && names[j] != p.Name() {
			same = false
		}
	}
	if same {
		return
	}
	hasRecv := callee.Signature.Recv() != nil
	out := make([]*T, len(names))
	for i, r := range names {
		if hasRecv && i == 0 {
			out[0] = full[0] // the receiver, whatever it is called
			continue
		}
		if j, isParam := byName[r]; isParam && !(hasRecv && j == 0) {
			out[i] = full[j]
			continue
		}
		for j, p := range actual {
			fi := bundleField(p.Type(), r)
			if fi < 0 {
				continue
			}
			if a := full[j]; a.Op == "struct" && fi < len(a.Args) {
				out[i] = a.Args[fi]
			} else {
				k, ft := fieldKey(p.Type(), fi)
				out[i] = ev.TS.intern(&T{Op: "fld", Aux: k, Args: []*T{a}, Typ: ft})
			}
		}
		if out[i] == nil {
			return // a parameter of the upstream signature is gone: leave the call as it is
		}
	}
	// parameters the upstream signature does not have (a value threaded through instead of stored afterwards) follow
	used := map[*T]bool{}
	for _, o := range out {
		used[o] = true
	}
	for j, a := range full {
		if hasRecv && j == 0 {
			continue
		}
		if _, isRef := indexOf(names, actual[j].Name()); !isRef && !used[a] && bundleOf(actual[j].Type(), names) < 0 {
			out = append(out, a)
		}
	}
	if hasRecv {
		e.Recv, e.Args = out[0], out[1:]
	} else {
		e.Recv, e.Args = nil, out
	}
}

// RunFrom evaluates fn(args) starting in state st (which is not modified).
func (ev *Evaluator) RunFrom(st0 *State, fn *ssa.Function, args []*T, free []*T) []*Path {
	st := st0.clone()
	st.base = len(st.frames)
	if ev.rootPkg == nil {
		root := fn
		for root.Parent() != nil {
			root = root.Parent()
		}
		ev.rootPkg = root.Pkg
	}
	ev.pushFrame(st, fn, args, free, nil, false)
	ps := ev.drive(st)
	for _, p := range ps {
		p.Base = len(st0.Events)
	}
	return ps
}

// CallTerm evaluates a call of the function value fnTerm (closure or func term) in state st.
func (ev *Evaluator) CallTerm(st0 *State, fnTerm *T, args []*T) []*Path {
	if fnTerm.Fn == nil {
		ev.Err = fmt.Errorf("CallTerm: %s is not a known function", fnTerm)
		return nil
	}
	var free []*T
	if fnTerm.Op == "closure" {
		free = fnTerm.Args
		// a bound method value x.m: run the method itself on the bound receiver
		if m := ev.P.TargetOf(fnTerm.Fn); m != origin(fnTerm.Fn) && len(free) == 1 && len(m.Blocks) > 0 {
			return ev.RunFrom(st0, m, append([]*T{free[0]}, args...), nil)
		}
	}
	return ev.RunFrom(st0, origin(fnTerm.Fn), args, free)
}

// RunEvent evaluates the function started or registered by a call-like event (go f(...), go x.m(...), a closure,
// a bound method value) from state st, with the event's own arguments unless args is given.
func (ev *Evaluator) RunEvent(st *State, e *Event, args []*T) []*Path {
	if args == nil {
		args = e.Args
	}
	if e.FnTerm != nil && e.FnTerm.Fn != nil {
		return ev.CallTerm(st, e.FnTerm, args)
	}
	if e.Fn != nil {
		fn := ev.P.TargetOf(e.Fn)
		if len(fn.Blocks) == 0 {
			ev.Err = fmt.Errorf("RunEvent: %s has no body", fn)
			return nil
		}
		var all []*T
		if e.Recv != nil && fn.Signature.Recv() != nil {
			all = append(all, e.Recv)
		}
		all = append(all, args...)
		return ev.RunFrom(st, fn, all, nil)
	}
	ev.Err = fmt.Errorf("RunEvent: callee of %s is not a known function", e.Callee)
	return nil
}

// EventFn: the function a call-like event starts (closure body, bound method, static callee), or nil.
func (ev *Evaluator) EventFn(e *Event) *ssa.Function {
	if e.FnTerm != nil && e.FnTerm.Fn != nil {
		return ev.P.TargetOf(e.FnTerm.Fn)
	}
	if e.Fn != nil {
		return ev.P.TargetOf(e.Fn)
	}
	return nil
}

func (ev *Evaluator) pushFrame(st *State, fn *ssa.Function, args []*T, free []*T, retTo ssa.Value, noAdv bool) {
	fr := &Frame{fn: fn, env: map[ssa.Value]*T{}, visits: map[*ssa.BasicBlock]int{}, free: free, retTo: retTo, noAdv: noAdv, depth: len(st.frames) - st.base}
	for i, p := range fn.Params {
		if i < len(args) {
			fr.env[p] = args[i]
		} else {
			fr.env[p] = ev.TS.intern(&T{Op: "param", Aux: p.Name(), Typ: p.Type()})
		}
	}
	for i, f := range fn.FreeVars {
		if i < len(free) {
			fr.env[f] = free[i]
		} else {
			fr.env[f] = ev.TS.intern(&T{Op: "free", Aux: f.Name(), Typ: f.Type()})
		}
	}
	st.frames = append(st.frames, fr)
	fr.block = fn.Blocks[0]
	fr.visits[fr.block] = 1
}

func (ev *Evaluator) drive(st *State) []*Path {
	work := []*State{st}
	var out []*Path
	for len(work) > 0 {
		s := work[len(work)-1]
		work = work[:len(work)-1]
		p, forks := ev.runState(s)
		work = append(work, forks...)
		if p != nil {
			out = append(out, p)
		}
		if len(out)+len(work) > ev.Cfg.MaxPaths {
			ev.Err = fmt.Errorf("path explosion (> %d paths)", ev.Cfg.MaxPaths)
			return out
		}
		if ev.Err != nil {
			return out
		}
	}
	return out
}

// val gives the term of an SSA value in frame fr.
func (ev *Evaluator) val(st *State, fr *Frame, v ssa.Value) *T {
	switch x := v.(type) {
	case *ssa.Const:
		if x.Value == nil {
			if isNillable(x.Type()) {
				return ev.TS.Nil(x.Type())
			}
			return ev.TS.zeroOf(x.Type())
		}
		return ev.TS.Const(x.Value, x.Type())
	case *ssa.Function:
		return ev.TS.intern(&T{Op: "func", Fn: origin(x), Aux: qualName(x), Typ: x.Type()})
	case *ssa.Global:
		return ev.TS.intern(&T{Op: "global", Aux: x.Pkg.Pkg.Name() + "." + x.Name(), Typ: x.Type()})
	case *ssa.Builtin:
		return ev.TS.intern(&T{Op: "builtin", Aux: x.Name()})
	}
	if t, ok := fr.env[v]; ok {
		return t
	}
	ev.Err = fmt.Errorf("no value for %s (%T) in %s", v.Name(), v, fr.fn)
	return ev.TS.intern(&T{Op: "undef", Aux: v.Name()})
}

func (ev *Evaluator) emit(st *State, e *Event) *Event {
	fr := st.top()
	e.InFn = fr.fn
	e.Depth = fr.depth
	e.Idx = len(st.Events)
	st.Events = append(st.Events, e)
	if !e.Pure {
		st.epoch++
	}
	return e
}

// runState advances st until it exits; returns the finished path (or nil if pruned) and forked states.
func (ev *Evaluator) runState(st *State) (*Path, []*State) {
	var forks []*State
	for steps := 0; ; steps++ {
		if steps > 200000 {
			ev.Err = fmt.Errorf("step limit")
			return nil, forks
		}
		if st.pendingCut != nil {
			return &Path{State: st, Exit: ExitCut, CutAt: st.pendingCut}, forks
		}
		fr := st.top()
		if fr.pc >= len(fr.block.Instrs) {
			ev.Err = fmt.Errorf("fell off block %d of %s", fr.block.Index, fr.fn)
			return nil, forks
		}
		instr := fr.block.Instrs[fr.pc]
		switch in := instr.(type) {
		case *ssa.If:
			c := ev.val(st, fr, in.Cond)
			if ev.clampSelect(st, fr, in) {
				continue
			}
			r := st.Facts.Truth(ev.TS, c)
			if r != triU && fr.visits[fr.block] > 1 && fr.refunds < 12 {
				// a loop whose test the facts decide (a range over a table of known length) runs a known number of
				// times: entering its header again is not exploration, and is not charged against the loop bound
				fr.visits[fr.block]--
				fr.refunds++
			}
			if r == triU {
				other := st.clone()
				if other.Facts.Assume(ev.TS, c, false) {
					if !ev.jump(other, other.top(), fr.block.Succs[1]) {
						other.pendingCut = fr.block.Succs[1]
					}
					forks = append(forks, other)
				}
				if !st.Facts.Assume(ev.TS, c, true) {
					return nil, forks
				}
				r = triT
			}
			succ := fr.block.Succs[0]
			if r == triF {
				succ = fr.block.Succs[1]
			}
			if !ev.jump(st, fr, succ) {
				return &Path{State: st, Exit: ExitCut, CutAt: succ}, forks
			}
		case *ssa.Jump:
			if !ev.jump(st, fr, fr.block.Succs[0]) {
				return &Path{State: st, Exit: ExitCut, CutAt: fr.block.Succs[0]}, forks
			}
		case *ssa.Return:
			var rets []*T
			for _, r := range in.Results {
				rets = append(rets, ev.val(st, fr, r))
			}
			if fr.retOverride != nil && len(rets) == 1 {
				rets[0] = fr.retOverride // the two returns of a clamp, evaluated as one (clampSelect)
				fr.retOverride = nil
			}
			if len(st.frames)-1 == st.base {
				if ev.Cfg.DecideReturns {
					for _, r := range rets {
						if isBoolType(r.Typ) && st.Facts.Truth(ev.TS, r) == triU {
							other := st.clone()
							if other.Facts.Assume(ev.TS, r, false) {
								forks = append(forks, other)
							}
							st.Facts.Assume(ev.TS, r, true)
						}
					}
				}
				return &Path{State: st, Exit: ExitReturn, Rets: rets}, forks
			}
			st.frames = st.frames[:len(st.frames)-1]
			caller := st.top()
			if fr.retTo != nil {
				// a generic helper returning the zero value of its type parameter: the caller knows the concrete type
				if len(rets) == 1 && (rets[0].Op == "nil" || rets[0].Op == "zero") {
					if _, isTP := in.Results[0].Type().(*types.TypeParam); isTP {
						if _, isBasic := fr.retTo.Type().Underlying().(*types.Basic); isBasic {
							rets[0] = ev.TS.zeroOf(fr.retTo.Type())
						}
					}
				}
				// values typed by a type parameter inside the helper get the caller's concrete static type
				for i, r := range rets {
					if r == nil || r.Typ == nil {
						continue
					}
					_, isTP := r.Typ.(*types.TypeParam)
					if pt, isPtr := r.Typ.(*types.Pointer); isPtr && !isTP {
						_, isTP = pt.Elem().(*types.TypeParam) // *T: a fresh copy made by a generic helper
					}
					if !isTP {
						continue
					}
					var static types.Type = fr.retTo.Type()
					if tup, isTup := static.(*types.Tuple); isTup {
						if i >= tup.Len() {
							continue
						}
						static = tup.At(i).Type()
					}
					if _, stillTP := static.(*types.TypeParam); !stillTP {
						r.Typ = static
					}
				}
				caller.env[fr.retTo] = ev.tuple(rets)
			}
			if !fr.noAdv {
				caller.pc++
			}
		case *ssa.Panic:
			ev.emit(st, &Event{Kind: EvPanic, Val: ev.val(st, fr, in.X), Instr: in})
			if !ev.Cfg.KeepPanics && defensivePanic(st) {
				// an explicit panic behind a nil test (or a failed type test) stands where the code would have failed with
				// a nil dereference (a failed assertion) anyway: not an outcome the rules reason about
				return nil, forks
			}
			return &Path{State: st, Exit: ExitPanic}, forks
		case *ssa.RunDefers:
			if n := len(fr.defers); n > 0 {
				d := fr.defers[n-1]
				fr.defers = fr.defers[:n-1]
				ev.doCall(st, fr, d.call, d.instr, nil, true, &d)
				// doCall either pushed a frame (noAdv) or emitted an opaque event; re-run RunDefers
				continue
			}
			fr.pc++
		case *ssa.Store:
			addr := ev.val(st, fr, in.Addr)
			v := ev.val(st, fr, in.Val)
			if s := decomposable(v.Typ); s != nil && v.Op == "zero" && s.NumFields() > 0 && !isFreshRoot(addr) {
				// *p = T{} is the field-wise reset it abbreviates
				for i := 0; i < s.NumFields(); i++ {
					fa := ev.faddr(addr, v.Typ, i)
					fv := ev.TS.zeroOf(s.Field(i).Type())
					ev.emit(st, &Event{Kind: EvStore, Addr: fa, Val: fv, Instr: in})
					ev.store(st, fa, fv)
				}
				fr.pc++
				continue
			}
			if !isFreshRoot(addr) {
				ev.emit(st, &Event{Kind: EvStore, Addr: addr, Val: v, Instr: in})
			}
			ev.store(st, addr, v)
			fr.pc++
		case *ssa.Send:
			ev.emit(st, &Event{Kind: EvSend, Addr: ev.val(st, fr, in.Chan), Val: ev.val(st, fr, in.X), Instr: in})
			fr.pc++
		case *ssa.MapUpdate:
			ev.emit(st, &Event{Kind: EvMapUpdate, Addr: ev.val(st, fr, in.Map), Args: []*T{ev.val(st, fr, in.Key)}, Val: ev.val(st, fr, in.Value), Instr: in})
			fr.pc++
		case *ssa.DebugRef:
			fr.pc++
		case *ssa.Go:
			e := ev.callEvent(st, fr, &in.Call, in)
			e.Kind = EvGo
			ev.emit(st, e)
			e.Snap = st.clone()
			fr.pc++
		case *ssa.Defer:
			d := deferred{call: &in.Call, instr: in}
			e := ev.callEvent(st, fr, &in.Call, in)
			d.fn, d.recv, d.args = e.FnTerm, e.Recv, e.Args
			if e.FnTerm == nil && !in.Call.IsInvoke() {
				d.fn = ev.val(st, fr, in.Call.Value)
			}
			fr.defers = append(fr.defers, d)
			e.Kind = EvDefer
			ev.emit(st, e)
			fr.pc++
		case *ssa.Select:
			n := len(in.States)
			total := n
			if !in.Blocking {
				total++
			}
			var cases []SelCase
			for _, s := range in.States {
				c := SelCase{Dir: s.Dir, Chan: ev.val(st, fr, s.Chan)}
				if s.Send != nil {
					c.Send = ev.val(st, fr, s.Send)
				}
				cases = append(cases, c)
			}
			// a case on a nil channel can never proceed: it is not a choice, and it is not part of the wait the rules see
			var feasible []int
			var live []SelCase
			liveIdx := map[int]int{}
			for i := range in.States {
				if cases[i].Chan.IsNilConst() || st.Facts.Truth(ev.TS, ev.TS.Cmp("==", cases[i].Chan, ev.TS.Nil(nil))) == triT {
					continue
				}
				liveIdx[i] = len(live)
				live = append(live, cases[i])
				feasible = append(feasible, i)
			}
			if len(live) == n {
				live = cases
			}
			if total > n {
				feasible = append(feasible, n)
			}
			if len(feasible) == 0 {
				return &Path{State: st, Exit: ExitCut, CutAt: fr.block}, forks // blocks for ever
			}
			for k := len(feasible) - 1; k >= 0; k-- {
				choice := feasible[k]
				s2 := st
				if k > 0 {
					s2 = st.clone()
				}
				f2 := s2.top()
				idx := choice
				if choice == n {
					idx = -1
				}
				shown := idx
				if idx >= 0 && len(live) != n {
					shown = liveIdx[idx]
				}
				e := ev.emit(s2, &Event{Kind: EvSelect, Cases: live, Chosen: shown, Instr: in})
				tup := []*T{ev.TS.LinConst(int64(idx), types.Typ[types.Int]), ev.TS.Bool(true)}
				if idx >= 0 && in.States[idx].Dir == types.RecvOnly {
					tup[1] = ev.fresh(s2, "res", types.Typ[types.Bool], in)
				}
				for i, s := range in.States {
					if s.Dir == types.RecvOnly {
						var rt types.Type
						if ch, ok := s.Chan.Type().Underlying().(*types.Chan); ok {
							rt = ch.Elem()
						}
						if i == idx {
							r := ev.fresh(s2, "res", rt, in, cases[i].Chan)
							e.Res = []*T{r}
							tup = append(tup, r)
						} else {
							tup = append(tup, ev.TS.zeroOf(rt))
						}
					}
				}
				f2.env[in] = ev.TS.intern(&T{Op: "tuple", Args: tup})
				f2.pc++
				if k > 0 {
					forks = append(forks, s2)
				}
			}
		case ssa.Value:
			if call, ok := in.(*ssa.Call); ok {
				pushed := ev.doCall(st, fr, &call.Call, call, call, false, nil)
				if !pushed {
					fr.pc++
				}
				continue
			}
			t, fk := ev.evalValue(st, fr, in)
			forks = append(forks, fk...)
			if t == nil {
				return nil, forks
			}
			fr.env[in] = t
			fr.pc++
		default:
			ev.Err = fmt.Errorf("unhandled instruction %T in %s", instr, fr.fn)
			return nil, forks
		}
		if ev.Err != nil {
			return nil, forks
		}
	}
}

// clampSelect recognises `if a < b { x = a } else { x = b }` and its one-armed forms (`if x < lo { x = lo }`): an
// integer comparison whose two outcomes only choose, in empty blocks, which of the two compared values flows into
// the phis of the join. Such a diamond is min(a, b) or max(a, b) — exactly what the builtins denote — so it is
// evaluated as that term instead of forking: a clamp written with if statements and one written with min/max have
// the same summaries. Anything else about the shape (other instructions in the arms, other phi operands, floats)
// leaves the ordinary path split in place.
func (ev *Evaluator) clampSelect(st *State, fr *Frame, in *ssa.If) bool {
	cmp, ok := in.Cond.(*ssa.BinOp)
	if !ok || !isIntType(cmp.X.Type()) || !isIntType(cmp.Y.Type()) {
		return false
	}
	switch cmp.Op {
	case token.LSS, token.LEQ, token.GTR, token.GEQ:
	default:
		return false
	}
	b := fr.block
	tS, fS := b.Succs[0], b.Succs[1]
	// an arm is a block reached only from the comparison that computes values (loads, conversions, arithmetic) without
	// effects and then jumps on
	empty := func(x *ssa.BasicBlock) bool {
		if len(x.Preds) != 1 || len(x.Instrs) == 0 {
			return false
		}
		for i, xi := range x.Instrs {
			if i == len(x.Instrs)-1 {
				_, isJump := xi.(*ssa.Jump)
				return isJump
			}
			switch v := xi.(type) {
			case *ssa.FieldAddr, *ssa.Field, *ssa.Convert, *ssa.ChangeType, *ssa.BinOp, *ssa.DebugRef:
			case *ssa.UnOp:
				if v.Op == token.ARROW {
					return false
				}
			default:
				return false
			}
		}
		return false
	}
	// armEnv evaluates an arm's value instructions on a scratch copy of the frame and returns that frame
	armEnv := func(x *ssa.BasicBlock) *Frame {
		if x == b {
			return fr
		}
		s2 := st.clone()
		f2 := s2.top()
		for _, xi := range x.Instrs[:len(x.Instrs)-1] {
			v, isV := xi.(ssa.Value)
			if !isV {
				continue
			}
			t, fk := ev.evalValue(s2, f2, v)
			if t == nil || len(fk) > 0 {
				return nil
			}
			f2.env[v] = t
		}
		return f2
	}
	tx, ty := ev.val(st, fr, cmp.X), ev.val(st, fr, cmp.Y)
	// the chosen value as a term: which of the compared values flows on when the comparison holds / does not hold
	selectTerm := func(vt, vf *T, typ types.Type) *T {
		if vt == vf {
			return vt
		}
		var pickXWhenTrue bool
		switch {
		case vt == tx && vf == ty:
			pickXWhenTrue = true
		case vt == ty && vf == tx:
			pickXWhenTrue = false
		default:
			return nil
		}
		less := cmp.Op == token.LSS || cmp.Op == token.LEQ // X <(=) Y
		name := "max"
		if less == pickXWhenTrue {
			name = "min" // X<Y ? X : Y, or X>Y ? Y : X
		}
		args := []*T{tx, ty}
		sort.Slice(args, func(i, j int) bool { return args[i].id < args[j].id })
		return ev.TS.intern(&T{Op: "app", Aux: name, Args: args, Typ: typ})
	}
	// `if a < b { return a }; return b`: both outcomes are blocks that only return one of the compared values
	onlyReturn := func(x *ssa.BasicBlock) ssa.Value {
		if len(x.Instrs) != 1 || len(x.Preds) != 1 {
			return nil
		}
		if r, isRet := x.Instrs[0].(*ssa.Return); isRet && len(r.Results) == 1 {
			return r.Results[0]
		}
		return nil
	}
	if vt, vf := onlyReturn(tS), onlyReturn(fS); vt != nil && vf != nil && len(fr.defers) == 0 {
		sameSSA := func(u, v ssa.Value) bool {
			if u == v {
				return true
			}
			ku, ok1 := u.(*ssa.Const)
			kv, ok2 := v.(*ssa.Const)
			return ok1 && ok2 && ku.Value != nil && kv.Value != nil && ku.Value.ExactString() == kv.Value.ExactString()
		}
		t := selectTerm(ev.val(st, fr, vt), ev.val(st, fr, vf), vt.Type())
		if t != nil && ev.val(st, fr, vt) == ev.val(st, fr, vf) {
			// both returns denote the same term on this path (e.g. the clamped value is the constant bound itself): keep
			// the shape the builtin would give, decided by which operand each return names
			t = nil
			less := cmp.Op == token.LSS || cmp.Op == token.LEQ
			var pickX, known bool
			switch {
			case sameSSA(vt, cmp.X) && sameSSA(vf, cmp.Y):
				pickX, known = true, true
			case sameSSA(vt, cmp.Y) && sameSSA(vf, cmp.X):
				pickX, known = false, true
			}
			if known {
				name := "max"
				if less == pickX {
					name = "min"
				}
				args := []*T{tx, ty}
				sort.Slice(args, func(i, j int) bool { return args[i].id < args[j].id })
				t = ev.TS.intern(&T{Op: "app", Aux: name, Args: args, Typ: vt.Type()})
			}
		}
		if t != nil {
			fr.retOverride = t
			fr.visits[tS]++
			fr.prev = b
			fr.block = tS
			fr.pc = 0
			return true
		}
	}
	var join *ssa.BasicBlock
	var tPred, fPred *ssa.BasicBlock // predecessors of the join on the true / false outcome
	switch {
	case empty(tS) && tS.Succs[0] == fS:
		join, tPred, fPred = fS, tS, b
	case empty(fS) && fS.Succs[0] == tS:
		join, tPred, fPred = tS, b, fS
	case empty(tS) && empty(fS) && tS.Succs[0] == fS.Succs[0]:
		join, tPred, fPred = tS.Succs[0], tS, fS
	default:
		return false
	}
	ti, fi := -1, -1
	for i, p := range join.Preds {
		if p == tPred {
			ti = i
		}
		if p == fPred {
			fi = i
		}
	}
	if ti < 0 || fi < 0 || ti == fi {
		return false
	}
	tFrame, fFrame := armEnv(tPred), armEnv(fPred)
	if tFrame == nil || fFrame == nil {
		return false
	}
	var phis []*ssa.Phi
	var vals []*T
	nPhi := 0
	for _, ji := range join.Instrs {
		ph, isPhi := ji.(*ssa.Phi)
		if !isPhi {
			break
		}
		nPhi++
		t := selectTerm(ev.val(st, tFrame, ph.Edges[ti]), ev.val(st, fFrame, ph.Edges[fi]), ph.Type())
		if t == nil {
			return false
		}
		phis, vals = append(phis, ph), append(vals, t)
	}
	if nPhi == 0 {
		return false
	}
	fr.visits[join]++
	for i, ph := range phis {
		fr.env[ph] = vals[i]
	}
	fr.prev = tPred
	fr.block = join
	fr.pc = len(phis)
	return true
}

// exhaustedEnum: the path has excluded every declared constant of some value's named integer type (the default arm
// of a switch over an enumeration that lists all its members): unreachable for every value the type declares.
func exhaustedEnum(st *State) bool {
	excluded := map[*T]map[string]bool{}
	for _, a := range st.Facts.Log {
		c := a.Cond
		if c == nil || c.Op != "cmp" || len(c.Args) != 2 {
			continue
		}
		if !((c.Aux == "==" && !a.Val) || (c.Aux == "!=" && a.Val)) {
			continue
		}
		x, k := c.Args[0], c.Args[1]
		if _, isK := x.IsConstInt(); isK {
			x, k = k, x
		}
		kv, isK := k.IsConstInt()
		if !isK || x.Typ == nil {
			continue
		}
		if excluded[x] == nil {
			excluded[x] = map[string]bool{}
		}
		excluded[x][fmt.Sprint(kv)] = true
	}
	for x, ex := range excluded {
		n, isN := x.Typ.(*types.Named)
		if !isN || n.Obj().Pkg() == nil {
			continue
		}
		if b, isB := n.Underlying().(*types.Basic); !isB || b.Info()&types.IsInteger == 0 {
			continue
		}
		sc := n.Obj().Pkg().Scope()
		total, all := 0, true
		for _, name := range sc.Names() {
			if k, isC := sc.Lookup(name).(*types.Const); isC && types.Identical(k.Type(), n) {
				total++
				if v, exact := constant.Int64Val(constant.ToInt(k.Val())); !exact || !ex[fmt.Sprint(v)] {
					all = false
				}
			}
		}
		if total >= 2 && all {
			return true
		}
	}
	return false
}

var stdLoopHelpers = map[string]bool{"Contains": true, "ContainsFunc": true, "Index": true, "IndexFunc": true}

// defensivePanic: the panic's immediate guard (the last atoms assumed on the path) is "x == nil" or a failed type test.
func defensivePanic(st *State) bool {
	if exhaustedEnum(st) {
		return true
	}
	log := st.Facts.Log
	if len(log) > 3 {
		log = log[len(log)-3:]
	}
	for _, a := range log {
		c := a.Cond
		if c == nil {
			continue
		}
		if c.Op == "cmp" && len(c.Args) == 2 && (c.Args[0].IsNilConst() || c.Args[1].IsNilConst()) {
			if (c.Aux == "==" && a.Val) || (c.Aux == "!=" && !a.Val) {
				return true
			}
		}
		if c.Op == "app" && strings.HasPrefix(c.Aux, "typeok:") && !a.Val {
			return true
		}
	}
	return false
}

func (ev *Evaluator) tuple(ts []*T) *T {
	if len(ts) == 1 {
		return ts[0]
	}
	return ev.TS.intern(&T{Op: "tuple", Args: ts})
}

// jump moves fr to succ evaluating phis; false if the loop bound is exceeded.
func (ev *Evaluator) jump(st *State, fr *Frame, succ *ssa.BasicBlock) bool {
	fr.visits[succ]++
	bound := ev.Cfg.MaxVisits
	if fr.depth > 0 && bound < 5 {
		// loops of inlined helpers (typically over a short fixed list of candidates) are unrolled further: their
		// trip count is usually decided by the arguments, and a cut there would leave the caller's rule undecided
		bound = 5
	}
	if fr.visits[succ] > bound {
		return false
	}
	prev := fr.block
	// predecessor index
	pi := -1
	for i, p := range succ.Preds {
		if p == prev {
			pi = i
			break
		}
	}
	var phis []*ssa.Phi
	var vals []*T
	for _, in := range succ.Instrs {
		ph, ok := in.(*ssa.Phi)
		if !ok {
			break
		}
		phis = append(phis, ph)
		vals = append(vals, ev.val(st, fr, ph.Edges[pi]))
	}
	for i, ph := range phis {
		fr.env[ph] = vals[i]
	}
	fr.prev = prev
	fr.block = succ
	fr.pc = len(phis)
	return true
}

func convIdentity(from, to types.Type) bool {
	if from == nil || to == nil {
		return true
	}
	if isIntType(from) && isIntType(to) {
		return true
	}
	if typeClass(from) == "ref" && typeClass(to) == "ref" {
		return true
	}
	if types.Identical(from.Underlying(), to.Underlying()) {
		return true
	}
	return false
}

func (ev *Evaluator) evalValue(st *State, fr *Frame, v ssa.Value) (*T, []*State) {
	ts := ev.TS
	switch x := v.(type) {
	case *ssa.Alloc:
		return ev.fresh(st, "alloc", x.Type(), x), nil
	case *ssa.MakeClosure:
		var bs []*T
		for _, b := range x.Bindings {
			bs = append(bs, ev.val(st, fr, b))
		}
		st.nFresh++
		fn := origin(x.Fn.(*ssa.Function))
		return ts.intern(&T{Op: "closure", Aux: fmt.Sprint(st.nFresh), Fn: fn, Args: bs, Typ: x.Type(), Site: x}), nil
	case *ssa.MakeChan:
		return ev.fresh(st, "makechan", x.Type(), x, ev.val(st, fr, x.Size)), nil
	case *ssa.MakeSlice:
		return ev.fresh(st, "makeslice", x.Type(), x, ev.val(st, fr, x.Len), ev.val(st, fr, x.Cap)), nil
	case *ssa.MakeMap:
		return ev.fresh(st, "makemap", x.Type(), x), nil
	case *ssa.MakeInterface:
		return ev.val(st, fr, x.X), nil
	case *ssa.ChangeInterface:
		return ev.val(st, fr, x.X), nil
	case *ssa.ChangeType:
		return ev.val(st, fr, x.X), nil
	case *ssa.Convert:
		a := ev.val(st, fr, x.X)
		if convIdentity(x.X.Type(), x.Type()) {
			return a, nil
		}
		if k, ok := a.IsConstInt(); ok && isFloatType(x.Type()) {
			return ts.intern(&T{Op: "const", K: constant.MakeFloat64(float64(k)), Typ: x.Type()}), nil
		}
		return ts.intern(&T{Op: "app", Aux: "conv:" + typeClass(x.Type()), Args: []*T{a}, Typ: x.Type()}), nil
	case *ssa.MultiConvert:
		return ev.val(st, fr, x.X), nil
	case *ssa.FieldAddr:
		base := ev.val(st, fr, x.X)
		return ev.faddr(base, x.X.Type(), x.Field), nil
	case *ssa.Field:
		s := ev.val(st, fr, x.X)
		if s.Op == "struct" && x.Field < len(s.Args) {
			return s.Args[x.Field], nil
		}
		k, ft := fieldKey(x.X.Type(), x.Field)
		if ev.P.unsetHook(k, ft) {
			return ts.zeroOf(ft), nil
		}
		return ts.intern(&T{Op: "fld", Aux: k, Args: []*T{s}, Typ: ft}), nil
	case *ssa.IndexAddr:
		base := ev.val(st, fr, x.X)
		idx := ev.val(st, fr, x.Index)
		if arr, _, ok := wholeArray(base); ok {
			base = arr // arr[:][i] is arr[i]
		} else if b, _, ok := prefixSlice(base); ok {
			base = b // s[:n][i] is s[i]
		}
		var et types.Type
		switch u := x.X.Type().Underlying().(type) {
		case *types.Slice:
			et = u.Elem()
		case *types.Pointer:
			if a, ok := u.Elem().Underlying().(*types.Array); ok {
				et = a.Elem()
			}
		}
		var pt types.Type
		if et != nil {
			pt = types.NewPointer(et)
		}
		return ts.intern(&T{Op: "iaddr", Args: []*T{base, idx}, Typ: pt}), nil
	case *ssa.Index:
		return ts.intern(&T{Op: "app", Aux: "index", Args: []*T{ev.val(st, fr, x.X), ev.val(st, fr, x.Index)}, Typ: x.Type()}), nil
	case *ssa.Lookup:
		m, k := ev.val(st, fr, x.X), ev.val(st, fr, x.Index)
		if r, fk, ok := ev.constMapLookup(st, fr, x, m, k); ok {
			return r, fk
		}
		val := ts.intern(&T{Op: "app", Aux: "lookup", Args: []*T{m, k}, Typ: x.Type()})
		if x.CommaOk {
			ok := ts.intern(&T{Op: "app", Aux: "haskey", Args: []*T{m, k}, Typ: types.Typ[types.Bool]})
			return ts.intern(&T{Op: "tuple", Args: []*T{val, ok}}), nil
		}
		return val, nil
	case *ssa.Slice:
		args := []*T{ev.val(st, fr, x.X)}
		for _, o := range []ssa.Value{x.Low, x.High, x.Max} {
			if o != nil {
				args = append(args, ev.val(st, fr, o))
			} else {
				args = append(args, ts.intern(&T{Op: "none"}))
			}
		}
		return ts.intern(&T{Op: "app", Aux: "slice", Args: args, Typ: x.Type()}), nil
	case *ssa.SliceToArrayPointer:
		return ev.val(st, fr, x.X), nil
	case *ssa.Extract:
		t := ev.val(st, fr, x.Tuple)
		if t.Op == "tuple" && x.Index < len(t.Args) {
			return t.Args[x.Index], nil
		}
		return ts.intern(&T{Op: "extract", Aux: fmt.Sprint(x.Index), Args: []*T{t}, Typ: x.Type()}), nil
	case *ssa.TypeAssert:
		a := ev.val(st, fr, x.X)
		if x.CommaOk {
			ok := ts.intern(&T{Op: "app", Aux: "typeok:" + assertedTypeString(x.AssertedType), Args: []*T{a}, Typ: types.Typ[types.Bool]})
			return ts.intern(&T{Op: "tuple", Args: []*T{a, ok}}), nil
		}
		return a, nil
	case *ssa.Range:
		return ev.fresh(st, "range", nil, x, ev.val(st, fr, x.X)), nil
	case *ssa.Next:
		ok := ev.fresh(st, "res", types.Typ[types.Bool], x)
		k := ev.fresh(st, "res", nil, x)
		vv := ev.fresh(st, "res", nil, x)
		return ts.intern(&T{Op: "tuple", Args: []*T{ok, k, vv}}), nil
	case *ssa.Phi:
		ev.Err = fmt.Errorf("phi outside block head in %s", fr.fn)
		return nil, nil
	case *ssa.UnOp:
		a := ev.val(st, fr, x.X)
		switch x.Op {
		case token.MUL:
			return ev.load(st, a, x.Type()), nil
		case token.NOT:
			return ts.Not(a), nil
		case token.SUB:
			if isIntType(x.Type()) {
				return ts.Neg(a, x.Type()), nil
			}
			return ts.Un("-", a, x.Type()), nil
		case token.ARROW:
			e := ev.emit(st, &Event{Kind: EvRecv, Addr: a, Instr: x})
			var et types.Type
			if ch, ok := x.X.Type().Underlying().(*types.Chan); ok {
				et = ch.Elem()
			}
			r := ev.fresh(st, "res", et, x, a)
			e.Res = []*T{r}
			if x.CommaOk {
				ok := ev.fresh(st, "res", types.Typ[types.Bool], x)
				return ts.intern(&T{Op: "tuple", Args: []*T{r, ok}}), nil
			}
			return r, nil
		default:
			return ts.Un(x.Op.String(), a, x.Type()), nil
		}
	case *ssa.BinOp:
		a, b := ev.val(st, fr, x.X), ev.val(st, fr, x.Y)
		switch x.Op {
		case token.EQL, token.NEQ, token.LSS, token.LEQ, token.GTR, token.GEQ:
			// inside a generic helper the zero value of a type parameter is compared with a value whose concrete
			// type is known from the inlining caller: use that type's zero
			a, b = concreteZero(ts, a, x.X.Type(), b), concreteZero(ts, b, x.Y.Type(), a)
			return ts.Cmp(x.Op.String(), a, b), nil
		case token.ADD:
			if isIntType(x.Type()) {
				return ts.Add(a, b, x.Type()), nil
			}
			return ts.Bin("+", a, b, x.Type(), !isStringish(x.Type())), nil
		case token.SUB:
			if isIntType(x.Type()) {
				return ts.Sub(a, b, x.Type()), nil
			}
			return ts.Bin("-", a, b, x.Type(), false), nil
		case token.MUL:
			if isIntType(x.Type()) {
				if k, ok := a.IsConstInt(); ok {
					return ts.MulConst(b, k, x.Type()), nil
				}
				if k, ok := b.IsConstInt(); ok {
					return ts.MulConst(a, k, x.Type()), nil
				}
			}
			return ts.Bin("*", a, b, x.Type(), true), nil
		case token.AND, token.OR, token.XOR:
			return ts.Bin(x.Op.String(), a, b, x.Type(), true), nil
		default:
			return ts.Bin(x.Op.String(), a, b, x.Type(), false), nil
		}
	}
	ev.Err = fmt.Errorf("unhandled value %T in %s", v, fr.fn)
	return nil, nil
}

func concreteZero(ts *Terms, z *T, static types.Type, other *T) *T {
	if (z.Op != "nil" && z.Op != "zero") || static == nil || other == nil || other.Typ == nil {
		return z
	}
	if _, isTP := static.(*types.TypeParam); !isTP {
		return z
	}
	if _, isBasic := other.Typ.Underlying().(*types.Basic); !isBasic {
		return z
	}
	return ts.zeroOf(other.Typ)
}

// wholeArray: t is arr[:] (or arr[0:]) of an array addressed by pointer; returns the array pointer term and length.
// prefixSlice: t is s[:hi] (or s[0:hi]) of a slice s: its elements are s's, its length is hi.
func prefixSlice(t *T) (*T, *T, bool) {
	if t.Op != "app" || t.Aux != "slice" || len(t.Args) != 4 || t.Args[0].Typ == nil {
		return nil, nil, false
	}
	if _, isSlice := t.Args[0].Typ.Underlying().(*types.Slice); !isSlice {
		return nil, nil, false
	}
	if lo := t.Args[1]; lo.Op != "none" {
		if k, isK := lo.IsConstInt(); !isK || k != 0 {
			return nil, nil, false
		}
	}
	if t.Args[2].Op == "none" || t.Args[3].Op != "none" {
		return nil, nil, false
	}
	return t.Args[0], t.Args[2], true
}

func wholeArray(t *T) (*T, int64, bool) {
	if t.Op != "app" || t.Aux != "slice" || len(t.Args) != 4 || t.Args[0].Typ == nil {
		return nil, 0, false
	}
	pt, ok := t.Args[0].Typ.Underlying().(*types.Pointer)
	if !ok {
		return nil, 0, false
	}
	arr, ok := pt.Elem().Underlying().(*types.Array)
	if !ok {
		return nil, 0, false
	}
	if lo := t.Args[1]; lo.Op != "none" {
		if k, isK := lo.IsConstInt(); !isK || k != 0 {
			return nil, 0, false
		}
	}
	n := arr.Len()
	if hi := t.Args[2]; hi.Op != "none" {
		k, isK := hi.IsConstInt()
		if !isK {
			return nil, 0, false
		}
		n = k
	}
	return t.Args[0], n, true
}

func isStringish(t types.Type) bool {
	b, ok := t.Underlying().(*types.Basic)
	return ok && b.Info()&types.IsString != 0
}

// callEvent builds the (not yet emitted) event describing a call.
func (ev *Evaluator) callEvent(st *State, fr *Frame, c *ssa.CallCommon, instr ssa.Instruction) *Event {
	e := &Event{Kind: EvCall, Instr: instr}
	for _, a := range c.Args {
		e.Args = append(e.Args, ev.val(st, fr, a))
	}
	if c.IsInvoke() {
		e.Recv = ev.val(st, fr, c.Value)
		e.Method = canonMethodName(c.Method)
		e.Callee = "invoke:" + e.Method
		return e
	}
	switch v := c.Value.(type) {
	case *ssa.Function:
		e.Fn = origin(v)
		e.Callee = qualName(v)
		e.Method = canonName(v)
		if v.Signature.Recv() != nil && len(e.Args) > 0 {
			e.Recv = e.Args[0]
			e.Args = e.Args[1:]
		}
		if ev.P.InScope[e.Fn] {
			rawA, rawR := e.Args, e.Recv
			ev.normaliseArgs(e, e.Fn)
			if len(rawA) != len(e.Args) || rawR != e.Recv || !sameTerms(rawA, e.Args) {
				e.RawArgs, e.RawRecv, e.Normalised = rawA, rawR, true
			}
		}
	case *ssa.Builtin:
		e.Callee = "builtin:" + v.Name()
		e.Method = v.Name()
	default:
		ft := ev.val(st, fr, c.Value)
		if ft.Op == "closure" || ft.Op == "func" {
			e.Fn = ft.Fn
			e.Callee = qualName(ft.Fn)
			e.Method = ft.Fn.Name()
			if ft.Op == "closure" {
				e.FnTerm = ft
				// bound method wrappers: treat as the method itself
				if ft.Fn != nil && strings.HasSuffix(ft.Fn.Name(), "$bound") && len(ft.Args) == 1 {
					e.Recv = ft.Args[0]
					e.Method = strings.TrimSuffix(ft.Fn.Name(), "$bound")
					e.FnTerm = nil
					if m := ev.P.TargetOf(ft.Fn); m != nil && m != origin(ft.Fn) && m.Signature.Recv() != nil && !ev.Cfg.KeepHandedClosures {
						e.Fn = m
						e.Callee = qualName(m)
						e.Method = canonName(m)
					}
				}
			}
		} else {
			e.FnTerm = ft
			e.Callee = "dyn"
		}
	}
	return e
}

// doCall performs a call instruction: inline (push frame, returns true) or opaque (event, returns false).
func (ev *Evaluator) doCall(st *State, fr *Frame, c *ssa.CallCommon, instr ssa.Instruction, dst ssa.Value, isDefer bool, d *deferred) bool {
	var e *Event
	if d != nil {
		// arguments were evaluated at defer time
		e = &Event{Kind: EvCall, Instr: instr, Args: d.args, Recv: d.recv, FnTerm: d.fn}
		if c.IsInvoke() {
			e.Method = canonMethodName(c.Method)
			e.Callee = "invoke:" + e.Method
			e.FnTerm = nil
		} else if f, ok := c.Value.(*ssa.Function); ok {
			e.Fn = origin(f)
			e.Callee = qualName(f)
			e.Method = canonName(f)
			e.FnTerm = nil
		} else if b, ok := c.Value.(*ssa.Builtin); ok {
			e.Callee = "builtin:" + b.Name()
			e.Method = b.Name()
			e.FnTerm = nil
		} else if d.fn != nil && (d.fn.Op == "closure" || d.fn.Op == "func") {
			e.Fn = d.fn.Fn
			e.Callee = qualName(d.fn.Fn)
			e.Method = d.fn.Fn.Name()
			if d.fn.Op == "func" {
				e.FnTerm = nil
			}
		} else {
			e.Callee = "dyn"
		}
	} else {
		e = ev.callEvent(st, fr, c, instr)
	}
	ts := ev.TS

	// builtins
	if strings.HasPrefix(e.Callee, "builtin:") {
		name := e.Method
		var res *T
		switch name {
		case "len", "cap":
			a := e.Args[0]
			if s, ok := a.IsConstString(); ok && name == "len" {
				res = ts.LinConst(int64(len(s)), types.Typ[types.Int])
			} else if _, n, isArr := wholeArray(a); isArr {
				res = ts.LinConst(n, types.Typ[types.Int])
			} else if _, hi, isPre := prefixSlice(a); isPre && name == "len" {
				res = hi
			} else if a.Op == "makeslice" && name == "len" {
				res = a.Args[0]
			} else if a.IsNilConst() {
				res = ts.LinConst(0, types.Typ[types.Int])
			} else {
				res = ts.intern(&T{Op: "app", Aux: name, Args: []*T{a}, Typ: types.Typ[types.Int]})
			}
		case "min", "max":
			args := append([]*T(nil), e.Args...)
			sort.Slice(args, func(i, j int) bool { return args[i].id < args[j].id })
			var typ types.Type
			if v, ok := instr.(ssa.Value); ok {
				typ = v.Type()
			}
			res = ts.intern(&T{Op: "app", Aux: name, Args: args, Typ: typ})
		case "append":
			var typ types.Type
			if v, ok := instr.(ssa.Value); ok {
				typ = v.Type()
			}
			res = ts.intern(&T{Op: "app", Aux: "append", Args: e.Args, Typ: typ})
		case "close":
			ev.emit(st, &Event{Kind: EvClose, Addr: e.Args[0], Instr: instr})
		case "ssa:wrapnilchk":
			res = e.Args[0]
		default:
			ev.emit(st, e)
			if v, ok := instr.(ssa.Value); ok && dst != nil {
				res = ev.fresh(st, "res", v.Type(), instr)
			}
		}
		if dst != nil && res != nil {
			fr.env[dst] = res
		} else if dst != nil {
			fr.env[dst] = ts.intern(&T{Op: "unit"})
		}
		return false
	}

	// slices.Grow / slices.Clip only change the capacity: the slice's elements and length are the argument's
	if e.Fn != nil && e.FnTerm == nil && e.Fn.Pkg != nil && e.Fn.Pkg.Pkg.Path() == "slices" && (e.Fn.Name() == "Grow" || e.Fn.Name() == "Clip") && len(e.Args) >= 1 {
		if dst != nil {
			fr.env[dst] = e.Args[0]
		}
		return false
	}

	// resolve callee
	callee := e.Fn
	seamRecv := c.IsInvoke() && e.Recv != nil && (unexportedIface(c.Value.Type()) || e.Recv.Op == "struct" || e.Recv.Op == "zero" || ev.seamVals[e.Recv] || (e.Recv.Op == "init" && ev.seamType(e.Recv.Args[0]) != nil))
	devirt := false
	if c.IsInvoke() && ev.Cfg.ResolveInvoke != nil {
		if f, nr := ev.Cfg.ResolveInvoke(ev, st, e.Recv, c.Method.Name()); f != nil {
			callee = origin(f)
			e.Fn = callee
			e.Callee = qualName(callee)
			e.Method = canonName(callee)
			if nr != nil {
				e.Recv = nr
			}
			devirt = seamRecv
		}
	}
	// an unexported interface of the library with a single implementer is that implementer (a collaborator seam)
	if c.IsInvoke() && callee == nil && e.Recv != nil {
		// the receiver is a value built in line, or what a collaborator seam is known to hold: bound by its type
		var f *ssa.Function
		switch {
		case e.Recv.Op == "struct" || e.Recv.Op == "zero" || ev.seamVals[e.Recv]:
			f = ev.bindByTermType(e.Recv.Typ, c.Method.Name())
		case e.Recv.Op == "init" && ev.seamType(e.Recv.Args[0]) != nil:
			f = ev.bindByTermType(ev.seamType(e.Recv.Args[0]), c.Method.Name())
		case unexportedIface(c.Value.Type()):
			// a concrete library value seen through an unexported interface of the library
			f = ev.bindByTermType(e.Recv.Typ, c.Method.Name())
		}
		if f != nil {
			callee = origin(f)
			e.Fn = callee
			e.Callee = qualName(callee)
			e.Method = canonName(callee)
			devirt = true
		}
	}
	if c.IsInvoke() && callee == nil {
		if f := ev.P.soleImplementer(c.Value.Type(), c.Method); f != nil {
			callee = origin(f)
			e.Fn = callee
			e.Callee = qualName(callee)
			e.Method = canonName(callee)
			devirt = true
		}
	}
	depth := len(st.frames) - st.base
	inline := false
	if callee != nil && len(callee.Blocks) > 0 && depth < ev.Cfg.MaxDepth {
		isClosure := e.FnTerm != nil && e.FnTerm.Op == "closure"
		if isClosure {
			inline = ev.Cfg.InlineClosures
			if ev.Cfg.Inline != nil && ev.Cfg.Inline(callee, depth) {
				inline = true
			}
			// a function literal called by the function that defines it (a local helper) is part of that function
			// ... and so is one handed to a helper that is being evaluated in line and calls it while the defining
			// function is still running (doLocked(func() { … })), or kept in a local table and called from there
			if !inline && !isDefer && callee.Parent() != nil && (onlyCalled(e.FnTerm) || !ev.Cfg.KeepHandedClosures) {
				for _, f := range st.frames[st.base:] {
					if f.fn == callee.Parent() {
						inline = true
					}
				}
			}
			// a closure made by a helper the reviewed tree does not have (a table of sources, an adapter factory) is
			// part of the restructuring: its value is known, so it is evaluated in place
			if !inline && !isDefer && callee.Parent() != nil && !ev.Cfg.KeepHandedClosures {
				par := callee.Parent()
				for par.Parent() != nil {
					par = par.Parent()
				}
				if _, known := refParamNames(ev.P.CanonFuncName(par)); !known && ev.P.InScope[par] {
					inline = true
				}
				// … and so is a known closure called by a helper the reviewed tree does not have (the helper was handed it)
				cur := fr.fn
				for cur.Parent() != nil {
					cur = cur.Parent()
				}
				if _, known := refParamNames(ev.P.CanonFuncName(cur)); !known && ev.P.InScope[cur] {
					inline = true
				}
			}
		} else if ev.Cfg.Inline != nil {
			inline = ev.Cfg.Inline(callee, depth)
		}
		if !inline && !ev.Cfg.NoSamePkgInline && (!c.IsInvoke() || devirt) && e.FnTerm == nil && (callee.Parent() == nil || len(callee.FreeVars) == 0) && callee.Pkg != nil && callee.Pkg == ev.rootPkg && ev.P.InScope[callee] &&
			!ev.isProtocol(callee) && !ev.Cfg.Opaque[canonName(callee)] {
			inline = true
		}
		// a helper of another library package that the reviewed tree does not have (a shared NotifyListener, a
		// ContextOrBackground moved to internal/) is the code it replaced in the caller
		callerTop := fr.fn
		for callerTop.Parent() != nil {
			callerTop = callerTop.Parent()
		}
		if !inline && !ev.Cfg.NoSamePkgInline && !c.IsInvoke() && e.FnTerm == nil && callee.Parent() == nil && callee.Pkg != nil && callee.Pkg != ev.rootPkg &&
			ev.P.InScope[callee] && !ev.Cfg.Opaque[canonName(callee)] && !ev.isProtocol(callee) {
			if _, known := refParamNames(ev.P.CanonFuncName(callee)); !known {
				switch {
				case callee.Pkg != callerTop.Pkg && callee.Object() != nil && callee.Object().Exported():
					inline = true
				case callee.Pkg == callerTop.Pkg && ev.P.InScope[callerTop]:
					// … and so are the new helpers such a helper is itself built from (CancellableCopy → Internal)
					if _, callerKnown := refParamNames(ev.P.CanonFuncName(callerTop)); !callerKnown {
						inline = true
					}
				}
			}
		}
		// a call bound through a collaborator seam is the adapter the restructuring introduced: part of the caller
		if !inline && devirt && ev.P.InScope[callee] {
			// ... unless it is a function the upstream tree already has: then it is an ordinary call; and unless it is a read
			// of an injected time source (the clock, the stopwatch): those stay the named reads they are, whatever the
			// implementing type is called
			if _, known := refParamNames(ev.P.CanonFuncName(callee)); !known && !clockReads[callee.Name()] {
				inline = true
			}
		}
		// the search helpers of the standard slices package are the loops they replace
		if !inline && e.FnTerm == nil && callee.Pkg != nil && callee.Pkg.Pkg.Path() == "slices" && stdLoopHelpers[callee.Name()] {
			inline = true
		}
		// a method expression's thunk is the method call it wraps
		if !inline && e.FnTerm == nil && strings.HasSuffix(callee.Name(), "$thunk") && callee.Synthetic != "" && len(callee.Blocks) == 1 {
			inline = true
		}
		// no recursion
		for _, f := range st.frames[st.base:] {
			if f.fn == callee {
				inline = false
			}
		}
	}
	if inline {
		var args []*T
		recv, plain := e.Recv, e.Args
		if e.Normalised {
			recv, plain = e.RawRecv, e.RawArgs
		}
		if recv != nil && callee.Signature.Recv() != nil {
			args = append(args, recv)
		}
		args = append(args, plain...)
		var free []*T
		if e.FnTerm != nil && e.FnTerm.Op == "closure" {
			free = e.FnTerm.Args
		}
		ev.pushFrame(st, callee, args, free, dst, isDefer)
		return true
	}

	// opaque call
	e.Pure = ev.Cfg.Pure(e)
	var rtypes []types.Type
	if v, ok := instr.(ssa.Value); ok && dst != nil {
		if tup, ok := v.Type().(*types.Tuple); ok {
			for i := 0; i < tup.Len(); i++ {
				rtypes = append(rtypes, tup.At(i).Type())
			}
		} else {
			rtypes = []types.Type{v.Type()}
		}
	}
	if e.Pure {
		args := []*T{}
		if e.Recv != nil {
			args = append(args, e.Recv)
		}
		args = append(args, e.Args...)
		for i, rt := range rtypes {
			aux := fmt.Sprintf("%s@%d", e.Method, st.epoch)
			if len(rtypes) > 1 {
				aux = fmt.Sprintf("%s#%d@%d", e.Method, i, st.epoch)
			}
			e.Res = append(e.Res, ts.intern(&T{Op: "app", Aux: aux, Args: args, Typ: rt}))
		}
		// context.Context: "If Done is closed, Err returns a non-nil error" — an Err() read after the path received
		// from that context's Done channel is not nil
		// … and likewise the execution's LastError() after its Canceled() channel was received from (the library's own
		// guarantee, decided by the LastError table of the flags rule: no recorded error ∧ context done ⇒ the context's error)
		if (e.Method == "Err" || e.Method == "LastError") && e.Recv != nil && len(e.Res) == 1 {
			for _, x := range st.Events {
				var ch *T
				switch {
				case x.Kind == EvSelect && x.Chosen >= 0 && x.Chosen < len(x.Cases) && x.Cases[x.Chosen].Dir == types.RecvOnly:
					ch = x.Cases[x.Chosen].Chan
				case x.Kind == EvRecv:
					ch = x.Addr
				}
				want := "Done@"
				if e.Method == "LastError" {
					want = "Canceled@"
				}
				if ch != nil && ch.Op == "app" && strings.HasPrefix(ch.Aux, want) && len(ch.Args) == 1 && ch.Args[0] == e.Recv {
					st.Facts.nils[e.Res[0]] = false
				}
			}
		}
		ev.emit(st, e)
	} else {
		ev.emit(st, e)
		for i, rt := range rtypes {
			r := ev.fresh(st, "res", rt, instr)
			if nonNilResults[e.Callee] && i == 0 {
				st.Facts.nils[r] = false
			}
			e.Res = append(e.Res, r)
		}
		if callee != nil && ev.Cfg.MayWrite != nil {
			ev.havoc(st, ev.Cfg.MayWrite(callee))
		}
		hasClosure := false
		for _, a := range e.Args {
			if a.Op == "closure" {
				hasClosure = true
			}
		}
		if hasClosure || ev.Cfg.SnapshotAll {
			e.Snap = st.clone()
		}
	}
	if dst != nil {
		if len(e.Res) == 0 {
			fr.env[dst] = ts.intern(&T{Op: "unit"})
		} else {
			fr.env[dst] = ev.tuple(e.Res)
		}
	}
	return false
}

// ---- printing ----------------------------------------------------------------------------------------

func (ev *Evaluator) DumpPath(p *Path, withPure bool) string {
	var sb strings.Builder
	fmt.Fprintf(&sb, "  when: %s\n", p.State.Facts.String())
	for _, e := range p.Events() {
		if e.Pure && !withPure {
			continue
		}
		fmt.Fprintf(&sb, "    %s%s   [%s]\n", strings.Repeat("  ", e.Depth), e.String(), ev.P.Pos(e.Instr.Pos()))
	}
	var rs []string
	for _, r := range p.Rets {
		rs = append(rs, ev.Describe(p.State, r))
	}
	fmt.Fprintf(&sb, "  exit: %s %s\n", p.Exit, strings.Join(rs, ", "))
	return sb.String()
}

// Describe renders a term; pointers to fresh structs are shown with their field contents.
func (ev *Evaluator) Describe(st *State, t *T) string {
	if t == nil {
		return "<nil>"
	}
	if t.Op == "alloc" && t.Typ != nil {
		if p, ok := t.Typ.Underlying().(*types.Pointer); ok {
			if s := decomposable(p.Elem()); s != nil {
				var fs []string
				for i := 0; i < s.NumFields(); i++ {
					v := ev.load(st, ev.faddr(t, p.Elem(), i), s.Field(i).Type())
					fs = append(fs, s.Field(i).Name()+":"+v.String())
				}
				return "&{" + strings.Join(fs, " ") + "}"
			}
		}
	}
	return t.String()
}
