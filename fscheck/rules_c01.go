package main

// C01 — Policies compose as nested wrappers, in declaration order (DESIGN §3 C01).

import (
	"fmt"
	"go/types"
	"strings"

	"golang.org/x/tools/go/ssa"
)

func rulesC01(c *Ctx) {
	c01Compose(c)
	c01Leaf(c)
	c01BaseApply(c)
	c01PostExecute(c)
	c01Verdict(c)
	c01Self(c)
	c01Outermost(c)
	c01WithContext(c)
	c01Wrapper(c)
	// "each policy handles only what the policy inside it returned": what a policy handles is decided by the shared
	// classification
	c12IsFailure(c)
	c12Registrars(c)
	c12AnyOf(c)
	c12Shared(c)
	c12Unwrap(c)
	// "each policy handles only what the policy inside it returned … the function is invoked only when every
	// enclosing policy admits the attempt": the wrapper summary of every policy executor
	c.Rule("retry-wrapper")
	retryLoop(c, map[string]bool{"loop": true, "returns": true})
	// what the retry policy hands to the policy outside it (the handled outcome, the last outcome, ExceededError) is
	// what that policy then handles: the decision table of its OnFailure is part of the nesting
	retryDecision(c, map[string]bool{"decision": true})
	c04Gate(c)
	// … and what "admits" means for a breaker is its states' admission tables (an execution that half-opens the
	// breaker must itself take a trial permit)
	c03OpenTable(c)
	c04Pairing(c)
	c05Executor(c)
	c06Pairing(c)
	c07Race(c)
	c09Loop(c)
	c10Apply(c)
	c11Pre(c)
	c11Post(c)
	c16Executor(c)
	ruleFailureResult(c)
	// which error the caller receives when policies are nested (a Timeout inside a retry, a cancellation during a
	// later attempt) is decided by the execution's cancel-result slot: it is reported while set and discarded when
	// the next attempt starts, so that an inner policy's stale verdict never replaces the outer policy's
	execStateMethods(c, map[string]bool{"Cancel": true, "InitializeRetry": true, "IsCanceledWithResult": true, "isCanceledWithResult": true})
	// "the caller receives precisely the outermost policy's result and error", also through the async accessors
	// (Get, Result, Error all report what the runner recorded)
	asyncResultRules(c)
	// "the individual policies' documented behaviours" are those of the policy as built: Build snapshots the builder
	buildCopiesConfig(c)
}

// resultField loads field f of the PolicyResult a returned pointer term points to.
func resultField(ev *Evaluator, st *State, ptr *T, f string) *T {
	if ptr == nil {
		return nil
	}
	return ev.LoadField(st, ptr, f)
}

func isTrue(t *T) bool  { b, ok := t.IsConstBool(); return ok && b }
func isFalse(t *T) bool { b, ok := t.IsConstBool(); return ok && !b }

// ---- C01.compose --------------------------------------------------------------------------------------

func c01Compose(c *Ctx) {
	c.Rule("compose")
	fn := c.P.Func("failsafe.(*executor).execute")
	if fn == nil {
		c.Unresolved("failsafe.(*executor).execute", "function not found")
		return
	}
	ev := NewEvaluator(c.P, EvalConfig{MaxVisits: visits(4), KeepHandedClosures: true})
	paths := ev.Run(fn)
	if ev.Err != nil {
		c.Undecided(c.fn(fn), c.P.FuncPos(fn), "evaluation failed: "+ev.Err.Error(), "")
		return
	}
	outerExec := ev.Param(fn, "outerExec")
	complete := map[int]int{}
	leafTargets := map[*ssa.Function]bool{}
	bad := 0
	for _, p := range paths {
		if p.Exit == ExitPanic {
			continue
		}
		var toExec, apply []*Event
		var final *Event
		var leafTerm *T // the leaf handed to the innermost Apply, or (no policies) the function invoked directly
		for _, e := range p.Events() {
			switch {
			case isCall(e, "ToExecutor"):
				toExec = append(toExec, e)
			case isCall(e, "Apply"):
				if len(apply) == 0 && len(e.Args) == 1 && e.Args[0].Op == "closure" {
					leafTerm = e.Args[0]
				}
				apply = append(apply, e)
			case e.Kind == EvCall && len(e.Args) == 1 && e.Args[0] == outerExec && ((e.FnTerm != nil && loadedField(e.FnTerm) == "") ||
				(e.FnTerm == nil && e.Fn != nil && c.P.TargetOf(e.Fn) != origin(e.Fn))):
				if final != nil {
					bad++
					c.Fail(c.fn(fn)+"#invoke-once", c.P.Pos(e.Instr.Pos()), "the composed function is invoked more than once", pathTrace(ev, p))
				}
				final = e
			}
		}
		fail := func(msg string) {
			bad++
			c.Fail(c.fn(fn), c.P.FuncPos(fn), msg, pathTrace(ev, p))
		}
		// ToExecutor j is called on policies[len-1-j]; Apply j is called on its result with the previous composition
		var prev *T
		okShape := true
		for j, te := range toExec {
			r := te.Recv
			if !(r != nil && r.Op == "init" && r.Args[0].Op == "iaddr" && loadedField(r.Args[0].Args[0]) == "policies") {
				fail(fmt.Sprintf("ToExecutor #%d is not called on an element of the executor's policies", j))
				okShape = false
				break
			}
			idx := r.Args[0].Args[1]
			pol := r.Args[0].Args[0]
			want := ev.TS.Add(ev.TS.intern(&T{Op: "app", Aux: "len", Args: []*T{pol}, Typ: types.Typ[types.Int]}), ev.TS.LinConst(int64(-1-j), types.Typ[types.Int]), types.Typ[types.Int])
			if idx != want {
				fail(fmt.Sprintf("ToExecutor #%d is called on policies[%s], expected policies[%s] (innermost policy first)", j, idx, want))
				okShape = false
				break
			}
			if j >= len(apply) {
				if p.Exit == ExitCut {
					break
				}
				fail("a ToExecutor result is not applied")
				okShape = false
				break
			}
			ap := apply[j]
			if ap.Recv != te.Res[0] {
				fail(fmt.Sprintf("Apply #%d is not invoked on the executor returned by ToExecutor #%d", j, j))
				okShape = false
				break
			}
			if j == 0 {
				if len(ap.Args) != 1 || ap.Args[0].Op != "closure" {
					fail("the innermost Apply does not receive the leaf function")
					okShape = false
					break
				}
			} else if len(ap.Args) != 1 || ap.Args[0] != prev {
				fail(fmt.Sprintf("Apply #%d does not wrap the composition built so far", j))
				okShape = false
				break
			}
			prev = ap.Res[0]
		}
		if !okShape || p.Exit == ExitCut {
			continue
		}
		if len(apply) != len(toExec) {
			fail("number of Apply calls differs from number of ToExecutor calls")
			continue
		}
		if final == nil {
			fail("the composed function is never invoked with the outer execution")
			continue
		}
		if len(toExec) == 0 {
			if !(final.FnTerm != nil && final.FnTerm.Op == "closure") && !(final.FnTerm == nil && final.Fn != nil && c.P.TargetOf(final.Fn) != origin(final.Fn)) {
				fail("with no policies the leaf function is not what is invoked")
				continue
			}
		} else if final.FnTerm != prev {
			fail("the function invoked is not the outermost Apply result")
			continue
		}
		if len(p.Rets) != 1 || p.Rets[0] != final.Res[0] {
			fail("execute does not return the composed function's result")
			continue
		}
		// loop exit condition: with k policies exactly k iterations — facts must say len(policies) == k
		polLen := ev.TS.intern(&T{Op: "app", Aux: "len", Args: []*T{ev.LoadField(ev.NewState(), ev.Param(fn, "e"), "policies")}, Typ: types.Typ[types.Int]})
		if r := p.State.Facts.Truth(ev.TS, ev.TS.Cmp("==", polLen, ev.TS.LinConst(int64(len(toExec)), types.Typ[types.Int]))); r != triT {
			fail(fmt.Sprintf("path applies %d policies but does not imply len(policies) == %d", len(toExec), len(toExec)))
			continue
		}
		complete[len(toExec)]++
		if leafTerm != nil {
			leafTargets[c.P.TargetOf(leafTerm.Fn)] = true
		} else if final.FnTerm != nil {
			leafTargets[c.P.TargetOf(final.FnTerm.Fn)] = true
		} else {
			leafTargets[c.P.TargetOf(final.Fn)] = true
		}
	}
	if bad == 0 && len(leafTargets) != 1 {
		bad++
		c.Fail(c.fn(fn)+"#one-leaf", c.P.FuncPos(fn), fmt.Sprintf("the function wrapped by the innermost policy and the function run when there are no policies differ (%d distinct leaves)", len(leafTargets)), "")
	}
	c.Count("paths", len(paths))
	if bad == 0 {
		for k := 0; k <= 2; k++ {
			if complete[k] == 0 {
				c.Undecided(fmt.Sprintf("%s#%d-policies", c.fn(fn), k), c.P.FuncPos(fn), fmt.Sprintf("no complete path composing %d policies was found", k), "")
			} else {
				c.Ok(fmt.Sprintf("%s#%d-policies", c.fn(fn), k), c.P.FuncPos(fn), fmt.Sprintf("%d paths: ToExecutor/Apply on policies[len-1..0], composed function invoked once with the outer execution, its result returned", complete[k]))
			}
		}
	}
}

// leafFunction: the function execute hands to the innermost policy's Apply (a closure or a bound method).
func leafFunction(c *Ctx) *ssa.Function {
	fn := c.P.Func("failsafe.(*executor).execute")
	if fn == nil {
		return nil
	}
	ev := NewEvaluator(c.P, EvalConfig{})
	for _, p := range ev.Run(fn) {
		for _, e := range p.Events() {
			if isCall(e, "Apply") && len(e.Args) == 1 && e.Args[0].Op == "closure" {
				return c.P.TargetOf(e.Args[0].Fn)
			}
		}
	}
	return nil
}

// ---- C01.leaf ------------------------------------------------------------------------------------------

func c01Leaf(c *Ctx) {
	c.Rule("leaf")
	fn := c.P.Func("failsafe.(*executor).execute")
	if fn == nil {
		c.Unresolved("failsafe.(*executor).execute$1", "leaf closure not found")
		return
	}
	ev := NewEvaluator(c.P, EvalConfig{})
	// find the leaf closure: the closure passed to the innermost Apply / created first
	var leaf *T
	var st *State
	for _, p := range ev.Run(fn) {
		for _, e := range p.Events() {
			if isCall(e, "Apply") && len(e.Args) == 1 && e.Args[0].Op == "closure" && leaf == nil {
				leaf = e.Args[0]
				st = p.State
			}
		}
	}
	if leaf == nil {
		c.Unresolved("failsafe.(*executor).execute$1", "no closure is passed to the innermost Apply")
		return
	}
	leafFn := c.P.TargetOf(leaf.Fn)
	name := "failsafe.(*executor).execute$1" // the leaf, however it is written (closure or bound method)
	pos := c.P.FuncPos(leafFn)
	userFn := ev.Param(fn, "fn")
	if len(leaf.Fn.Params) != 1 {
		c.Unresolved(name, "the leaf function does not take exactly the execution")
		return
	}
	exec := ev.TS.intern(&T{Op: "param", Aux: "exec", Typ: leaf.Fn.Params[0].Type()})
	paths := ev.CallTerm(st, leaf, []*T{exec})
	if ev.Err != nil || len(paths) == 0 {
		c.Undecided(name, pos, fmt.Sprintf("evaluation failed: %v", ev.Err), "")
		return
	}
	ok := true
	for _, p := range paths {
		if p.Exit != ExitReturn {
			ok = false
			c.Fail(name, pos, "leaf has a non-returning path", pathTrace(ev, p))
			continue
		}
		calls := eventsWhere(p, func(e *Event) bool { return isDynCall(e, userFn) })
		// the execution counter is bumped by record() upstream; whether that is a method or written out in the leaf,
		// what counts is one Add(1) on the execution's own executions counter
		onExecCounter := func(e *Event) bool {
			return e.Recv != nil && loadedField(e.Recv) == "executions" && rootOf(e.Recv.Args[0]) == exec
		}
		recs := eventsWhere(p, func(e *Event) bool {
			if isCall(e, "record") {
				return true
			}
			return isCall(e, "Add") && onExecCounter(e) && len(e.Args) == 1 && e.Args[0] == ev.TS.LinConst(1, e.Args[0].Typ)
		})
		if len(calls) != 1 {
			ok = false
			c.Fail(name, pos, fmt.Sprintf("the user function is invoked %d times on a path (expected exactly once)", len(calls)), pathTrace(ev, p))
			continue
		}
		// the execution handed to the user function is a private copy (or none at all)
		if len(calls[0].Args) != 1 {
			ok = false
			c.Fail(name, pos, "the user function must receive exactly one execution argument", pathTrace(ev, p))
			continue
		}
		if ua := calls[0].Args[0]; !ua.IsNilConst() {
			cp := eventsWhere(p, func(e *Event) bool { return isCall(e, "copy") && e.Recv == exec && len(e.Res) == 1 && e.Res[0] == ua })
			adapted := false
			if len(cp) != 1 && userFn != nil && userFn.Typ != nil {
				// the function called here takes the library's own *execution: it is one of the library's adapters, never
				// the user's function; each of them must keep the live execution to itself
				if sg, isSig := userFn.Typ.Underlying().(*types.Signature); isSig && sg.Params().Len() == 1 && isConcreteExecution(sg.Params().At(0).Type()) {
					if okA, _, _ := adaptersConfineExecution(c); okA {
						adapted = true
					}
				}
			}
			if len(cp) != 1 && !adapted {
				ok = false
				c.Fail(name, pos, "the user function receives the live, lock-protected execution instead of a private copy (execInternal.copy()): its LastResult/LastError are rewritten when a Timeout cancels the attempt, so a function that is still running would observe another attempt's outcome and race with Cancel", pathTrace(ev, p))
				continue
			}
		}
		if len(recs) != 1 || recs[0].Idx < calls[0].Idx || (recs[0].Recv != exec && !onExecCounter(recs[0])) {
			ok = false
			c.Fail(name, pos, "record() is not called exactly once on the execution after the user function returned", pathTrace(ev, p))
			continue
		}
		r := p.Rets[0]
		res, err := resultField(ev, p.State, r, "Result"), resultField(ev, p.State, r, "Error")
		done, succ, all := resultField(ev, p.State, r, "Done"), resultField(ev, p.State, r, "Success"), resultField(ev, p.State, r, "SuccessAll")
		if r.Op != "alloc" || res != calls[0].Res[0] || err != calls[0].Res[1] || done == nil || !isTrue(done) || !isTrue(succ) || !isTrue(all) {
			ok = false
			c.Fail(name, pos, "leaf does not return {Result: fn's result, Error: fn's error, Done/Success/SuccessAll: true}", pathTrace(ev, p))
		}
	}
	if ok {
		c.Ok(name, pos, fmt.Sprintf("%d paths: user fn called once, then record(), result wraps fn's values with Done/Success/SuccessAll=true", len(paths)))
	}
}

// ---- C01.base-apply ------------------------------------------------------------------------------------

// baseApplyShape checks the two shapes of BaseExecutor.Apply for executor info; returns per path whether
// innerFn was called.
func c01BaseApply(c *Ctx) {
	c.Rule("base-apply")
	tab := c.ExecTable()
	n := 0
	for _, pkg := range sortedKeys(tab) {
		info := tab[pkg]
		ap := info.Slots["Apply"]
		if ap == nil {
			c.Unresolved(pkg+".executor.Apply", "slot unresolved")
			continue
		}
		if c.fn(ap) != "policy.(*BaseExecutor).Apply" {
			continue
		}
		n++
		checkBaseApplyFor(c, info)
	}
	c.Floor("executors using BaseExecutor.Apply", n, 3)
}

func checkBaseApplyFor(c *Ctx, info *ExecInfo) {
	construct := info.Pkg + ".executor→policy.(*BaseExecutor).Apply"
	ee := c.NewExecEval(info, EvalConfig{})
	paths, innerFn, exec := ee.RunApply()
	ev := ee.Ev
	pos := c.P.FuncPos(info.Slots["Apply"])
	if ev.Err != nil || len(paths) == 0 {
		c.Undecided(construct, pos, fmt.Sprintf("evaluation failed: %v", ev.Err), "")
		return
	}
	ok := true
	shapes := map[string]int{}
	for _, p := range paths {
		if p.Exit != ExitReturn {
			ok = false
			c.Fail(construct, pos, "Apply closure has a non-returning path", pathTrace(ev, p))
			continue
		}
		evs := impure(p)
		// drop events of Apply itself (none expected) — keep only calls
		var calls []*Event
		for _, e := range evs {
			if e.Kind == EvCall {
				calls = append(calls, e)
			} else if e.Kind != EvStore {
				calls = append(calls, e)
			}
		}
		if len(calls) == 0 || !isCall(calls[0], "PreExecute") || calls[0].Fn != info.Slots["PreExecute"] || calls[0].Args[0] != exec {
			ok = false
			c.Fail(construct, pos, "the closure does not start by calling this executor's PreExecute with the execution", pathTrace(ev, p))
			continue
		}
		pre := calls[0].Res[0]
		nilness := p.State.Facts.Truth(ev.TS, ev.TS.Cmp("!=", pre, ev.TS.Nil(nil)))
		switch nilness {
		case triT:
			if len(calls) != 1 || p.Rets[0] != pre {
				ok = false
				c.Fail(construct, pos, "when PreExecute rejects (non-nil result) the closure must return that result without calling innerFn or PostExecute", pathTrace(ev, p))
				continue
			}
			shapes["rejected"]++
		case triF:
			if len(calls) != 3 || !isDynCall(calls[1], innerFn) || len(calls[1].Args) != 1 || calls[1].Args[0] != exec ||
				!isCall(calls[2], "PostExecute") || calls[2].Fn != info.Slots["PostExecute"] || calls[2].Args[0] != exec || calls[2].Args[1] != calls[1].Res[0] ||
				p.Rets[0] != calls[2].Res[0] {
				ok = false
				c.Fail(construct, pos, "when PreExecute admits (nil) the closure must call innerFn(exec) once, then this executor's PostExecute(exec, inner result) and return its result", pathTrace(ev, p))
				continue
			}
			shapes["admitted"]++
		default:
			ok = false
			c.Undecided(construct, pos, "closure does not distinguish a nil from a non-nil PreExecute result", pathTrace(ev, p))
		}
	}
	if ok && (shapes["rejected"] == 0 || shapes["admitted"] == 0) {
		ok = false
		c.Fail(construct, pos, "BaseExecutor.Apply lacks the rejected or the admitted path", "")
	}
	if ok {
		c.Ok(construct, pos, "PreExecute≠nil ⇒ returned, innerFn and PostExecute not called; PreExecute=nil ⇒ innerFn(exec) once, PostExecute(exec, inner), its result returned")
	}
	c.Count("paths", len(paths))
}

// ---- C01.postexecute -----------------------------------------------------------------------------------

func c01PostExecute(c *Ctx) {
	c.Rule("postexecute")
	tab := c.ExecTable()
	base := c.P.Func("policy.(*BaseExecutor).PostExecute")
	if base == nil {
		c.Unresolved("policy.(*BaseExecutor).PostExecute", "not found")
		return
	}
	{
		ev := NewEvaluator(c.P, EvalConfig{})
		paths := ev.Run(base)
		pos := c.P.FuncPos(base)
		name := c.fn(base)
		exec, er := ev.Param(base, "exec"), ev.Param(base, "er")
		self := ev.LoadField(ev.NewState(), ev.Param(base, "e"), "Executor")
		ok := ev.Err == nil && len(paths) > 0
		if !ok {
			c.Undecided(name, pos, fmt.Sprintf("evaluation failed: %v", ev.Err), "")
		}
		seen := map[string]bool{}
		for _, p := range paths {
			if p.Exit != ExitReturn {
				ok = false
				c.Fail(name, pos, "non-returning path", pathTrace(ev, p))
				continue
			}
			var isf, onF, onS, wf, wd []*Event
			for _, e := range p.Events() {
				switch {
				case isCall(e, "IsFailure"):
					isf = append(isf, e)
				case isCall(e, "OnFailure"):
					onF = append(onF, e)
				case isCall(e, "OnSuccess"):
					onS = append(onS, e)
				case isCall(e, "WithFailure"):
					wf = append(wf, e)
				case isCall(e, "WithDone"):
					wd = append(wd, e)
				}
			}
			bad := func(msg string) {
				ok = false
				c.Fail(name, pos, msg, pathTrace(ev, p))
			}
			if len(isf) != 1 || isf[0].Recv != self || isf[0].Args[0] != ev.LoadField(ev.NewState(), er, "Result") || isf[0].Args[1] != ev.LoadField(ev.NewState(), er, "Error") {
				bad("PostExecute must classify er.Result/er.Error exactly once through the self reference (e.Executor.IsFailure)")
				continue
			}
			v := p.State.Facts.Truth(ev.TS, isf[0].Res[0])
			switch v {
			case triT:
				if len(onF) != 1 || len(onS) != 0 || len(wf) != 1 || wf[0].Recv != er || onF[0].Recv != self || onF[0].Args[0] != exec || onF[0].Args[1] != wf[0].Res[0] || p.Rets[0] != onF[0].Res[0] {
					bad("on a failure PostExecute must call e.Executor.OnFailure(exec, er.WithFailure()) exactly once and return its result")
					continue
				}
				seen["failure"] = true
			case triF:
				if len(onS) != 1 || len(onF) != 0 || len(wd) != 1 || wd[0].Recv != er || !isTrue(wd[0].Args[0]) || !isTrue(wd[0].Args[1]) || onS[0].Recv != self || onS[0].Args[0] != exec || onS[0].Args[1] != wd[0].Res[0] || p.Rets[0] != wd[0].Res[0] {
					bad("on a success PostExecute must call e.Executor.OnSuccess(exec, er.WithDone(true,true)) exactly once and return that result")
					continue
				}
				seen["success"] = true
			default:
				ok = false
				c.Undecided(name, pos, "path does not depend on IsFailure", pathTrace(ev, p))
			}
		}
		if ok && !(seen["failure"] && seen["success"]) {
			ok = false
			c.Fail(name, pos, "PostExecute lacks the failure or the success branch", "")
		}
		if ok {
			c.Ok(name, pos, "IsFailure ⇒ OnFailure(exec, er.WithFailure()) returned; else OnSuccess(exec, er.WithDone(true,true)), that result returned; all through e.Executor")
		}
		c.Count("paths", len(paths))
	}
	// overriding PostExecutes return their argument unchanged
	n := 0
	for _, pkg := range sortedKeys(tab) {
		pe := tab[pkg].Slots["PostExecute"]
		if pe == nil {
			c.Unresolved(pkg+".executor.PostExecute", "slot unresolved")
			continue
		}
		if pe == base {
			continue
		}
		n++
		ev := NewEvaluator(c.P, EvalConfig{})
		paths := ev.Run(pe)
		arg := pe.Params[2]
		at := ev.Param(pe, arg.Name())
		ok := ev.Err == nil && len(paths) > 0
		for _, p := range paths {
			if p.Exit == ExitReturn && (len(p.Rets) != 1 || p.Rets[0] != at) {
				ok = false
				c.Fail(c.fn(pe), c.P.FuncPos(pe), "an overriding PostExecute must return the inner result it was given, unchanged", pathTrace(ev, p))
				break
			}
			// and must not write through it
			for _, e := range p.Events() {
				if e.Kind == EvStore && rootOf(e.Addr) == at {
					ok = false
					c.Fail(c.fn(pe), c.P.FuncPos(pe), "an overriding PostExecute must not modify the inner result", pathTrace(ev, p))
				}
			}
		}
		if ok {
			c.Ok(c.fn(pe), c.P.FuncPos(pe), fmt.Sprintf("%d paths all return the result argument unchanged", len(paths)))
		} else if ev.Err != nil {
			c.Undecided(c.fn(pe), c.P.FuncPos(pe), ev.Err.Error(), "")
		}
	}
	c.Floor("overriding PostExecute slots", n, 2)
}

// ---- C01.verdict ---------------------------------------------------------------------------------------

func c01Verdict(c *Ctx) {
	c.Rule("verdict")
	for _, name := range []string{"common.(*PolicyResult).WithDone", "common.(*PolicyResult).WithFailure"} {
		fn := c.P.Func(name)
		if fn == nil {
			c.Unresolved(name, "not found")
			continue
		}
		ev := NewEvaluator(c.P, EvalConfig{})
		paths := ev.Run(fn)
		pos := c.P.FuncPos(fn)
		if ev.Err != nil || len(paths) == 0 {
			c.Undecided(name, pos, fmt.Sprintf("evaluation failed: %v", ev.Err), "")
			continue
		}
		er := ev.Param(fn, fn.Params[0].Name())
		s0 := ev.NewState()
		old := func(f string) *T { return ev.LoadField(s0, er, f) }
		ok := true
		for _, p := range paths {
			bad := func(msg string) {
				ok = false
				c.Fail(name, pos, msg, pathTrace(ev, p))
			}
			if p.Exit != ExitReturn || len(p.Rets) != 1 {
				bad("non-returning path")
				continue
			}
			for _, e := range p.Events() {
				if e.Kind == EvStore {
					bad("writes to memory other than the fresh copy (the receiver must stay untouched)")
				}
			}
			r := p.Rets[0]
			if r.Op != "alloc" {
				bad("must return a fresh copy, not the receiver")
				continue
			}
			get := func(f string) *T { return ev.LoadField(p.State, r, f) }
			if get("Result") != old("Result") || get("Error") != old("Error") {
				bad("Result/Error of the copy differ from the receiver's")
				continue
			}
			if fn.Name() == "WithFailure" {
				if !isFalse(get("Success")) || !isFalse(get("SuccessAll")) || get("Done") != old("Done") {
					bad("WithFailure must yield Success=false, SuccessAll=false and keep Done")
				}
				continue
			}
			done, success := ev.Param(fn, "done"), ev.Param(fn, "success")
			if get("Done") != done || get("Success") != success {
				bad("WithDone must set Done=done and Success=success")
				continue
			}
			// SuccessAll = success ∧ old SuccessAll
			sa := get("SuccessAll")
			sv := p.State.Facts.Truth(ev.TS, success)
			var want *T
			switch sv {
			case triT:
				want = old("SuccessAll")
			case triF:
				want = ev.TS.Bool(false)
			}
			if want == nil {
				// not forked on success: accept only the literal conjunction
				bad("SuccessAll is not computed as success ∧ previous SuccessAll")
				continue
			}
			if sa != want {
				if p.State.Facts.Truth(ev.TS, sa) != p.State.Facts.Truth(ev.TS, want) || p.State.Facts.Truth(ev.TS, sa) == triU {
					bad(fmt.Sprintf("SuccessAll must be success ∧ previous SuccessAll (got %s with success=%s)", sa, sv))
				}
			}
		}
		if ok {
			c.Ok(name, pos, fmt.Sprintf("%d paths: fresh copy, Result/Error preserved, flags as specified, receiver untouched", len(paths)))
		}
	}
}

// ---- C01.self ------------------------------------------------------------------------------------------

func c01Self(c *Ctx) {
	c.Rule("self")
	n := 0
	for _, pkg := range executorPkgs {
		var te *ssa.Function
		for _, f := range c.P.Funcs {
			if f.Name() == "ToExecutor" && f.Pkg != nil && f.Pkg.Pkg.Name() == pkg && f.Signature.Recv() != nil {
				te = f
			}
		}
		if te == nil {
			c.Unresolved(pkg+".ToExecutor", "not found")
			continue
		}
		n++
		ev := NewEvaluator(c.P, EvalConfig{})
		paths := ev.Run(te)
		name, pos := c.fn(te), c.P.FuncPos(te)
		ok := ev.Err == nil && len(paths) > 0
		for _, p := range paths {
			if p.Exit != ExitReturn {
				continue
			}
			r := p.Rets[0]
			be := ev.LoadField(p.State, r, "BaseExecutor")
			// fresh: allocated here, possibly as parts of one fresh block that holds both (allocated together)
			freshObj := func(t *T) bool {
				return t != nil && (t.Op == "alloc" || (t.Op == "faddr" && isFreshRoot(t)))
			}
			if !freshObj(r) || !freshObj(be) || r == be {
				ok = false
				c.Fail(name, pos, "ToExecutor must return a freshly allocated executor with a fresh BaseExecutor (one policy executor per execution)", pathTrace(ev, p))
				continue
			}
			if self := ev.LoadField(p.State, be, "Executor"); self != r {
				ok = false
				c.Fail(name, pos, "BaseExecutor.Executor is not bound to the executor being returned: overridden slots would be bypassed", pathTrace(ev, p))
			}
			for _, e := range p.Events() {
				if e.Kind == EvStore {
					ok = false
					c.Fail(name, pos, "ToExecutor stores into shared memory (executors must be private to one execution)", pathTrace(ev, p))
				}
			}
		}
		if ok {
			c.Ok(name, pos, "returns a fresh executor whose BaseExecutor.Executor is the executor itself")
		} else if ev.Err != nil {
			c.Undecided(name, pos, ev.Err.Error(), "")
		}
	}
	c.Floor("ToExecutor implementations", n, 8)
}

// ---- C01.outermost -------------------------------------------------------------------------------------

// c01WithContext: Executor.WithContext(ctx) returns a copy of the executor that differs from it in the context only:
// a fresh object (listeners later registered on the copy do not reach the original, and the reverse), the very
// context given (its values — the cache key — its deadline and its cancellation are what executions see; a nil
// context keeps the old one), the same policies and listeners, and nothing else happens. The listeners live in the
// executor itself, not behind a pointer the copies would share.
// c01DefaultContext: an executor that was given no context carries context.Background() itself. The adapters'
// MergeContexts recognises "no execution context" by identity with context.Background() and then hands the caller's
// context through unchanged; any other placeholder (context.TODO(), a derived context) makes every attempt run under a
// merged child that is cancelled as soon as the attempt function returns — while the response body is still being read.
func c01DefaultContext(c *Ctx) {
	c.Rule("default-context")
	fn := c.P.Func("failsafe.NewExecutor")
	if fn == nil {
		c.Unresolved("failsafe.NewExecutor", "not found")
		return
	}
	name, pos := c.fn(fn), c.P.FuncPos(fn)
	ev := NewEvaluator(c.P, EvalConfig{})
	ps := ev.Run(fn)
	if ev.Err != nil || len(ps) == 0 {
		c.Undecided(name, pos, fmt.Sprintf("evaluation failed: %v", ev.Err), "")
		return
	}
	ok := true
	for _, p := range ps {
		if p.Exit != ExitReturn || len(p.Rets) != 1 {
			continue
		}
		ctx := ev.LoadField(p.State, p.Rets[0], "ctx")
		isBg := false
		if ctx != nil {
			for _, e := range p.Events() {
				if e.Kind == EvCall && e.Callee == "context.Background" && len(e.Res) == 1 && e.Res[0] == ctx {
					isBg = true
				}
			}
		}
		if !isBg {
			ok = false
			c.Fail(name, pos, "an executor without a configured context must carry context.Background() itself (MergeContexts recognises the absence of an execution context by that identity)", pathTrace(ev, p))
		}
	}
	if ok {
		c.Ok(name, pos, "ctx = context.Background()")
	}
}

func c01WithContext(c *Ctx) {
	c01DefaultContext(c)
	c.Rule("with-context")
	fn := c.P.Func("failsafe.(*executor).WithContext")
	if fn == nil {
		c.Unresolved("failsafe.(*executor).WithContext", "not found")
		return
	}
	name, pos := c.fn(fn), c.P.FuncPos(fn)
	ev := NewEvaluator(c.P, EvalConfig{})
	ts := ev.TS
	ps := ev.Run(fn)
	if ev.Err != nil || len(ps) == 0 {
		c.Undecided(name, pos, fmt.Sprintf("evaluation failed: %v", ev.Err), "")
		return
	}
	recv := ev.Param(fn, fn.Params[0].Name())
	ctx := ev.Param(fn, fn.Params[1].Name())
	s0 := ev.NewState()
	ok := true
	for _, p := range ps {
		bad := func(msg string) {
			ok = false
			c.Fail(name, pos, msg, pathTrace(ev, p))
		}
		if p.Exit != ExitReturn || len(p.Rets) != 1 {
			bad("WithContext must return")
			continue
		}
		r := p.Rets[0]
		if r == recv || !(r.Op == "alloc" || (r.Op == "faddr" && isFreshRoot(r))) {
			bad("WithContext must return a fresh copy of the executor: returning the receiver makes listeners registered on the derived executor overwrite the original's")
			continue
		}
		if len(impure(p)) != 0 {
			bad("WithContext must do nothing but copy the executor and set its context (no derived context, no calls)")
			continue
		}
		got := ev.LoadField(p.State, r, "ctx")
		switch p.State.Facts.Truth(ts, ts.Cmp("!=", ctx, ts.Nil(nil))) {
		case triT:
			if got != ctx {
				bad("the copy must carry exactly the context given: its values (the cache key), its deadline and its cancellation")
			}
		case triF:
			if got != ev.LoadField(s0, recv, "ctx") {
				bad("a nil context keeps the executor's context")
			}
		default:
			bad("the copy's context does not depend on whether a context was given")
		}
		for _, f := range []string{"policies", "onDone", "onSuccess", "onFailure"} {
			if ev.LoadField(p.State, r, f) != ev.LoadField(s0, recv, f) {
				bad("the copy must keep the executor's " + f)
			}
		}
	}
	// listener storage is not shared between copies
	if n := namedOfPtr(recv.Typ); n != nil {
		if st, isS := n.Underlying().(*types.Struct); isS {
			for i := 0; i < st.NumFields(); i++ {
				pn := namedOfPtr(st.Field(i).Type())
				if _, isPtr := st.Field(i).Type().Underlying().(*types.Pointer); !isPtr || pn == nil || pn.Obj().Pkg() == nil || !strings.HasPrefix(pn.Obj().Pkg().Path(), modPath) {
					continue
				}
				if ps, isS2 := pn.Underlying().(*types.Struct); isS2 {
					for j := 0; j < ps.NumFields(); j++ {
						if _, isFn := ps.Field(j).Type().Underlying().(*types.Signature); isFn {
							ok = false
							c.Fail(name+"#shared-listeners", pos, fmt.Sprintf("the executor keeps listener %s.%s behind a pointer: the copies WithContext makes share it, so a listener registered on one is seen (and raced on) by all", pn.Obj().Name(), ps.Field(j).Name()), "")
						}
					}
				}
			}
		}
	}
	if ok {
		c.Ok(name, pos, "fresh copy; the given context (the old one when nil); policies and listeners copied by value; no other effect")
	}
}

func c01Outermost(c *Ctx) {
	c.Rule("outermost")
	// executeSync returns (er.Result, er.Error) of execute's value
	if fn := c.P.Func("failsafe.(*executor).executeSync"); fn == nil {
		c.Unresolved("failsafe.(*executor).executeSync", "not found")
	} else {
		ev := NewEvaluator(c.P, EvalConfig{})
		paths := ev.Run(fn)
		ok := ev.Err == nil && len(paths) > 0
		for _, p := range paths {
			ex := eventsWhere(p, func(e *Event) bool { return isCall(e, "execute") })
			if p.Exit != ExitReturn || len(ex) != 1 || len(p.Rets) != 2 ||
				p.Rets[0] != ev.LoadField(p.State, ex[0].Res[0], "Result") || p.Rets[1] != ev.LoadField(p.State, ex[0].Res[0], "Error") ||
				ex[0].Args[0] != ev.Param(fn, "fn") {
				ok = false
				c.Fail(c.fn(fn), c.P.FuncPos(fn), "executeSync must run execute(fn, …) once and return exactly its Result and Error", pathTrace(ev, p))
			}
		}
		if ok {
			c.Ok(c.fn(fn), c.P.FuncPos(fn), "returns (er.Result, er.Error) of the single execute call")
		}
	}
	// the eight entry points wrap the user function transparently
	wrappers := []string{"Run", "RunWithExecution", "Get", "GetWithExecution", "RunAsync", "RunWithExecutionAsync", "GetAsync", "GetWithExecutionAsync"}
	n := 0
	for _, w := range wrappers {
		fn := c.P.Func("failsafe.(*executor)." + w)
		if fn == nil {
			c.Unresolved("failsafe.(*executor)."+w, "not found")
			continue
		}
		ev := NewEvaluator(c.P, EvalConfig{})
		paths := ev.Run(fn)
		userFn := ev.Param(fn, "fn")
		ok := ev.Err == nil && len(paths) > 0
		for _, p := range paths {
			inner := eventsWhere(p, func(e *Event) bool { return isCall(e, "executeSync") || isCall(e, "executeAsync") })
			direct := len(inner) == 1 && inner[0].Args[0] == userFn // the user function itself: the identity wrapper elided
			if len(inner) != 1 || (inner[0].Args[0].Op != "closure" && !direct) {
				ok = false
				c.Fail(c.fn(fn), c.P.FuncPos(fn), "entry point must funnel into executeSync/executeAsync exactly once with a wrapper closure", pathTrace(ev, p))
				continue
			}
			async := inner[0].Method == "executeAsync"
			withExec := w == "RunWithExecution" || w == "GetWithExecution" || w == "RunWithExecutionAsync" || w == "GetWithExecutionAsync"
			// executeSync(adapter(fn)) without a flag: the wrapper closure takes the library's own *execution, and it is the
			// wrapper that hands the user function a private copy (or nothing)
			adapted := len(inner[0].Args) < 2 && !direct && len(cl0(inner[0]).Fn.Params) == 1 && isConcreteExecution(cl0(inner[0]).Fn.Params[0].Type())
			if adapted {
				cl := inner[0].Args[0]
				ex := ev.TS.intern(&T{Op: "param", Aux: "exec", Typ: cl.Fn.Params[0].Type()})
				for _, q := range ev.CallTerm(p.State, cl, []*T{ex}) {
					calls := eventsWhere(q, func(e *Event) bool { return isDynCall(e, userFn) && e.Idx >= len(p.Events()) })
					isGet := w == "Get" || w == "GetWithExecution" || w == "GetAsync" || w == "GetWithExecutionAsync"
					good := len(calls) == 1 && q.Exit == ExitReturn && len(q.Rets) == 2
					if good && withExec {
						good = len(calls[0].Args) == 1 && len(eventsWhere(q, func(e *Event) bool {
							return isCall(e, "copy") && e.Recv == ex && len(e.Res) == 1 && e.Res[0] == calls[0].Args[0]
						})) == 1
					}
					if good && !withExec && len(calls[0].Args) != 0 {
						good = false
					}
					if good && isGet && (q.Rets[0] != calls[0].Res[0] || q.Rets[1] != calls[0].Res[1]) {
						good = false
					}
					if good && !isGet && q.Rets[1] != calls[0].Res[0] {
						good = false
					}
					if !good {
						ok = false
						c.Fail(c.fn(fn), c.P.FuncPos(fn), "the adapter must call the user function exactly once, with a private copy of the execution when it takes one, and return its values", pathTrace(ev, q))
					}
				}
			}
			if len(inner[0].Args) < 2 && !adapted {
				ok = false
				c.Fail(c.fn(fn), c.P.FuncPos(fn), "the entry point does not say whether the user function takes the execution (executeSync / executeAsync called without the withExec flag)", pathTrace(ev, p))
				continue
			}
			if !adapted {
				if b, isC := inner[0].Args[1].IsConstBool(); !isC || b != withExec {
					ok = false
					c.Fail(c.fn(fn), c.P.FuncPos(fn), "withExec flag does not match the entry point", pathTrace(ev, p))
				}
			}
			// the wrapper closure calls the user fn exactly once and returns its values
			cl := inner[0].Args[0]
			var wrapperPaths []*Path
			var ex *T
			if adapted {
				// checked above
			} else if direct {
				// only an entry point whose user function already has the shape execute expects can pass it through
				isGetW := w == "GetWithExecution" || w == "GetWithExecutionAsync"
				if !isGetW || !withExec {
					ok = false
					c.Fail(c.fn(fn), c.P.FuncPos(fn), "the user function is passed on unwrapped by an entry point whose function has a different shape", pathTrace(ev, p))
				}
			} else {
				ex = ev.TS.intern(&T{Op: "param", Aux: "exec", Typ: cl.Fn.Params[0].Type()})
				wrapperPaths = ev.CallTerm(p.State, cl, []*T{ex})
			}
			for _, q := range wrapperPaths {
				calls := eventsWhere(q, func(e *Event) bool { return isDynCall(e, userFn) && e.Idx >= len(p.Events()) })
				isGet := w == "Get" || w == "GetWithExecution" || w == "GetAsync" || w == "GetWithExecutionAsync"
				good := len(calls) == 1 && q.Exit == ExitReturn && len(q.Rets) == 2
				if good && withExec && (len(calls[0].Args) != 1 || calls[0].Args[0] != ex) {
					good = false
				}
				if good && isGet && (q.Rets[0] != calls[0].Res[0] || q.Rets[1] != calls[0].Res[1]) {
					good = false
				}
				if good && !isGet && q.Rets[1] != calls[0].Res[0] {
					good = false
				}
				if !good {
					ok = false
					c.Fail(c.fn(fn), c.P.FuncPos(fn), "the wrapper closure must call the user function exactly once and return its values", pathTrace(ev, q))
				}
			}
			// sync: returns the executeSync values
			if !async {
				isGet := w == "Get" || w == "GetWithExecution"
				if isGet && (len(p.Rets) != 2 || p.Rets[0] != inner[0].Res[0] || p.Rets[1] != inner[0].Res[1]) {
					ok = false
					c.Fail(c.fn(fn), c.P.FuncPos(fn), "Get must return executeSync's result and error", pathTrace(ev, p))
				}
				if !isGet && (len(p.Rets) != 1 || p.Rets[0] != inner[0].Res[1]) {
					ok = false
					c.Fail(c.fn(fn), c.P.FuncPos(fn), "Run must return executeSync's error", pathTrace(ev, p))
				}
			} else if len(p.Rets) != 1 || p.Rets[0] != inner[0].Res[0] {
				ok = false
				c.Fail(c.fn(fn), c.P.FuncPos(fn), "async entry point must return executeAsync's ExecutionResult", pathTrace(ev, p))
			}
		}
		if ok {
			n++
			c.Ok(c.fn(fn), c.P.FuncPos(fn), "funnels once into the shared execute path with a transparent wrapper")
		}
	}
	c.Floor("entry points", n, 8)
}

func cl0(e *Event) *T { return e.Args[0] }

// isConcreteExecution: t is *execution[R], the library's own execution struct (which no user code can name).
func isConcreteExecution(t types.Type) bool {
	pt, ok := t.(*types.Pointer)
	if !ok {
		return false
	}
	n, ok := pt.Elem().(*types.Named)
	if !ok || n.Obj().Pkg() == nil || n.Obj().Pkg().Path() != modPath || n.Obj().Exported() {
		return false
	}
	return typeCanonName(n.Obj()) == "execution"
}

// adaptersConfineExecution: every function of package failsafe that takes just the library's own *execution and
// returns (R, error) — the only values the leaf's function parameter can hold, since user code cannot name the type —
// uses that execution for nothing but execution.copy(): the user function behind it gets a private copy or nothing.
func adaptersConfineExecution(c *Ctx) (bool, int, string) {
	n := 0
	for _, f := range c.P.Funcs {
		if f.Pkg == nil || f.Pkg.Pkg.Path() != modPath || len(f.Blocks) == 0 {
			continue
		}
		sig := f.Signature
		if sig.Recv() != nil || len(f.Params) != 1 || sig.Results().Len() != 2 || !isConcreteExecution(f.Params[0].Type()) {
			continue
		}
		n++
		refs := f.Params[0].Referrers()
		if refs == nil {
			continue
		}
		for _, r := range *refs {
			if _, isDbg := r.(*ssa.DebugRef); isDbg {
				continue
			}
			call, isCall := r.(*ssa.Call)
			if isCall {
				cal := calleeOf(&call.Call)
				if cal != nil && canonName(cal) == "copy" && len(call.Call.Args) == 1 && call.Call.Args[0] == ssa.Value(f.Params[0]) {
					continue
				}
			}
			return false, n, c.fn(f) + " uses the live execution for more than taking a copy (" + c.P.Pos(r.Pos()) + ")"
		}
	}
	return n > 0, n, "no adapter found"
}

// ---- C01.wrapper ---------------------------------------------------------------------------------------

// Generic wrapper contract over the distinct Apply bodies: never return a nil result; innerFn receives the
// execution (or a copy derived from it); returned values have an allowed provenance.
func c01Wrapper(c *Ctx) {
	c.Rule("wrapper")
	tab := c.ExecTable()
	n := 0
	for _, pkg := range sortedKeys(tab) {
		info := tab[pkg]
		if info.Slots["Apply"] == nil {
			continue
		}
		n++
		ee := c.NewExecEval(info, EvalConfig{InlineClosures: false})
		paths, innerFn, exec := ee.RunApply()
		ev := ee.Ev
		construct := pkg + ".executor.Apply"
		pos := c.P.FuncPos(info.Slots["Apply"])
		if ev.Err != nil || len(paths) == 0 {
			c.Undecided(construct, pos, fmt.Sprintf("evaluation failed: %v", ev.Err), "")
			continue
		}
		ok := true
		nInner := 0
		for _, p := range paths {
			// derived executions: results of CopyFor* on exec (or on such copies)
			derived := map[*T]bool{exec: true}
			for _, e := range p.Events() {
				if e.Kind == EvCall && (e.Method == "CopyForCancellable" || e.Method == "CopyForHedge") && derived[e.Recv] && len(e.Res) == 1 {
					derived[e.Res[0]] = true
				}
			}
			for _, e := range p.Events() {
				if isDynCall(e, innerFn) || (e.Kind == EvGo && false) {
					nInner++
					if len(e.Args) != 1 || !derived[e.Args[0]] {
						ok = false
						c.Fail(construct, c.P.Pos(e.Instr.Pos()), "innerFn is called with something other than the execution or a copy derived from it", pathTrace(ev, p))
					}
				}
			}
			if p.Exit != ExitReturn {
				continue
			}
			r := p.Rets[0]
			if r.IsNilConst() {
				ok = false
				c.Fail(construct, pos, "the wrapper returns a nil result on some path", pathTrace(ev, p))
				continue
			}
			if p.State.Facts.Truth(ev.TS, ev.TS.Cmp("==", r, ev.TS.Nil(nil))) == triT {
				ok = false
				c.Fail(construct, pos, "the wrapper returns a result known to be nil", pathTrace(ev, p))
			}
		}
		if ok {
			c.Ok(construct, pos, fmt.Sprintf("%d paths: no nil result; innerFn only receives the execution or a CopyFor* copy of it", len(paths)))
		}
		c.Count("paths", len(paths))
	}
	c.Floor("executors", n, 8)
}
