package main

// Canonical shapes: what an object built on a path looks like, independent of the order in which the evaluator
// numbered fresh objects and of the names of the parameters. Two functions that build the same object from the same
// arguments — however the construction is factored into helpers — have the same shape.

import (
	"fmt"
	"go/types"
	"sort"
	"strings"
)

type shaper struct {
	ev     *Evaluator
	st     *State
	ids    map[*T]int
	params map[string]int
}

func newShaper(ev *Evaluator, st *State, params []string) *shaper {
	s := &shaper{ev: ev, st: st, ids: map[*T]int{}, params: map[string]int{}}
	for i, p := range params {
		s.params[p] = i
	}
	return s
}

func allDigits(s string) bool {
	if s == "" {
		return false
	}
	for _, r := range s {
		if r < '0' || r > '9' {
			return false
		}
	}
	return true
}

func (s *shaper) id(t *T) (int, bool) {
	if n, ok := s.ids[t]; ok {
		return n, false
	}
	n := len(s.ids) + 1
	s.ids[t] = n
	return n, true
}

func (s *shaper) show(t *T, depth int) string {
	if t == nil {
		return "<nil>"
	}
	if depth > 8 {
		return "…"
	}
	switch t.Op {
	case "const", "nil", "zero":
		return t.String()
	case "param":
		if i, ok := s.params[t.Aux]; ok {
			return fmt.Sprintf("$%d", i)
		}
		return t.Aux
	case "lin":
		var parts []string
		for i, sym := range t.Lin.Syms {
			parts = append(parts, fmt.Sprintf("%d*%s", t.Lin.Coefs[i], s.show(sym, depth+1)))
		}
		sort.Strings(parts)
		return fmt.Sprintf("(%s + %d)", strings.Join(parts, " + "), t.Lin.C)
	case "alloc":
		n, first := s.id(t)
		if !first || t.Typ == nil {
			return fmt.Sprintf("&%d", n)
		}
		if p, ok := t.Typ.Underlying().(*types.Pointer); ok {
			if st := decomposable(p.Elem()); st != nil {
				var fs []string
				for i := 0; i < st.NumFields(); i++ {
					v := s.ev.load(s.st, s.ev.faddr(t, p.Elem(), i), st.Field(i).Type())
					fs = append(fs, st.Field(i).Name()+":"+s.show(v, depth+1))
				}
				return fmt.Sprintf("&%d{%s}", n, strings.Join(fs, " "))
			}
			if v, ok := s.st.cells[t]; ok {
				return fmt.Sprintf("&%d=%s", n, s.show(v, depth+1))
			}
		}
		return fmt.Sprintf("&%d", n)
	case "closure":
		name := "?"
		if t.Fn != nil {
			name = s.ev.P.FuncName(t.Fn)
		}
		var bs []string
		for _, a := range t.Args {
			bs = append(bs, s.show(a, depth+1))
		}
		return "closure(" + name + ")[" + strings.Join(bs, ", ") + "]"
	}
	var as []string
	for _, a := range t.Args {
		as = append(as, s.show(a, depth+1))
	}
	out := t.Op
	if t.Aux != "" {
		if allDigits(strings.TrimPrefix(t.Aux, "@")) && t.Op != "init" {
			n, _ := s.id(t)
			out += fmt.Sprintf("#%d", n)
		} else {
			out += ":" + t.Aux
		}
	}
	if t.Fn != nil && t.Op == "func" {
		out += ":" + s.ev.P.FuncName(t.Fn)
	}
	if len(as) > 0 {
		out += "(" + strings.Join(as, ", ") + ")"
	}
	return out
}

// pathShape: the impure events and the returned values of a path, canonically.
func (s *shaper) pathShape(p *Path, withFacts bool) string {
	var sb strings.Builder
	if withFacts {
		sb.WriteString(p.State.Facts.String() + " ⊢ ")
	}
	for _, e := range p.Events() {
		if e.Pure || e.Kind == EvStore {
			continue
		}
		var as []string
		for _, a := range e.Args {
			as = append(as, s.show(a, 0))
		}
		fmt.Fprintf(&sb, "%v %s(%s); ", e.Kind, e.Method, strings.Join(as, ", "))
	}
	sb.WriteString(fmt.Sprint(p.Exit) + " ")
	for _, r := range p.Rets {
		sb.WriteString(s.show(r, 0) + ", ")
	}
	return sb.String()
}
