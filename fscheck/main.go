package main

import (
	"encoding/json"
	"flag"
	"fmt"
	"os"
	"path/filepath"
	"runtime/debug"
	"strings"
	"time"

	"golang.org/x/tools/go/ssa"
)

func main() {
	if len(os.Args) < 2 {
		fmt.Fprintln(os.Stderr, "usage: fscheck <check|dump|funcs|dispatch> ...")
		os.Exit(2)
	}
	switch os.Args[1] {
	case "dump":
		cmdDump(os.Args[2:])
	case "check":
		os.Exit(cmdCheck(os.Args[2:]))
	case "explain":
		os.Exit(cmdExplain(os.Args[2:]))
	case "selftest":
		os.Exit(cmdSelftest(os.Args[2:]))
	case "multicheck":
		os.Exit(cmdMulti(os.Args[2:]))
	case "fingerprints":
		// regenerates the reference table from a reviewed tree: fscheck fingerprints /repo > fscheck/fingerprints.json
		p := mustLoad(os.Args[2])
		b, _ := json.MarshalIndent(p.computeFingerprints(), "", " ")
		fmt.Println(string(b))
	case "fieldprints":
		p := mustLoad(os.Args[2])
		b, _ := json.MarshalIndent(p.computeFieldprints(), "", " ")
		fmt.Println(string(b))
	case "roles":
		mustLoad(os.Args[2])
		debugTypeRoles()
	case "callers":
		p := mustLoad(os.Args[2])
		ix := BuildIndex(p)
		f := p.Func(os.Args[3])
		if f == nil {
			fmt.Println("not found")
			return
		}
		for _, cl := range ix.Callers[f] {
			fmt.Println("  caller:", p.FuncName(cl))
		}
		fmt.Println("root:", ix.isRoot(f))
	case "seams":
		p := mustLoad(os.Args[2])
		p.buildSeams()
		for _, k := range sortedKeys(p.seamField) {
			s := p.seamField[k]
			switch {
			case s.bad:
			case s.fn != nil:
				fmt.Printf("field %s = func %s (%d stores)\n", k, qualName(s.fn), s.n)
			case s.via != "":
				fmt.Printf("field %s = %s + %d steps, type %v (%d stores)\n", k, s.via, len(s.path), s.typ, s.n)
			case s.typ != nil:
				fmt.Printf("field %s : %v (%d stores)\n", k, s.typ, s.n)
			}
		}
		for _, k := range sortedKeys(p.seamGlobal) {
			if s := p.seamGlobal[k]; !s.bad && s.fn != nil {
				fmt.Printf("var %s = func %s\n", k, qualName(s.fn))
			}
		}
	case "funcs":
		p := mustLoad("/repo")
		for _, f := range p.Funcs {
			fmt.Println(p.FuncName(f), p.FuncPos(f))
		}
	default:
		fmt.Fprintln(os.Stderr, "unknown command")
		os.Exit(2)
	}
}

func mustLoad(repo string) *Program {
	p, err := loadProgram(repo, "")
	if err != nil {
		fmt.Fprintln(os.Stderr, "LOAD ERROR:", err)
		os.Exit(1)
	}
	return p
}

func cmdDump(args []string) {
	fs := flag.NewFlagSet("dump", flag.ExitOnError)
	repo := fs.String("repo", "/repo", "")
	inl := fs.String("inline", "", "comma separated substrings of function names to inline ('*' = all in repo)")
	call := fs.Bool("call", false, "if the function returns a closure, call it with symbolic args")
	pure := fs.Bool("pure", false, "show pure calls")
	visits := fs.Int("visits", 2, "")
	fs.Parse(args)
	p := mustLoad(*repo)
	fn := p.Func(fs.Arg(0))
	if fn == nil {
		fmt.Println("no such function; candidates:")
		for _, f := range p.Funcs {
			if strings.Contains(p.FuncName(f), fs.Arg(0)) {
				fmt.Println("  ", p.FuncName(f))
			}
		}
		os.Exit(1)
	}
	pats := strings.Split(*inl, ",")
	cfg := EvalConfig{MaxVisits: *visits, InlineClosures: true, ResolveInvoke: resolveByStaticType, Inline: func(c *ssa.Function, depth int) bool {
		if *inl == "" {
			return false
		}
		if !p.InScope[c] {
			return false
		}
		for _, pt := range pats {
			if pt == "*" || strings.Contains(p.FuncName(c), pt) {
				return true
			}
		}
		return false
	}}
	ev := NewEvaluator(p, cfg)
	paths := ev.Run(fn)
	if *call {
		var out []*Path
		for _, pa := range paths {
			if pa.Exit == ExitReturn && len(pa.Rets) == 1 && pa.Rets[0].Op == "closure" {
				cl := pa.Rets[0]
				var as []*T
				for _, prm := range cl.Fn.Params {
					as = append(as, ev.TS.intern(&T{Op: "param", Aux: prm.Name(), Typ: prm.Type()}))
				}
				out = append(out, ev.CallTerm(pa.State, cl, as)...)
			}
		}
		paths = out
	}
	if ev.Err != nil {
		fmt.Println("EVAL ERROR:", ev.Err)
	}
	fmt.Printf("%s: %d paths\n", p.FuncName(fn), len(paths))
	for i, pa := range paths {
		fmt.Printf("path %d:\n%s", i, ev.DumpPath(pa, *pure))
	}
}

func cmdCheck(args []string) (code int) {
	fs := flag.NewFlagSet("check", flag.ExitOnError)
	repo := fs.String("repo", "/repo", "repository to analyse")
	verif := fs.String("verif", "/verif", "where evidence and known findings live")
	prop := fs.String("prop", "", "property id")
	tier := fs.String("tier", "quick", "quick|thorough")
	noEv := fs.Bool("no-evidence", false, "do not write the evidence file")
	noReplay := fs.Bool("no-replay", false, "do not write replay files (used when analysing scratch variants)")
	dbg := fs.Bool("debug", false, "")
	fs.Parse(args)
	debugLoadField = *dbg
	witnessDir = filepath.Join(*verif, "witness")
	start := time.Now()
	def := registry[*prop]
	if def == nil {
		fmt.Printf("unknown property %q\n", *prop)
		return 2
	}
	failClosed := func(reason string) int {
		rp := filepath.Join(*verif, "evidence", "replay", *prop+"-checker.json")
		os.MkdirAll(filepath.Dir(rp), 0o755)
		os.WriteFile(rp, []byte(fmt.Sprintf("{\"property\":%q,\"reason\":%q}", *prop, reason)), 0o644)
		fmt.Printf("VIOLATION property=%s replay=%s\n  checker could not analyse the tree: %s\n", *prop, rp, reason)
		return 1
	}
	defer func() {
		if r := recover(); r != nil {
			code = failClosed(fmt.Sprintf("checker panic: %v\n%s", r, debug.Stack()))
		}
	}()
	p, err := loadProgram(*repo, "")
	if err != nil {
		return failClosed(err.Error())
	}
	tierDeep = *tier == "thorough"
	c := NewCtx(p, *prop, *tier)
	c.NoReplay = *noReplay
	def.Rules(c)
	if *tier == "thorough" {
		// (1) the other word size: the same rules over the GOARCH=386 build of the tree
		if p386, err := loadProgram(*repo, "386"); err != nil {
			c.Rule("arch")
			c.Unresolved("GOARCH=386", "the tree does not load for GOARCH=386: "+err.Error())
		} else {
			c2 := NewCtx(p386, *prop, *tier)
			def.Rules(c2)
			n := 0
			// an obligation that fails on both builds is one finding (reported once, under its plain construct, so that
			// a recorded known finding stays known); only what fails on the 386 build alone is added, marked @386
			failing := map[string]bool{}
			for _, o := range c.Obs {
				if !o.OK {
					failing[o.Key()] = true
				}
			}
			for _, o := range c2.Obs {
				n++
				if !o.OK && !failing[o.Key()] {
					o.Construct += "@386"
					c.Obs = append(c.Obs, o)
				}
			}
			c.Extra("goarch_386", map[string]any{"obligations": n, "note": "all rules re-run on the GOARCH=386 build; only failing obligations are merged (suffix @386)"})
		}
		// (2) validation of the checker itself against the corpus (never changes the verdict about /repo)
		rs := runCorpus(*repo, *verif, *prop, 8)
		var problems []corpusResult
		for _, r := range rs {
			if r.Outcome == "MISSED" || r.Outcome == "FALSE-ALARM" || r.Outcome == "LOST-FINDING" {
				problems = append(problems, r)
				fmt.Printf("checker-validation: %s %s %s %s\n", r.Outcome, r.Entry, r.Prop, r.Detail)
			}
		}
		c.Extra("checker_validation", map[string]any{"variants": len(rs), "tally": tally(rs), "problems": problems,
			"note": "must-fire mutants / seeded adversarial changes and must-stay-silent refactorings, each analysed in a scratch copy of /repo"})
	}
	return c.finish(*verif, def.Info, start, !*noEv)
}

// cmdMulti analyses one tree for several properties in one process (used by the corpus runner): the tree is
// loaded once; each property's report is printed after a "=== <id>" line; nothing is written.
func cmdMulti(args []string) int {
	fs := flag.NewFlagSet("multicheck", flag.ExitOnError)
	repo := fs.String("repo", "/repo", "")
	verif := fs.String("verif", "/verif", "")
	props := fs.String("props", "", "comma separated property ids")
	fs.Parse(args)
	witnessDir = filepath.Join(*verif, "witness")
	p, err := loadProgram(*repo, "")
	code := 0
	if err != nil {
		fmt.Printf("LOAD-FAILED: %s\n", firstLine(err.Error()))
	}
	for _, prop := range strings.Split(*props, ",") {
		fmt.Printf("=== %s\n", prop)
		def := registry[prop]
		if def == nil {
			fmt.Printf("VIOLATION property=%s replay=none\n  rule %s.checker: unknown property\n", prop, prop)
			code = 1
			continue
		}
		if err != nil {
			fmt.Printf("VIOLATION property=%s replay=none\n  rule %s.checker: checker could not analyse the tree: %s\n", prop, prop, firstLine(err.Error()))
			code = 1
			continue
		}
		func() {
			defer func() {
				if r := recover(); r != nil {
					fmt.Printf("VIOLATION property=%s replay=none\n  rule %s.checker: checker panic: %v\n", prop, prop, r)
					code = 1
				}
			}()
			c := NewCtx(p, prop, "quick")
			c.NoReplay = true
			def.Rules(c)
			if c.finish(*verif, def.Info, time.Now(), false) != 0 {
				code = 1
			}
		}()
	}
	return code
}

// cmdExplain re-runs the property named in a replay file against the current tree and prints the
// obligation(s) with the same rule and construct, with their traces.
func cmdExplain(args []string) int {
	fs := flag.NewFlagSet("explain", flag.ExitOnError)
	repo := fs.String("repo", "/repo", "")
	fs.Parse(args)
	b, err := os.ReadFile(fs.Arg(0))
	if err != nil {
		fmt.Println("cannot read replay file:", err)
		return 2
	}
	var o Obligation
	if err := json.Unmarshal(b, &o); err != nil || o.Prop == "" {
		fmt.Printf("replay file does not name an obligation: %s\n", string(b))
		return 2
	}
	def := registry[o.Prop]
	if def == nil {
		fmt.Println("unknown property", o.Prop)
		return 2
	}
	p, err := loadProgram(*repo, "")
	if err != nil {
		fmt.Println("LOAD ERROR:", err)
		return 1
	}
	c := NewCtx(p, o.Prop, "replay")
	def.Rules(c)
	found, failing := 0, 0
	for _, x := range c.Obs {
		if x.Rule == o.Rule && strings.Split(x.Construct, "#")[0] == strings.Split(o.Construct, "#")[0] {
			found++
			st := "discharged"
			if !x.OK {
				st = x.Reason
				failing++
			}
			fmt.Printf("%s.%s %s (%s): %s — %s\n", x.Prop, x.Rule, x.Construct, x.Pos, st, x.Msg)
			if x.Detail != "" {
				fmt.Println(x.Detail)
			}
		}
	}
	if found == 0 {
		fmt.Printf("obligation %s no longer exists on this tree\n", o.Key())
	}
	if failing > 0 {
		fmt.Printf("VIOLATION property=%s replay=%s\n", o.Prop, fs.Arg(0))
		return 1
	}
	return 0
}
