package main

// Helpers shared by the per-property rules: the policy.Executor dispatch table, evaluating an executor's
// slot "as that executor" (BaseExecutor.Executor bound to the enclosing executor, which C01.self checks),
// event matchers and small spec utilities.

import (
	"fmt"
	"go/types"
	"sort"
	"strings"

	"golang.org/x/tools/go/ssa"
)

var executorPkgs = []string{"retrypolicy", "circuitbreaker", "ratelimiter", "bulkhead", "timeout", "hedgepolicy", "fallback", "cachepolicy"}
var executorSlots = []string{"Apply", "IsFailure", "OnFailure", "OnSuccess", "PostExecute", "PreExecute"}

type ExecInfo struct {
	Pkg   string
	Named *types.Named // the executor struct type
	Slots map[string]*ssa.Function
}

// ExecTable resolves the policy.Executor implementers of the eight policy packages.
func (c *Ctx) ExecTable() map[string]*ExecInfo {
	iface := c.P.NamedType("policy", "Executor")
	out := map[string]*ExecInfo{}
	if iface == nil {
		return out
	}
	for _, n := range c.P.Implementers(iface) {
		pkg := n.Obj().Pkg().Name()
		ok := false
		for _, e := range executorPkgs {
			if e == pkg {
				ok = true
			}
		}
		if !ok {
			continue
		}
		// a helper object that embeds the executor (the method object an Apply closure was turned into) satisfies the
		// interface through it: the executor is the type that holds the BaseExecutor itself
		if prev := out[pkg]; prev != nil && holdsBaseExecutor(prev.Named) && !holdsBaseExecutor(n) {
			continue
		}
		info := &ExecInfo{Pkg: pkg, Named: n, Slots: map[string]*ssa.Function{}}
		for _, s := range executorSlots {
			info.Slots[s] = c.P.MethodOf(n, s)
		}
		out[pkg] = info
	}
	return out
}

// holdsBaseExecutor: the struct has a field (embedded or not) of type *policy.BaseExecutor or policy.BaseExecutor.
func holdsBaseExecutor(n *types.Named) bool {
	st, ok := n.Underlying().(*types.Struct)
	if !ok {
		return false
	}
	for i := 0; i < st.NumFields(); i++ {
		if fn := namedOfPtr(st.Field(i).Type()); fn != nil && fn.Obj().Name() == "BaseExecutor" && fn.Obj().Pkg() != nil && fn.Obj().Pkg().Name() == "policy" {
			return true
		}
		if fn, isN := st.Field(i).Type().(*types.Named); isN && fn.Obj().Name() == "BaseExecutor" {
			return true
		}
	}
	return false
}

// namedOfPtr returns the named struct type a term's static type points to.
func namedOfPtr(t types.Type) *types.Named {
	if t == nil {
		return nil
	}
	if p, ok := t.Underlying().(*types.Pointer); ok {
		t = p.Elem()
	} else if p, ok := t.(*types.Pointer); ok {
		t = p.Elem()
	}
	n, _ := t.(*types.Named)
	return n
}

// resolveByStaticType binds an interface method call whose receiver term has a concrete in-repo pointer
// type to that type's method, adjusting the receiver through embedded fields.
func resolveByStaticType(ev *Evaluator, st *State, recv *T, method string) (*ssa.Function, *T) {
	n := namedOfPtr(recv.Typ)
	if n == nil || n.Obj().Pkg() == nil || !strings.HasPrefix(n.Obj().Pkg().Path(), modPath) {
		return nil, nil
	}
	if _, isIface := n.Underlying().(*types.Interface); isIface {
		return nil, nil
	}
	ms := types.NewMethodSet(types.NewPointer(n))
	var sel *types.Selection
	for i := 0; i < ms.Len(); i++ {
		if ms.At(i).Obj().Name() == method {
			sel = ms.At(i)
		}
	}
	if sel == nil {
		return nil, nil
	}
	f, ok := sel.Obj().(*types.Func)
	if !ok {
		return nil, nil
	}
	fn := ev.P.Prog.FuncValue(f.Origin())
	if fn == nil {
		return nil, nil
	}
	// walk the embedding path
	cur := recv
	var curT types.Type = n
	idx := sel.Index()
	for _, i := range idx[:len(idx)-1] {
		addr := ev.faddr(cur, curT, i)
		_, ft := fieldKey(curT, i)
		if ft == nil {
			return nil, nil
		}
		if _, isPtr := ft.Underlying().(*types.Pointer); isPtr {
			cur = ev.load(st, addr, ft)
			cur = retype(ev, cur, ft)
			curT = ft.Underlying().(*types.Pointer).Elem()
		} else if _, isIface := ft.Underlying().(*types.Interface); isIface {
			// method promoted through an embedded interface: not statically resolvable here
			return nil, nil
		} else {
			cur = addr
			curT = ft
		}
	}
	return fn, cur
}

func retype(ev *Evaluator, t *T, typ types.Type) *T {
	if t.Typ == nil {
		t.Typ = typ
	}
	return t
}

// ExecEval prepares an evaluator and an initial state in which x is "the executor of package pkg" and
// x.BaseExecutor.Executor == x.
type ExecEval struct {
	Ev   *Evaluator
	St   *State
	X    *T // the executor pointer
	Base *T // x.BaseExecutor
	Info *ExecInfo
	// FreshAtCall: how many fresh objects Apply itself had made when the closure it returned was called (RunApply):
	// an object numbered above this was made by the call, not by Apply
	FreshAtCall int
}

func (c *Ctx) NewExecEval(info *ExecInfo, cfg EvalConfig) *ExecEval {
	if cfg.ResolveInvoke == nil {
		cfg.ResolveInvoke = resolveByStaticType
	}
	ev := NewEvaluator(c.P, cfg)
	st := ev.NewState()
	xt := types.NewPointer(info.Named)
	x := ev.TS.intern(&T{Op: "param", Aux: "e", Typ: xt})
	ee := &ExecEval{Ev: ev, St: st, X: x, Info: info}
	// x.BaseExecutor
	s := info.Named.Underlying().(*types.Struct)
	for i := 0; i < s.NumFields(); i++ {
		if s.Field(i).Name() == "BaseExecutor" {
			addr := ev.faddr(x, info.Named, i)
			ft := s.Field(i).Type()
			ee.Base = ev.load(st, addr, ft)
			ee.Base.Typ = ft
			bn := namedOfPtr(ft)
			if bn != nil {
				bs := bn.Underlying().(*types.Struct)
				for j := 0; j < bs.NumFields(); j++ {
					if bs.Field(j).Name() == "Executor" {
						st.cells[ev.faddr(ee.Base, bn, j)] = x
					}
				}
			}
		}
	}
	return ee
}

// RunSlot evaluates slot `name` of the executor with the given arguments (receiver supplied here).
func (ee *ExecEval) RunSlot(name string, args ...*T) []*Path {
	fn := ee.Info.Slots[name]
	if fn == nil {
		ee.Ev.Err = fmt.Errorf("slot %s unresolved", name)
		return nil
	}
	recv := ee.X
	if rn := namedOfPtr(fn.Signature.Recv().Type()); rn != nil && rn.Obj().Name() == "BaseExecutor" {
		recv = ee.Base
	}
	return ee.Ev.RunFrom(ee.St, fn, append([]*T{recv}, args...), nil)
}

func (ee *ExecEval) Sym(name string, typ types.Type) *T {
	return ee.Ev.TS.intern(&T{Op: "param", Aux: name, Typ: typ})
}

// RunApply evaluates Apply(innerFn) and then calls the returned closure with exec; returns the paths of
// the closure call (events of Apply itself precede them) plus the symbols used.
func (ee *ExecEval) RunApply() (paths []*Path, innerFn, exec *T) {
	fn := ee.Info.Slots["Apply"]
	if fn == nil {
		ee.Ev.Err = fmt.Errorf("Apply unresolved")
		return nil, nil, nil
	}
	innerFn = ee.Sym("innerFn", fn.Signature.Params().At(0).Type())
	for _, p := range ee.RunSlot("Apply", innerFn) {
		if p.Exit != ExitReturn || len(p.Rets) != 1 || p.Rets[0].Op != "closure" {
			ee.Ev.Err = fmt.Errorf("Apply of %s does not return a closure on every path", ee.Info.Pkg)
			return nil, innerFn, nil
		}
		cl := p.Rets[0]
		exec = ee.Sym("exec", cl.Fn.Signature.Params().At(0).Type())
		if p.State.nFresh > ee.FreshAtCall {
			ee.FreshAtCall = p.State.nFresh
		}
		paths = append(paths, ee.Ev.CallTerm(p.State, cl, []*T{exec})...)
	}
	return paths, innerFn, exec
}

// ---- event matchers -----------------------------------------------------------------------------------

func isCall(e *Event, method string) bool {
	return e.Kind == EvCall && e.FnTerm == nil && e.Method == method
}

// isDynCall: call of a function value that is the given term.
func isDynCall(e *Event, fn *T) bool { return e.Kind == EvCall && e.FnTerm == fn }

// dynFieldCall: call of a function value loaded from a field with this name (listener fields etc.).
func dynFieldCall(e *Event, field string) bool {
	if e.Kind != EvCall || e.FnTerm == nil {
		return false
	}
	t := e.FnTerm
	return t.Op == "init" && t.Args[0].Op == "faddr" && FieldName(t.Args[0].Aux) == field
}

func eventsWhere(p *Path, f func(*Event) bool) []*Event {
	var out []*Event
	for _, e := range p.Events() {
		if f(e) {
			out = append(out, e)
		}
	}
	return out
}

func firstIdx(p *Path, f func(*Event) bool) int {
	for i, e := range p.Events() {
		if f(e) {
			return i
		}
	}
	return -1
}

// impure lists the events that are not pure getters.
func impure(p *Path) []*Event {
	return eventsWhere(p, func(e *Event) bool { return !e.Pure })
}

func pathTrace(ev *Evaluator, p *Path) string { return ev.DumpPath(p, false) }

// fieldTermName: for init(faddr(_, T.f)) returns f.
// sameUnder: the two terms are the same value on this path: identical, or equal by the path's facts.
func sameUnder(ev *Evaluator, F *Facts, a, b *T) bool {
	if a == b {
		return true
	}
	if a == nil || b == nil {
		return false
	}
	return F.Truth(ev.TS, ev.TS.Cmp("==", a, b)) == triT
}

// fullArgs: receiver (if any) followed by the arguments — the same list whether the callee is written as a
// function taking the object or as a method on it.
func fullArgs(e *Event) []*T {
	var out []*T
	if e.Recv != nil {
		out = append(out, e.Recv)
	}
	return append(out, e.Args...)
}

// lastArgs: the last n entries of fullArgs (the arguments proper, whether or not the object the call is about is
// passed as receiver or as first argument); nil when there are fewer.
func lastArgs(e *Event, n int) []*T {
	a := fullArgs(e)
	if len(a) < n {
		return nil
	}
	return a[len(a)-n:]
}

// flatArgs: the arguments with by-value parameter bundles (struct values built at the call) replaced by their fields.
func flatArgs(args []*T) []*T {
	var out []*T
	for _, a := range args {
		if a != nil && a.Op == "struct" {
			out = append(out, a.Args...)
		} else {
			out = append(out, a)
		}
	}
	return out
}

// argN: the n-th entry of fullArgs, nil when absent.
func argN(e *Event, n int) *T {
	a := fullArgs(e)
	if n < len(a) {
		return a[n]
	}
	return nil
}

// rootedAt: addr is the address of a field of *base, directly or through structs base embeds by value.
func rootedAt(addr, base *T) bool {
	for i := 0; addr != nil && addr.Op == "faddr" && i < 4; i++ {
		if addr.Args[0] == base {
			return true
		}
		addr = addr.Args[0]
	}
	return false
}

func loadedField(t *T) string {
	if t != nil && t.Op == "init" && t.Args[0].Op == "faddr" {
		return FieldName(t.Args[0].Aux)
	}
	return ""
}

func sortedKeys[V any](m map[string]V) []string {
	var ks []string
	for k := range m {
		ks = append(ks, k)
	}
	sort.Strings(ks)
	return ks
}

// constructOf names a function-level construct.
func (c *Ctx) fn(f *ssa.Function) string { return c.P.CanonFuncName(f) }

// lockDiscipline is defined in rules_locks.go
