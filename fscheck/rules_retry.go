package main

// Retry policy rules: the loop of retrypolicy.(*executor).Apply (shared by C02, C08, C13, C16) and the
// decision table of OnFailure (C02, C16).

import (
	"fmt"
	"go/types"

	"golang.org/x/tools/go/ssa"
)

// retryLoop analyses the retry closure. aspects selects which obligations are reported:
// "loop" (C02), "recheck"/"returns" (C08), "wait" (C13), "listeners" (C16).
// sameDelay: t is the delay d itself, or max(0, d) — getDelay's value is non-negative on every path (C13.envelope), so
// clamping it at zero again is the identity.
func sameDelay(t, d *T) bool {
	if t == d {
		return true
	}
	if t != nil && t.Op == "app" && t.Aux == "max" && len(t.Args) == 2 {
		a, b := t.Args[0], t.Args[1]
		return (a == d && isZeroInt(b)) || (b == d && isZeroInt(a))
	}
	return false
}

func retryLoop(c *Ctx, aspects map[string]bool) {
	tab := c.ExecTable()
	info := tab["retrypolicy"]
	if info == nil || info.Slots["Apply"] == nil {
		c.Unresolved("retrypolicy.executor.Apply", "retry executor not resolved")
		return
	}
	ee := c.NewExecEval(info, EvalConfig{MaxVisits: visits(3)})
	paths, innerFn, exec := ee.RunApply()
	ev := ee.Ev
	apply := info.Slots["Apply"]
	name := c.fn(apply) + "$1"
	pos := c.P.FuncPos(apply)
	if ev.Err != nil || len(paths) == 0 {
		c.Undecided(name, pos, fmt.Sprintf("evaluation failed: %v", ev.Err), "")
		return
	}
	c.Count("paths", len(paths))
	nilT := ev.TS.Nil(nil)
	isNil := func(p *Path, t *T) tri { return p.State.Facts.Truth(ev.TS, ev.TS.Cmp("==", t, nilT)) }
	ok := map[string]bool{"loop": true, "recheck": true, "returns": true, "wait": true, "listeners": true}
	fail := func(aspect string, p *Path, at *Event, msg string) {
		ok[aspect] = false
		if !aspects[aspect] {
			return
		}
		ps := pos
		if at != nil {
			ps = c.P.Pos(at.Instr.Pos())
		}
		c.Fail(name+"#"+aspect, ps, msg, pathTrace(ev, p))
	}
	// blocked: a clause that the rest of a segment's clauses build on failed, so they are not evaluated on this path. A
	// rule set that did not ask for the failing aspect must still hear that what it did ask for was not decided here.
	blockedSeen := map[string]bool{}
	blocked := func(failing string, p *Path, at *Event, why string) {
		if aspects[failing] {
			return // reported as a violation of the aspect itself
		}
		for _, a := range []string{"loop", "recheck", "returns", "wait", "listeners"} {
			if a == failing || !aspects[a] || blockedSeen[a] {
				continue
			}
			blockedSeen[a] = true
			ok[a] = false
			ps := pos
			if at != nil {
				ps = c.P.Pos(at.Instr.Pos())
			}
			c.Undecided(name+"#"+a, ps, "not decided on a path whose shape differs from the retry loop's: "+why, pathTrace(ev, p))
		}
	}
	segments, completeSegs := 0, 0
	for _, p := range paths {
		evs := p.Events()
		// indexes of innerFn calls
		var inner []int
		for i, e := range evs {
			if isDynCall(e, innerFn) {
				inner = append(inner, i)
			}
		}
		if len(inner) == 0 {
			fail("loop", p, nil, "a path through the retry closure never calls innerFn")
			continue
		}
		if evsBefore := eventsWhere(p, func(e *Event) bool { return e.Idx < inner[0] && e.Kind == EvCall && !e.Pure && e.Depth > 0 }); len(evsBefore) > 0 {
			// nothing may precede the first attempt except harmless pure calls
			fail("loop", p, evsBefore[0], "an effectful call precedes the first attempt")
		}
		for k, start := range inner {
			end := len(evs)
			last := true
			if k+1 < len(inner) {
				end = inner[k+1]
				last = false
			}
			seg := evs[start:end]
			segments++
			attempt := seg[0]
			if len(attempt.Args) != 1 || attempt.Args[0] != exec {
				fail("loop", p, attempt, "innerFn is not called with the execution")
			}
			res := attempt.Res[0]
			// locate the protocol events of this segment
			find := func(pred func(*Event) bool) *Event {
				for _, e := range seg[1:] {
					if pred(e) {
						return e
					}
				}
				return nil
			}
			count := func(pred func(*Event) bool) int {
				n := 0
				for _, e := range seg[1:] {
					if pred(e) {
						n++
					}
				}
				return n
			}
			canc := find(func(e *Event) bool { return isCall(e, "IsCanceledWithResult") && e.Recv == exec })
			post := find(func(e *Event) bool { return isCall(e, "PostExecute") })
			rec := find(func(e *Event) bool { return isCall(e, "RecordResult") && e.Recv == exec })
			gd := find(func(e *Event) bool { return isCall(e, "getDelay") })
			tim := find(func(e *Event) bool { return isCall(e, "NewTimer") })
			sel := find(func(e *Event) bool { return e.Kind == EvSelect })
			ini := find(func(e *Event) bool { return isCall(e, "InitializeRetry") && e.Recv == exec })
			sched := find(func(e *Event) bool { return dynFieldCall(e, "onRetryScheduled") })
			onRetry := find(func(e *Event) bool { return dynFieldCall(e, "onRetry") })

			// (recheck) the first effectful thing after an attempt is the cancellation test
			var firstAfter *Event
			for _, e := range seg[1:] {
				if e.Kind == EvCall && !e.Pure {
					firstAfter = e
					break
				}
				if e.Kind != EvCall {
					firstAfter = e
					break
				}
			}
			if canc == nil || firstAfter != canc {
				if !(p.Exit == ExitCut && len(seg) == 1) {
					fail("recheck", p, attempt, "the attempt's return is not immediately followed by a cancellation test of the execution (IsCanceledWithResult)")
					blocked("recheck", p, attempt, "the attempt's return is not immediately followed by a cancellation test of the execution")
				}
				continue
			}
			canceled := p.State.Facts.Truth(ev.TS, canc.Res[0])

			if !last {
				completeSegs++
				// a further attempt was started: everything that licenses it must have happened, in order
				if canceled != triF {
					fail("recheck", p, evs[end], "a new attempt starts although the cancellation test after the previous one did not come out negative")
				}
				if post == nil || post.Args[0] != exec || post.Args[1] != res {
					fail("loop", p, evs[end], "a new attempt starts without PostExecute having handled the previous attempt's result")
					blocked("loop", p, evs[end], "a new attempt starts without PostExecute having handled the previous attempt's result")
					continue
				}
				pr := post.Res[0]
				if d := p.State.Facts.Truth(ev.TS, ev.LoadField(p.State, pr, "Done")); d != triF {
					fail("loop", p, evs[end], "a new attempt starts although the handled result is not known to be not-Done (success, abort or exceeded must stop the loop)")
				}
				if rec == nil || rec.Args[0] != pr || isNil(p, rec.Res[0]) != triT || rec.Idx < post.Idx {
					fail("recheck", p, evs[end], "a new attempt starts without RecordResult(handled result) having returned nil (cancellation test before the wait)")
				}
				if gd == nil || tim == nil || sel == nil || !sameDelay(tim.Args[0], gd.Res[0]) || !(rec != nil && rec.Idx < tim.Idx && tim.Idx < sel.Idx) {
					fail("wait", p, evs[end], "a new attempt starts without waiting on a timer whose duration is getDelay's value, after the result was recorded")
				} else {
					// select: one case on that timer's channel, one on the execution's cancellation
					timerCase, cancelCase := -1, -1
					for i, cs := range sel.Cases {
						if cs.Chan.Op == "fld" && FieldName(cs.Chan.Aux) == "C" && cs.Chan.Args[0].Op == "init" && cs.Chan.Args[0].Args[0] == tim.Res[0] {
							timerCase = i
						}
						if cs.Chan.Op == "init" && cs.Chan.Args[0].Op == "faddr" && FieldName(cs.Chan.Args[0].Aux) == "C" && cs.Chan.Args[0].Args[0] == tim.Res[0] {
							timerCase = i
						}
						if cs.Chan.Op == "app" && len(cs.Chan.Args) == 1 && cs.Chan.Args[0] == exec && (hasPrefix(cs.Chan.Aux, "Canceled@") || hasPrefix(cs.Chan.Aux, "Done@")) {
							cancelCase = i
						}
						if cs.Chan.Op == "app" && hasPrefix(cs.Chan.Aux, "Done@") && len(cs.Chan.Args) == 1 && cs.Chan.Args[0].Op == "app" && hasPrefix(cs.Chan.Args[0].Aux, "Context@") && cs.Chan.Args[0].Args[0] == exec {
							cancelCase = i
						}
					}
					if timerCase < 0 || len(sel.Cases) < 2 {
						fail("wait", p, sel, "the wait does not select on the channel of the timer created with getDelay's value")
					}
					if cancelCase < 0 {
						fail("recheck", p, sel, "the wait has no case on the execution's cancellation channel: a cancelled execution would wait out the delay")
					}
					if sel.Chosen != timerCase && sel.Chosen != cancelCase {
						fail("wait", p, sel, "the wait can be left through a case that is neither the timer nor the cancellation")
					}
					if sel.Chosen == cancelCase && cancelCase >= 0 {
						if count(func(e *Event) bool { return isCall(e, "Stop") && e.Recv == tim.Res[0] && e.Idx > sel.Idx }) == 0 {
							fail("wait", p, sel, "the delay timer is not stopped when the wait ends by cancellation")
						}
					}
					if !sel.Instr.(*ssa.Select).Blocking {
						fail("wait", p, sel, "the wait is a non-blocking select")
					}
				}
				if ini == nil || isNil(p, ini.Res[0]) != triT || (sel != nil && ini.Idx < sel.Idx) {
					fail("recheck", p, evs[end], "a new attempt starts without InitializeRetry having returned nil after the wait (cancellation test between the wait and the attempt)")
				}
				// listeners
				schedField := ev.LoadField(p.State, ee.X, "retryPolicy", "config", "onRetryScheduled")
				retryField := ev.LoadField(p.State, ee.X, "retryPolicy", "config", "onRetry")
				if schedField == nil || retryField == nil {
					fail("listeners", p, nil, "listener fields onRetryScheduled/onRetry not found")
				} else {
					wantSched := isNil(p, schedField).not()
					if wantSched == triT {
						good := sched != nil && rec != nil && tim != nil && sched.Idx > rec.Idx && sched.Idx < sel.Idx && count(func(e *Event) bool { return dynFieldCall(e, "onRetryScheduled") }) == 1
						if good {
							evt := sched.Args[0]
							if !(evt.Op == "struct" && len(evt.Args) == 2 && gd != nil && sameDelay(evt.Args[1], gd.Res[0]) && (tim == nil || evt.Args[1] == tim.Args[0])) {
								good = false
							}
							if good && !copyOf(p, evt.Args[0], exec, post.Res[0]) {
								good = false
							}
						}
						if !good {
							fail("listeners", p, sched, "OnRetryScheduled must fire exactly once per scheduled retry, after the result was recorded and before the wait, with the delay that is waited and a copy of the execution carrying the failed result")
						}
					} else if wantSched == triF && sched != nil {
						fail("listeners", p, sched, "OnRetryScheduled listener called although it is nil")
					}
					wantRetry := isNil(p, retryField).not()
					if wantRetry == triT {
						good := onRetry != nil && ini != nil && onRetry.Idx > ini.Idx && count(func(e *Event) bool { return dynFieldCall(e, "onRetry") }) == 1
						if good {
							evt := onRetry.Args[0]
							if !(evt.Op == "struct" && len(evt.Args) == 1 && copyOf(p, evt.Args[0], exec, post.Res[0])) {
								good = false
							}
							// … taken after InitializeRetry: a copy carries the attempt start time of the moment it is made, and
							// OnRetry announces the new attempt
							if good && ini != nil {
								for _, x := range p.Events() {
									if isCall(x, "CopyWithResult") && len(x.Res) == 1 && x.Res[0] == evt.Args[0] && x.Idx < ini.Idx {
										good = false
									}
								}
							}
						}
						if !good {
							fail("listeners", p, onRetry, "OnRetry must fire exactly once per retry actually started: after InitializeRetry succeeded and before the attempt, with a copy of the execution carrying the failed result")
						}
					} else if wantRetry == triF && onRetry != nil {
						fail("listeners", p, onRetry, "OnRetry listener called although it is nil")
					}
				}
				continue
			}

			// last segment: ends with return (or loop cut)
			if p.Exit == ExitCut {
				continue
			}
			if p.Exit != ExitReturn || len(p.Rets) != 1 {
				fail("returns", p, nil, "the retry closure leaves through something other than a return")
				continue
			}
			ret := p.Rets[0]
			switch {
			case canceled == triT:
				if ret != canc.Res[1] {
					fail("returns", p, canc, "the execution is cancelled after an attempt but the closure does not return the cancel result of that test")
				}
				if post != nil {
					fail("returns", p, post, "a cancelled attempt's result is still handed to PostExecute")
				}
			case canceled == triU:
				fail("recheck", p, canc, "path does not depend on the cancellation test")
			case post == nil:
				// only legal when retries were already exceeded (re-entry): returns the attempt's own result
				exc := ev.LoadField(ev.NewState(), ee.X, "retriesExceeded")
				if ret != res || exc == nil || p.State.Facts.Truth(ev.TS, exc) != triT {
					fail("returns", p, nil, "returns without PostExecute on a path where the retries-exceeded flag is not set")
				}
			case ret == post.Res[0]:
				if d := p.State.Facts.Truth(ev.TS, ev.LoadField(p.State, post.Res[0], "Done")); d != triT {
					fail("loop", p, post, "returns the handled result although it is not Done")
				}
			case rec != nil && ret == rec.Res[0]:
				if isNil(p, ret) != triF {
					fail("returns", p, rec, "returns RecordResult's value although it is nil")
				}
			case ini != nil && ret == ini.Res[0]:
				if isNil(p, ret) != triF {
					fail("returns", p, ini, "returns InitializeRetry's value although it is nil")
				}
			default:
				fail("returns", p, nil, "the closure returns a value that is neither the handled result, the attempt's result after exceeded retries, nor the cancel result of the cancellation test just taken")
			}
			// listeners must not fire on a path that does not start the retry
			if onRetry != nil {
				fail("listeners", p, onRetry, "OnRetry fires on a path that does not start another attempt")
			}
		}
	}
	if completeSegs == 0 {
		ok["loop"] = false
		if aspects["loop"] {
			c.Undecided(name+"#loop", pos, "no path with a second attempt was found (loop not recognised)", "")
		}
	}
	msgs := map[string]string{
		"loop":      "a further attempt is reachable only through PostExecute(previous result) with Done=false; a Done result is returned",
		"recheck":   "every attempt is followed by a cancellation test; RecordResult, an interruptible wait and InitializeRetry lie between attempts",
		"returns":   "every return is the handled result, the attempt's result after exceeded retries, or the cancel result of the test just taken",
		"wait":      "the next attempt is reachable only through a blocking select on a timer whose duration is getDelay's value (or the cancellation case, which stops the timer)",
		"listeners": "OnRetryScheduled once per scheduled retry with the waited delay; OnRetry once per started retry, after InitializeRetry",
	}
	for _, a := range []string{"loop", "recheck", "returns", "wait", "listeners"} {
		if aspects[a] && ok[a] {
			c.Ok(name+"#"+a, pos, fmt.Sprintf("%d paths, %d attempt segments: %s", len(paths), segments, msgs[a]))
		}
	}
}

func hasPrefix(s, p string) bool { return len(s) >= len(p) && s[:len(p)] == p }

// copyOf: t is the result of exec.CopyWithResult(res) (a private copy carrying res).
func copyOf(p *Path, t, exec, res *T) bool {
	for _, e := range p.Events() {
		if isCall(e, "CopyWithResult") && len(e.Res) == 1 && e.Res[0] == t {
			return e.Recv == exec && (res == nil || e.Args[0] == res)
		}
	}
	return false
}

// ---- OnFailure decision table --------------------------------------------------------------------------

// retryDecision checks retrypolicy.(*executor).OnFailure against the spec table of DESIGN Appendix C.
// aspects: "decision" (C02), "listeners" (C16).
func retryDecision(c *Ctx, aspects map[string]bool) {
	tab := c.ExecTable()
	info := tab["retrypolicy"]
	if info == nil || info.Slots["OnFailure"] == nil {
		c.Unresolved("retrypolicy.executor.OnFailure", "not resolved")
		return
	}
	fn := info.Slots["OnFailure"]
	name, pos := c.fn(fn), c.P.FuncPos(fn)
	ee := c.NewExecEval(info, EvalConfig{Inline: func(callee *ssa.Function, depth int) bool {
		return canonName(callee) == "allowsRetries"
	}})
	ev := ee.Ev
	exec := ee.Sym("exec", fn.Params[1].Type())
	result := ee.Sym("result", fn.Params[2].Type())
	paths := ee.RunSlot("OnFailure", exec, result)
	if ev.Err != nil || len(paths) == 0 {
		c.Undecided(name, pos, fmt.Sprintf("evaluation failed: %v", ev.Err), "")
		return
	}
	c.Count("decision-table rows (paths)", len(paths))
	s0 := ee.St
	cfg := func(f string) *T { return ev.LoadField(s0, ee.X, "retryPolicy", "config", f) }
	maxRetries, maxDuration, rlf := cfg("maxRetries"), cfg("maxDuration"), cfg("returnLastFailure")
	failed0 := ev.LoadField(s0, ee.X, "failedAttempts")
	onAbort, onExceeded := cfg("onAbort"), cfg("onRetriesExceeded")
	if maxRetries == nil || maxDuration == nil || rlf == nil || failed0 == nil || onAbort == nil || onExceeded == nil {
		c.Unresolved(name, "retry configuration fields (maxRetries, maxDuration, returnLastFailure, failedAttempts, onAbort, onRetriesExceeded) not found")
		return
	}
	intT := types.Typ[types.Int]
	ts := ev.TS
	failedAfter := ts.Add(failed0, ts.LinConst(1, intT), intT)
	resR, resE := ev.LoadField(s0, result, "Result"), ev.LoadField(s0, result, "Error")
	okDecision, okListeners := true, true
	rows := 0
	for _, p := range paths {
		if p.Exit != ExitReturn {
			okDecision = false
			c.Fail(name+"#decision", pos, "OnFailure has a non-returning path", pathTrace(ev, p))
			continue
		}
		// atoms
		var elapsed, abortable *T
		for _, e := range p.Events() {
			if isCall(e, "ElapsedTime") && e.Recv == exec {
				elapsed = e.Res[0]
			}
			if isCall(e, "IsAbortable") && len(e.Args) == 2 && e.Args[0] == resR && e.Args[1] == resE {
				abortable = e.Res[0]
			}
		}
		aU := ts.Cmp("!=", maxRetries, ts.LinConst(-1, intT))
		aF := ts.Cmp(">", failedAfter, maxRetries)
		aD := ts.Cmp("!=", maxDuration, ts.LinConst(0, maxDuration.Typ))
		var aT *T
		if elapsed != nil {
			aT = ts.Cmp(">", elapsed, maxDuration)
		}
		aP := ts.Cmp(">", maxRetries, ts.LinConst(0, intT))
		for _, F := range p.State.Facts.Refine(ts, aU, aF, aD, aT, aP, rlf) {
			rows++
			truth := func(t *T) tri { return F.Truth(ts, t) }
			U := truth(aU)
			Fx := truth(aF)
			D := truth(aD)
			T_ := triU
			if aT != nil {
				T_ = truth(aT)
			}
			A := triU
			if abortable != nil {
				A = truth(abortable)
			}
			W := triOr(U.not(), truth(aP))
			L := truth(rlf)
			X := triOr(triAnd(U, Fx), triAnd(D, T_))
			bad := func(msg string) {
				okDecision = false
				if aspects["decision"] {
					c.Fail(name+"#decision", pos, msg, "row: "+F.String()+"\n"+pathTrace(ev, p))
				}
			}
			if A == triU {
				bad("the outcome does not depend on the abort conditions (IsAbortable of the failing result and error)")
				continue
			}
			if X == triU {
				bad("the outcome does not determine whether retries are exceeded: exceeded ⇔ (maxRetries≠-1 ∧ failedAttempts+1 > maxRetries) ∨ (maxDuration≠0 ∧ elapsed > maxDuration)")
				continue
			}
			// (a clause of the decision that fails does not hide what the listeners are given: each part reports on its own)
			func() {
				// the failed-attempt counter is bumped by exactly one, and the exceeded flag is stored
				var cntStores, flagStores []*Event
				for _, e := range p.Events() {
					if e.Kind == EvStore && e.Addr.Op == "faddr" && rootedAt(e.Addr, ee.X) {
						switch FieldName(e.Addr.Aux) {
						case "failedAttempts":
							cntStores = append(cntStores, e)
						case "retriesExceeded":
							flagStores = append(flagStores, e)
						}
					}
				}
				if len(cntStores) != 1 || cntStores[0].Val != failedAfter {
					bad("failedAttempts is not incremented by exactly 1 on this path")
					return
				}
				if len(flagStores) == 0 || truth(flagStores[len(flagStores)-1].Val) != X {
					bad(fmt.Sprintf("the retries-exceeded flag stored does not equal the specified condition (expected %s)", X))
					return
				}
				// returned value
				ret := p.Rets[0]
				var wd, fr *Event
				for _, e := range p.Events() {
					if isCall(e, "WithDone") && len(e.Res) == 1 && e.Res[0] == ret {
						wd = e
					}
					if isCall(e, "FailureResult") && len(e.Res) == 1 && e.Res[0] == ret {
						fr = e
					}
				}
				wantDone := triOr(A, triOr(X, W.not()))
				if wantDone == triU {
					bad("the outcome does not determine Done = abortable ∨ exceeded ∨ ¬allowsRetries")
					return
				}
				isExceededErr := func(e *Event) bool {
					a := e.Args[0]
					return a.Op == "struct" && len(a.Args) == 2 && a.Args[0] == resR && a.Args[1] == resE && a.Typ != nil && namedOfPtr(types.NewPointer(a.Typ)) != nil && namedOfPtr(types.NewPointer(a.Typ)).Obj().Name() == "ExceededError"
				}
				if A == triF {
					if X == triT && L == triU {
						bad("the outcome for exceeded retries does not depend on ReturnLastFailure")
						return
					}
					if X == triT && L == triF {
						if fr == nil || !isExceededErr(fr) {
							bad("retries exceeded without ReturnLastFailure must return FailureResult(ExceededError{LastResult: result.Result, LastError: result.Error})")
							return
						}
					} else {
						if wd == nil || wd.Recv != result || truth(wd.Args[0]) != wantDone || truth(wd.Args[1]) != triF {
							bad(fmt.Sprintf("expected result.WithDone(%s, false) to be returned (the failing outcome unchanged, Done=%s)", wantDone, wantDone))
							return
						}
					}
				} else {
					// abortable: the policy stops (Done). Giving up takes precedence when both coincide: an outcome that also
					// exhausts the budget is reported as ExceededError (unless ReturnLastFailure), like any other exhausting
					// outcome — an outer policy handling ExceededError must see it
					switch {
					case X == triT && L == triU:
						bad("the outcome for exceeded retries does not depend on ReturnLastFailure")
						return
					case X == triT && L == triF:
						if fr == nil || !isExceededErr(fr) {
							bad("retries exceeded without ReturnLastFailure must return FailureResult(ExceededError{LastResult: result.Result, LastError: result.Error}), also when the exhausting outcome matches an abort condition")
							return
						}
					case wd != nil && wd.Recv == result && truth(wd.Args[0]) == triT && truth(wd.Args[1]) == triF:
					default:
						bad("an abort-matching outcome must stop the policy and be returned unchanged: result.WithDone(true, false)")
						return
					}
				}
			}()
			// listeners
			abortCalls := eventsWhere(p, func(e *Event) bool { return dynFieldCall(e, "onAbort") })
			excCalls := eventsWhere(p, func(e *Event) bool { return dynFieldCall(e, "onRetriesExceeded") })
			lbad := func(msg string) {
				okListeners = false
				if aspects["listeners"] {
					c.Fail(name+"#listeners", pos, msg, "row: "+F.String()+"\n"+pathTrace(ev, p))
				}
			}
			wantAbort := triAnd(A, truth(ts.Cmp("!=", onAbort, ts.Nil(nil))))
			wantExc := triAnd(triAnd(X, A.not()), truth(ts.Cmp("!=", onExceeded, ts.Nil(nil))))
			if wantAbort == triU || (wantAbort == triT) != (len(abortCalls) == 1) || len(abortCalls) > 1 {
				lbad("OnAbort must fire exactly once iff the outcome matches the abort conditions (and a listener is set)")
			}
			if wantExc == triU || (wantExc == triT) != (len(excCalls) == 1) || len(excCalls) > 1 {
				lbad("OnRetriesExceeded must fire exactly once iff retries are exceeded and the outcome is not an abort (and a listener is set)")
			}
			for _, e := range append(append([]*Event{}, abortCalls...), excCalls...) {
				evt := e.Args[0]
				if !(evt.Op == "struct" && len(evt.Args) == 1 && copyOf(p, evt.Args[0], exec, result)) {
					lbad("the event must carry a private copy of the execution with the failing result (exec.CopyWithResult(result))")
				}
			}
		}
		// the base policy OnFailure listener hook is invoked exactly once
		if n := len(eventsWhere(p, func(e *Event) bool {
			return isCall(e, "OnFailure") && e.Fn != nil && c.fn(e.Fn) == "policy.(*BaseExecutor).OnFailure"
		})); n != 1 {
			okListeners = false
			if aspects["listeners"] {
				c.Fail(name+"#listeners", pos, fmt.Sprintf("the overriding OnFailure must call BaseExecutor.OnFailure exactly once (policy-level OnFailure listener); found %d calls", n), pathTrace(ev, p))
			}
		}
	}
	if aspects["decision"] && okDecision {
		c.Ok(name+"#decision", pos, fmt.Sprintf("%d rows: counter +1; exceeded ⇔ (maxRetries≠-1 ∧ failed+1>maxRetries) ∨ (maxDuration≠0 ∧ elapsed>maxDuration); Done ⇔ abort ∨ exceeded ∨ ¬allowsRetries; ExceededError{last result, last error} iff exceeded ∧ ¬ReturnLastFailure ∧ ¬abort", rows))
	}
	if aspects["listeners"] && okListeners {
		c.Ok(name+"#listeners", pos, fmt.Sprintf("%d rows: OnAbort ⇔ abort; OnRetriesExceeded ⇔ exceeded ∧ ¬abort; each once with a copy carrying the failing result; base OnFailure once", rows))
	}
}
