package main

// Term language of the abstract evaluator (ABSEVAL, DESIGN §2.2).
//
// A term is an abstract value: a constant, an opaque symbol (parameter, initial content of a memory
// cell, result of an opaque call, fresh allocation, closure) or a small expression over those. Integer
// arithmetic is kept in linear normal form so that `x+1 > y` and `x >= y` are the same question.
// Terms are hash-consed per evaluator: pointer equality is structural equality.

import (
	"fmt"
	"go/constant"
	"go/types"
	"sort"
	"strings"

	"golang.org/x/tools/go/ssa"
)

type T struct {
	Op   string // see constructors below
	Aux  string
	Args []*T
	K    constant.Value // Op=="const"
	Typ  types.Type     // best-effort static type
	Lin  *Lin           // Op=="lin"
	Fn   *ssa.Function  // Op=="closure" or "func"
	Site ssa.Instruction
	key  string
	id   int
}

// Lin is Σ coef·sym + c over mathematical integers.
type Lin struct {
	Syms  []*T
	Coefs []int64
	C     int64
}

type Terms struct {
	tab map[string]*T
	n   int
}

func NewTerms() *Terms { return &Terms{tab: map[string]*T{}} }

func (ts *Terms) intern(t *T) *T {
	var sb strings.Builder
	sb.WriteString(t.Op)
	sb.WriteByte('|')
	sb.WriteString(t.Aux)
	if t.K != nil {
		sb.WriteString("|k:")
		sb.WriteString(t.K.ExactString())
		if t.Typ != nil {
			sb.WriteString(":" + typeClass(t.Typ))
		}
	}
	if t.Fn != nil {
		fmt.Fprintf(&sb, "|fn:%p", t.Fn)
	}
	if t.Site != nil {
		fmt.Fprintf(&sb, "|site:%p", t.Site)
	}
	if t.Lin != nil {
		fmt.Fprintf(&sb, "|c:%d", t.Lin.C)
		for i, s := range t.Lin.Syms {
			fmt.Fprintf(&sb, "|%d*%d", t.Lin.Coefs[i], s.id)
		}
	}
	for _, a := range t.Args {
		if a == nil {
			sb.WriteString("|nil")
		} else {
			fmt.Fprintf(&sb, "|%d", a.id)
		}
	}
	k := sb.String()
	if old, ok := ts.tab[k]; ok {
		return old
	}
	ts.n++
	t.id = ts.n
	t.key = k
	ts.tab[k] = t
	return t
}

func typeClass(t types.Type) string {
	if t == nil {
		return "?"
	}
	switch u := t.Underlying().(type) {
	case *types.Basic:
		switch {
		case u.Info()&types.IsBoolean != 0:
			return "bool"
		case u.Info()&types.IsInteger != 0:
			return "int"
		case u.Info()&types.IsFloat != 0:
			return "float"
		case u.Info()&types.IsString != 0:
			return "string"
		case u.Kind() == types.UntypedNil:
			return "nil"
		}
		return "basic"
	case *types.Pointer, *types.Interface, *types.Signature, *types.Slice, *types.Map, *types.Chan:
		return "ref"
	}
	return "other"
}

func isIntType(t types.Type) bool {
	if t == nil {
		return false
	}
	b, ok := t.Underlying().(*types.Basic)
	return ok && b.Info()&types.IsInteger != 0
}
func isUnsignedType(t types.Type) bool {
	if t == nil {
		return false
	}
	b, ok := t.Underlying().(*types.Basic)
	return ok && b.Info()&types.IsUnsigned != 0
}
func isFloatType(t types.Type) bool {
	if t == nil {
		return false
	}
	b, ok := t.Underlying().(*types.Basic)
	return ok && b.Info()&types.IsFloat != 0
}
func isBoolType(t types.Type) bool {
	if t == nil {
		return false
	}
	b, ok := t.Underlying().(*types.Basic)
	return ok && b.Info()&types.IsBoolean != 0
}
func isNillable(t types.Type) bool {
	if t == nil {
		return false
	}
	switch t.Underlying().(type) {
	case *types.Pointer, *types.Interface, *types.Signature, *types.Slice, *types.Map, *types.Chan:
		return true
	}
	if b, ok := t.Underlying().(*types.Basic); ok && b.Kind() == types.UntypedNil {
		return true
	}
	if _, ok := t.(*types.TypeParam); ok {
		return false
	}
	return false
}

// ---- constructors -------------------------------------------------------------------------------

func (ts *Terms) Const(k constant.Value, typ types.Type) *T {
	if k != nil && isIntType(typ) {
		if v, ok := constant.Int64Val(constant.ToInt(k)); ok {
			return ts.LinConst(v, typ)
		}
	}
	return ts.intern(&T{Op: "const", K: k, Typ: typ})
}
func (ts *Terms) Nil(typ types.Type) *T { return ts.intern(&T{Op: "nil", Typ: nil}) }
func (ts *Terms) Bool(b bool) *T {
	return ts.intern(&T{Op: "const", K: constant.MakeBool(b), Typ: types.Typ[types.Bool]})
}
func (ts *Terms) Str(s string) *T {
	return ts.intern(&T{Op: "const", K: constant.MakeString(s), Typ: types.Typ[types.String]})
}
func (ts *Terms) Zero(typ types.Type) *T { return ts.zeroOf(typ) }
func (ts *Terms) Sym(op, aux string, typ types.Type, args ...*T) *T {
	return ts.intern(&T{Op: op, Aux: aux, Typ: typ, Args: args})
}

func (ts *Terms) zeroOf(typ types.Type) *T {
	if typ == nil {
		return ts.intern(&T{Op: "zero", Aux: "?"})
	}
	switch u := typ.Underlying().(type) {
	case *types.Basic:
		switch {
		case u.Info()&types.IsBoolean != 0:
			return ts.Bool(false)
		case u.Info()&types.IsInteger != 0:
			return ts.LinConst(0, typ)
		case u.Info()&types.IsFloat != 0:
			return ts.intern(&T{Op: "const", K: constant.MakeFloat64(0), Typ: typ})
		case u.Info()&types.IsString != 0:
			return ts.Str("")
		}
	case *types.Pointer, *types.Interface, *types.Signature, *types.Slice, *types.Map, *types.Chan:
		return ts.Nil(typ)
	}
	// struct / array / type parameter: an opaque zero value of that type
	return ts.intern(&T{Op: "zero", Aux: types.TypeString(typ, nil), Typ: typ})
}

func (ts *Terms) LinConst(c int64, typ types.Type) *T {
	return ts.intern(&T{Op: "lin", Lin: &Lin{C: c}, Typ: typ})
}

// asLin views an integer term as a linear form.
func asLin(t *T) *Lin {
	if t.Op == "lin" {
		return t.Lin
	}
	return &Lin{Syms: []*T{t}, Coefs: []int64{1}}
}

func (ts *Terms) mkLin(l *Lin, typ types.Type) *T {
	// normalise: merge equal syms, drop zero coefs, sort by id
	m := map[*T]int64{}
	for i, s := range l.Syms {
		m[s] += l.Coefs[i]
	}
	var syms []*T
	for s, c := range m {
		if c != 0 {
			syms = append(syms, s)
		}
	}
	sort.Slice(syms, func(i, j int) bool { return syms[i].id < syms[j].id })
	if len(syms) == 1 && m[syms[0]] == 1 && l.C == 0 {
		return syms[0]
	}
	nl := &Lin{C: l.C}
	for _, s := range syms {
		nl.Syms = append(nl.Syms, s)
		nl.Coefs = append(nl.Coefs, m[s])
	}
	return ts.intern(&T{Op: "lin", Lin: nl, Typ: typ})
}

func (ts *Terms) Add(a, b *T, typ types.Type) *T {
	la, lb := asLin(a), asLin(b)
	l := &Lin{C: la.C + lb.C}
	l.Syms = append(append(l.Syms, la.Syms...), lb.Syms...)
	l.Coefs = append(append(l.Coefs, la.Coefs...), lb.Coefs...)
	return ts.mkLin(l, typ)
}
func (ts *Terms) Neg(a *T, typ types.Type) *T {
	la := asLin(a)
	l := &Lin{C: -la.C}
	for i, s := range la.Syms {
		l.Syms = append(l.Syms, s)
		l.Coefs = append(l.Coefs, -la.Coefs[i])
	}
	return ts.mkLin(l, typ)
}
func (ts *Terms) Sub(a, b *T, typ types.Type) *T { return ts.Add(a, ts.Neg(b, typ), typ) }
func (ts *Terms) MulConst(a *T, k int64, typ types.Type) *T {
	la := asLin(a)
	l := &Lin{C: la.C * k}
	for i, s := range la.Syms {
		l.Syms = append(l.Syms, s)
		l.Coefs = append(l.Coefs, la.Coefs[i]*k)
	}
	return ts.mkLin(l, typ)
}

func (t *T) IsConstInt() (int64, bool) {
	if t.Op == "lin" && len(t.Lin.Syms) == 0 {
		return t.Lin.C, true
	}
	return 0, false
}
func (t *T) IsConstBool() (bool, bool) {
	if t.Op == "const" && t.K != nil && t.K.Kind() == constant.Bool {
		return constant.BoolVal(t.K), true
	}
	return false, false
}
func (t *T) IsConstString() (string, bool) {
	if t.Op == "const" && t.K != nil && t.K.Kind() == constant.String {
		return constant.StringVal(t.K), true
	}
	return "", false
}
func (t *T) IsNilConst() bool { return t.Op == "nil" }

// Commutative binary op with canonical argument order.
func (ts *Terms) Bin(op string, a, b *T, typ types.Type, commutative bool) *T {
	if commutative && b.id < a.id {
		a, b = b, a
	}
	return ts.intern(&T{Op: "bin", Aux: op, Args: []*T{a, b}, Typ: typ})
}
func (ts *Terms) Un(op string, a *T, typ types.Type) *T {
	return ts.intern(&T{Op: "un", Aux: op, Args: []*T{a}, Typ: typ})
}
func (ts *Terms) Not(a *T) *T {
	if b, ok := a.IsConstBool(); ok {
		return ts.Bool(!b)
	}
	if a.Op == "un" && a.Aux == "!" {
		return a.Args[0]
	}
	return ts.Un("!", a, types.Typ[types.Bool])
}

// Cmp builds a comparison term; the evaluator decides it against the facts.
func (ts *Terms) Cmp(op string, a, b *T) *T {
	if a == nil || b == nil {
		return nil // a comparison with an unresolved anchor: undecidable (Facts.Truth(nil) is unknown)
	}
	return ts.intern(&T{Op: "cmp", Aux: op, Args: []*T{a, b}, Typ: types.Typ[types.Bool]})
}

func (t *T) String() string {
	if t == nil {
		return "<nil>"
	}
	switch t.Op {
	case "const":
		if t.K == nil {
			return "const?"
		}
		return t.K.String()
	case "nil":
		return "nil"
	case "zero":
		return "zero(" + t.Aux + ")"
	case "lin":
		var parts []string
		for i, s := range t.Lin.Syms {
			c := t.Lin.Coefs[i]
			switch c {
			case 1:
				parts = append(parts, s.String())
			case -1:
				parts = append(parts, "-"+s.String())
			default:
				parts = append(parts, fmt.Sprintf("%d*%s", c, s.String()))
			}
		}
		if t.Lin.C != 0 || len(parts) == 0 {
			parts = append(parts, fmt.Sprintf("%d", t.Lin.C))
		}
		if len(parts) == 1 {
			return parts[0]
		}
		return "(" + strings.Join(parts, " + ") + ")"
	case "bin", "cmp":
		return "(" + t.Args[0].String() + " " + t.Aux + " " + t.Args[1].String() + ")"
	case "un":
		return t.Aux + t.Args[0].String()
	case "param", "free", "global":
		return t.Aux
	case "alloc":
		return "new#" + t.Aux
	case "closure":
		name := "?"
		if t.Fn != nil {
			name = t.Fn.Name()
		}
		return "closure(" + name + ")#" + t.Aux
	case "func":
		if t.Fn != nil {
			return "func:" + t.Fn.String()
		}
		return "func:" + t.Aux
	case "faddr":
		return "&" + t.Args[0].String() + "." + FieldName(t.Aux)
	case "iaddr":
		return "&" + t.Args[0].String() + "[" + t.Args[1].String() + "]"
	case "init":
		a := t.Args[0]
		if a.Op == "faddr" {
			return a.Args[0].String() + "." + FieldName(a.Aux) + t.Aux
		}
		return "*" + a.String() + t.Aux
	case "fld":
		return t.Args[0].String() + "." + FieldName(t.Aux)
	case "res":
		return "res#" + t.Aux
	case "app":
		var as []string
		for _, a := range t.Args {
			as = append(as, a.String())
		}
		return t.Aux + "(" + strings.Join(as, ", ") + ")"
	}
	var as []string
	for _, a := range t.Args {
		as = append(as, a.String())
	}
	s := t.Op
	if t.Aux != "" {
		s += ":" + t.Aux
	}
	if len(as) > 0 {
		s += "(" + strings.Join(as, ", ") + ")"
	}
	return s
}

// Walk visits t and all sub-terms (including symbols inside linear forms).
func (t *T) Walk(f func(*T)) {
	if t == nil {
		return
	}
	f(t)
	for _, a := range t.Args {
		a.Walk(f)
	}
	if t.Lin != nil {
		for _, s := range t.Lin.Syms {
			s.Walk(f)
		}
	}
}

// Contains reports whether x occurs in t.
func (t *T) Contains(x *T) bool {
	found := false
	t.Walk(func(s *T) {
		if s == x {
			found = true
		}
	})
	return found
}
