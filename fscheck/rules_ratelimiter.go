package main

// Rate limiter rules (C05) and retry delay rules (C13).

import (
	"fmt"
	"go/types"
	"sort"
	"strconv"
	"strings"

	"golang.org/x/tools/go/ssa"
)

func rulesC05(c *Ctx) {
	c05Executor(c)
	c05Wait(c)
	// the cancelled branch of the wait reports exec.LastError(): a nil there would read as "permit acquired"
	c17Flags(c)
	c05Delegation(c)
	c05MaxWait(c)
	c05Smooth(c)
	c05Bursty(c)
	c05Builders(c)
	buildersStore(c, "ratelimiter")
	delegatingBuilders(c, "ratelimiter")
	ruleFailureResult(c)
	lockDiscipline(c, "ratelimiter")
	c.Rule("fresh-executor")
	c01Self(c)
}

// ---- executor --------------------------------------------------------------------------------------------

func c05Executor(c *Ctx) {
	c.Rule("executor")
	tab := c.ExecTable()
	info := tab["ratelimiter"]
	if info == nil || info.Slots["Apply"] == nil {
		c.Unresolved("ratelimiter.executor.Apply", "not resolved")
		return
	}
	waiters := limiterWaiters(c)
	opaque := map[string]bool{}
	waiterNames := map[string]bool{}
	for _, w := range waiters {
		opaque[canonName(w)] = true
		waiterNames[canonName(w)] = true
	}
	ee := c.NewExecEval(info, EvalConfig{Inline: inlinePkgs(c.P, "internal"), Opaque: opaque})
	paths, innerFn, exec := ee.RunApply()
	ev, ts := ee.Ev, ee.Ev.TS
	name, pos := c.fn(info.Slots["Apply"])+"$1", c.P.FuncPos(info.Slots["Apply"])
	if ev.Err != nil || len(paths) == 0 {
		c.Undecided(name, pos, fmt.Sprintf("evaluation failed: %v", ev.Err), "")
		return
	}
	listener := ev.LoadField(ee.St, ee.X, "rateLimiter", "config", "onRateLimitExceeded")
	maxWait := ev.LoadField(ee.St, ee.X, "rateLimiter", "config", "maxWaitTime")
	ok := listener != nil && maxWait != nil
	seen := map[tri]bool{}
	for _, p := range paths {
		bad := func(msg string) {
			ok = false
			c.Fail(name, pos, msg, pathTrace(ev, p))
		}
		acq := eventsWhere(p, func(e *Event) bool { return isCall(e, "acquirePermitsWithMaxWait") })
		inner := eventsWhere(p, func(e *Event) bool { return isDynCall(e, innerFn) })
		if len(waiters) > 0 {
			// split mode: one call of an execution-flavoured waiter (wait rule) with the execution; the max wait is an
			// argument or read by the waiter itself when it is a method of the executor; a permit count, if passed, is 1
			acq = eventsWhere(p, func(e *Event) bool { return e.Kind == EvCall && e.FnTerm == nil && waiterNames[e.Method] })
			good := len(acq) == 1
			if good {
				hasExec, hasMax, onExecutor := false, false, acq[0].Recv == ee.X
				for _, a := range fullArgs(acq[0]) {
					if a == exec {
						hasExec = true
					}
					if a == maxWait {
						hasMax = true
					}
					if k, isC := a.IsConstInt(); isC && k != 1 && isIntType(a.Typ) {
						good = false
					}
				}
				good = good && hasExec && (hasMax || onExecutor)
			}
			if !good {
				bad("the wrapper must acquire exactly once, with the execution (so the wait observes its cancellation) and the configured max wait time")
				continue
			}
		} else {
			var aa []*T
			if len(acq) == 1 {
				aa = lastArgs(acq[0], 4)
			}
			if len(acq) != 1 || aa == nil || len(fullArgs(acq[0])) != 5 || aa[1] != exec || aa[3] != maxWait || !(aa[0].Op == "app" && hasPrefix(aa[0].Aux, "Context@") && aa[0].Args[0] == exec) {
				bad("the wrapper must acquire exactly once, with the execution (so the wait observes its cancellation), its context and the configured max wait time")
				continue
			}
			if k, isC := aa[2].IsConstInt(); !isC || k != 1 {
				bad("one execution takes exactly one permit")
				continue
			}
		}
		got := p.State.Facts.Truth(ts, ts.Cmp("==", acq[0].Res[0], ts.Nil(nil)))
		seen[got] = true
		ls := eventsWhere(p, func(e *Event) bool { return isDynCall(e, listener) })
		switch got {
		case triT:
			if len(inner) != 1 || inner[0].Idx < acq[0].Idx || inner[0].Args[0] != exec || p.Exit != ExitReturn || p.Rets[0] != inner[0].Res[0] || len(ls) != 0 {
				bad("a granted permit must run innerFn(exec) exactly once and return its result unchanged")
			}
		case triF:
			if len(inner) != 0 {
				bad("an execution whose permit was refused or whose wait was cancelled must not run innerFn")
				continue
			}
			// a wait that ended because the execution was cancelled reports the cancellation's cause (the stored cancel
			// result: the timeout's, ErrExecutionCanceled): the error the wait itself returns is read from the copy of
			// the execution the limiter runs on, which a cancellation of the root does not reach (D8)
			ct := eventsWhere(p, func(e *Event) bool { return isCall(e, "IsCanceledWithResult") && e.Recv == exec && e.Idx > acq[0].Idx })
			if len(ct) != 1 {
				bad("after a failed acquire the wrapper must test whether the execution was cancelled (IsCanceledWithResult), so that the cause of the cancellation is what the caller receives")
				continue
			}
			switch triAnd(p.State.Facts.Truth(ts, ct[0].Res[0]), p.State.Facts.Truth(ts, ts.Cmp("!=", ct[0].Res[1], ts.Nil(nil)))) {
			case triT:
				if p.Exit == ExitReturn && p.Rets[0] != ct[0].Res[1] {
					bad("a wait ended by cancellation must return the execution's cancel result")
				}
				if len(ls) != 0 {
					bad("OnRateLimitExceeded must not fire for a cancelled wait")
				}
				continue
			case triF:
			default:
				bad("the outcome of a failed acquire does not depend on whether the execution was cancelled")
				continue
			}
			if p.Exit == ExitReturn && !isFailureAlloc(ev, p, p.Rets[0], func(e *T) bool { return e == acq[0].Res[0] }) {
				bad("a refused execution must fail with the acquire's error (ErrExceeded or the cancellation cause)")
			}
			var isExc tri = triU
			for _, e := range p.Events() {
				if isCall(e, "Is") && len(e.Args) == 2 && e.Args[0] == acq[0].Res[0] && isGlobal(e.Args[1], "ErrExceeded") {
					isExc = p.State.Facts.Truth(ts, e.Res[0])
				}
			}
			has := p.State.Facts.Truth(ts, ts.Cmp("!=", listener, ts.Nil(nil)))
			want := triAnd(has, isExc)
			if has == triF {
				want = triF
			}
			if want == triU || (want == triT) != (len(ls) == 1) || len(ls) > 1 {
				bad("OnRateLimitExceeded must fire exactly once iff the acquire failed with ErrExceeded (and a listener is set)")
			}
		default:
			bad("path does not depend on the acquire's outcome")
		}
	}
	if ok && seen[triT] && seen[triF] {
		c.Ok(name, pos, "acquirePermitsWithMaxWait(exec.Context(), exec, 1, maxWaitTime); nil ⇒ innerFn once, result unchanged; error ⇒ FailureResult(err), no invocation, listener ⇔ ErrExceeded")
	} else if ok {
		c.Fail(name, pos, "wrapper lacks a case", "")
	}
}

// ---- blocking waits --------------------------------------------------------------------------------------

func timerChanOf(cs SelCase, timer *T) bool {
	ch := cs.Chan
	return cs.Dir == types.RecvOnly && (ch.Op == "fld" || ch.Op == "init") && strings.HasSuffix(ch.String(), ".C") && ch.Contains(timer)
}

func c05Wait(c *Ctx) {
	c.Rule("wait")
	type waitSpec struct {
		fn, reserve string
		f           *ssa.Function
	}
	specs := []waitSpec{{"ratelimiter.(*rateLimiter).acquirePermitsWithMaxWait", "acquirePermits", nil}, {"ratelimiter.(*rateLimiter).AcquirePermits", "ReservePermits", nil}}
	if ws := limiterWaiters(c); len(ws) > 0 {
		specs = specs[1:]
		for _, w := range ws {
			specs = append(specs, waitSpec{c.fn(w), "acquirePermits", w})
		}
	}
	flavours := map[string]bool{}
	for _, spec := range specs {
		fn := spec.f
		if fn == nil {
			fn = c.P.Func(spec.fn)
		}
		if fn == nil {
			c.Unresolved(spec.fn, "not found")
			continue
		}
		ev := NewEvaluator(c.P, EvalConfig{})
		ts := ev.TS
		ps := ev.Run(fn)
		if ev.Err != nil || len(ps) == 0 {
			c.Undecided(spec.fn, c.P.FuncPos(fn), fmt.Sprintf("evaluation failed: %v", ev.Err), "")
			continue
		}
		ok := true
		sawNil, sawRefuse, sawCancel := false, false, false
		for _, p := range ps {
			bad := func(msg string) {
				ok = false
				c.Fail(spec.fn, c.P.FuncPos(fn), msg, pathTrace(ev, p))
			}
			if p.Exit != ExitReturn {
				bad("non-returning path")
				continue
			}
			rs := eventsWhere(p, func(e *Event) bool {
				return isCall(e, spec.reserve) || isCall(e, "acquirePermits") || isCall(e, "ReservePermits")
			})
			// ReservePermits(k) written out: acquirePermits(k, -1) on the limiter's stats
			writtenOut := len(rs) == 1 && spec.reserve == "ReservePermits" && rs[0].Method == "acquirePermits" && func() bool {
				a := lastArgs(rs[0], 2)
				k := a[0]
				if k.Op == "app" && strings.HasPrefix(k.Aux, "conv:") && len(k.Args) == 1 {
					k = k.Args[0]
				}
				m, isC := a[1].IsConstInt()
				return k == ev.Param(fn, "permits") && isC && m == -1
			}()
			if !writtenOut && (len(rs) != 1 || rs[0].Method != spec.reserve) {
				bad("must touch the limiter's state exactly once, through " + spec.reserve + " (a cancelled or refused acquire must not hand permits back or take more: later reservations already depend on it)")
				continue
			}
			for _, e := range impure(p) {
				if e.Kind == EvCall && e != rs[0] && !isCall(e, "NewTimer") && !isCall(e, "Stop") && !isCall(e, "Sleep") && !isCall(e, "Background") {
					bad("unexpected effect in a blocking acquire: " + e.String())
				}
			}
			w := rs[0].Res[0]
			ret := p.Rets[0]
			refused := triF
			if spec.reserve == "acquirePermits" {
				refused = p.State.Facts.Truth(ts, ts.Cmp("==", w, ts.LinConst(-1, w.Typ)))
			}
			timers := eventsWhere(p, func(e *Event) bool { return isCall(e, "NewTimer") })
			sels := eventsWhere(p, func(e *Event) bool { return e.Kind == EvSelect })
			sleeps := eventsWhere(p, func(e *Event) bool { return isCall(e, "Sleep") })
			if refused == triT {
				sawRefuse = true
				if !isGlobal(ret, "ErrExceeded") || len(timers)+len(sels)+len(sleeps) != 0 {
					bad("a refused request (-1) must return ErrExceeded immediately without waiting")
				}
				continue
			}
			if refused == triU {
				bad("path does not depend on whether the request was refused (-1)")
				continue
			}
			if len(sleeps) == 1 && len(sels) == 0 {
				// only legal in AcquirePermits with a nil context
				ctxNil := p.State.Facts.Truth(ts, ts.Cmp("==", ev.Param(fn, "ctx"), ts.Nil(nil)))
				if spec.reserve != "ReservePermits" || ctxNil != triT || sleeps[0].Args[0] != w || !ret.IsNilConst() {
					bad("an uninterruptible sleep is only allowed for AcquirePermits(nil, …) and must last the reserved wait")
				} else {
					sawNil = true
				}
				continue
			}
			// nothing to wait for: a reserved wait known to be ≤ 0 may return at once (a timer or sleep of a non-positive
			// duration ends immediately)
			if len(timers)+len(sels)+len(sleeps) == 0 && ret.IsNilConst() && p.State.Facts.Truth(ts, ts.Cmp("<=", w, ts.LinConst(0, w.Typ))) == triT {
				continue
			}
			if len(timers) != 1 || len(sels) != 1 || timers[0].Args[0] != w || timers[0].Idx > sels[0].Idx {
				bad("the wait must be one select on a timer whose duration is exactly the reserved wait time")
				continue
			}
			sel := sels[0]
			if si, isS := sel.Instr.(*ssa.Select); isS && !si.Blocking {
				bad("the wait must block")
				continue
			}
			tc := -1
			for i, cs := range sel.Cases {
				if timerChanOf(cs, timers[0].Res[0]) {
					tc = i
				}
			}
			if tc < 0 || len(sel.Cases) != 2 {
				bad("the wait must select on the timer's channel and on one cancellation channel")
				continue
			}
			oc := sel.Cases[1-tc].Chan
			if oc.Op == "app" && hasPrefix(oc.Aux, "Done@") {
				flavours["context"] = true
			}
			if oc.Op == "app" && hasPrefix(oc.Aux, "Canceled@") {
				flavours["execution"] = true
			}
			if !(oc.Op == "app" && (hasPrefix(oc.Aux, "Done@") || hasPrefix(oc.Aux, "Canceled@"))) {
				bad("the second case of the wait must be the context's Done() or the execution's Canceled() channel")
				continue
			}
			if sel.Chosen == tc {
				sawNil = true
				if !ret.IsNilConst() {
					bad("when the timer fires the acquire succeeds (nil)")
				}
			} else {
				sawCancel = true
				stops := eventsWhere(p, func(e *Event) bool { return isCall(e, "Stop") && e.Recv == timers[0].Res[0] && e.Idx > sel.Idx })
				if len(stops) == 0 {
					bad("the timer must be stopped when the wait is cancelled")
				}
				if ret.IsNilConst() {
					bad("a cancelled wait must not report success: the acquire would succeed before its wait has elapsed")
					continue
				}
				src := oc.Args[0]
				okCause := (ret.Op == "app" && hasPrefix(ret.Aux, "Err@") && ret.Args[0] == src) || (ret.Op == "app" && hasPrefix(ret.Aux, "LastError@") && ret.Args[0] == src)
				if !okCause {
					bad("a cancelled wait must return the cause: the context's Err() or the execution's LastError()")
				}
			}
		}
		if ok && (!sawNil || !sawCancel || (spec.reserve == "acquirePermits" && !sawRefuse)) {
			ok = false
			c.Fail(spec.fn, c.P.FuncPos(fn), "blocking acquire lacks a case (success / cancelled / refused)", "")
		}
		if ok {
			c.Ok(spec.fn, c.P.FuncPos(fn), fmt.Sprintf("%d paths: nil only from the timer case of a timer lasting exactly the reserved wait; -1 ⇒ ErrExceeded at once; cancelled ⇒ timer stopped, cause returned", len(ps)))
		}
	}
	if !flavours["context"] || !flavours["execution"] {
		c.Fail("ratelimiter#waits", "", "the limiter needs a blocking acquire that a context interrupts and one that an execution's cancellation interrupts", "")
	}
}

// ---- delegation ------------------------------------------------------------------------------------------

func c05Delegation(c *Ctx) {
	c.Rule("delegation")
	type d struct {
		fn, callee string
		args       func(ev *Evaluator, fn *ssa.Function) []func(*T) bool
		ret        string // "same", "eq0"
	}
	isConst := func(k int64) func(*T) bool {
		return func(t *T) bool { v, ok := t.IsConstInt(); return ok && v == k }
	}
	isNil := func(t *T) bool { return t.IsNilConst() }
	param := func(ev *Evaluator, fn *ssa.Function, name string) func(*T) bool {
		p := ev.Param(fn, name)
		return func(t *T) bool { return p != nil && t == p }
	}
	specs := []d{
		{"ratelimiter.(*rateLimiter).AcquirePermit", "AcquirePermits", func(ev *Evaluator, fn *ssa.Function) []func(*T) bool {
			return []func(*T) bool{param(ev, fn, "ctx"), isConst(1)}
		}, "same"},
		{"ratelimiter.(*rateLimiter).AcquirePermitWithMaxWait", "acquirePermitsWithMaxWait", func(ev *Evaluator, fn *ssa.Function) []func(*T) bool {
			return []func(*T) bool{param(ev, fn, "ctx"), isNil, isConst(1), param(ev, fn, "maxWaitTime")}
		}, "same"},
		{"ratelimiter.(*rateLimiter).AcquirePermitsWithMaxWait", "acquirePermitsWithMaxWait", func(ev *Evaluator, fn *ssa.Function) []func(*T) bool {
			return []func(*T) bool{param(ev, fn, "ctx"), isNil, param(ev, fn, "requestedPermits"), param(ev, fn, "maxWaitTime")}
		}, "same"},
		{"ratelimiter.(*rateLimiter).ReservePermit", "ReservePermits", func(ev *Evaluator, fn *ssa.Function) []func(*T) bool { return []func(*T) bool{isConst(1)} }, "same"},
		{"ratelimiter.(*rateLimiter).ReservePermits", "acquirePermits", func(ev *Evaluator, fn *ssa.Function) []func(*T) bool {
			return []func(*T) bool{param(ev, fn, "permits"), isConst(-1)}
		}, "same"},
		{"ratelimiter.(*rateLimiter).TryAcquirePermit", "TryAcquirePermits", func(ev *Evaluator, fn *ssa.Function) []func(*T) bool { return []func(*T) bool{isConst(1)} }, "same"},
		{"ratelimiter.(*rateLimiter).TryAcquirePermits", "TryReservePermits", func(ev *Evaluator, fn *ssa.Function) []func(*T) bool {
			return []func(*T) bool{param(ev, fn, "permits"), isConst(0)}
		}, "eq0"},
		{"ratelimiter.(*rateLimiter).TryReservePermit", "TryReservePermits", func(ev *Evaluator, fn *ssa.Function) []func(*T) bool {
			return []func(*T) bool{isConst(1), param(ev, fn, "maxWaitTime")}
		}, "same"},
		{"ratelimiter.(*rateLimiter).TryReservePermits", "acquirePermits", func(ev *Evaluator, fn *ssa.Function) []func(*T) bool {
			return []func(*T) bool{param(ev, fn, "requestedPermits"), param(ev, fn, "maxWaitTime")}
		}, "same"},
	}
	n := 0
	split := len(limiterWaiters(c)) > 0
	for _, sp := range specs {
		if split && sp.callee == "acquirePermitsWithMaxWait" {
			// the dual-mode helper is gone: AcquirePermitsWithMaxWait waits itself (wait rule), and the single-permit form
			// is that with one permit
			if sp.fn == "ratelimiter.(*rateLimiter).AcquirePermitsWithMaxWait" {
				continue
			}
			sp.callee = "AcquirePermitsWithMaxWait"
			sp.args = func(ev *Evaluator, fn *ssa.Function) []func(*T) bool {
				return []func(*T) bool{param(ev, fn, "ctx"), isConst(1), param(ev, fn, "maxWaitTime")}
			}
		}
		fn := c.P.Func(sp.fn)
		if fn == nil {
			c.Unresolved(sp.fn, "not found")
			continue
		}
		ev := NewEvaluator(c.P, EvalConfig{DecideReturns: true})
		ts := ev.TS
		ok := true
		ps := ev.Run(fn)
		for _, p := range ps {
			calls := eventsWhere(p, func(e *Event) bool { return e.Kind == EvCall && !e.Pure })
			want := sp.args(ev, fn)
			good := p.Exit == ExitReturn && len(calls) == 1 && calls[0].Method == sp.callee && len(fullArgs(calls[0])) == len(want)+1
			if good {
				ca := lastArgs(calls[0], len(want))
				for i, w := range want {
					if !w(ca[i]) {
						good = false
					}
				}
			}
			if good && sp.ret == "same" && p.Rets[0] != calls[0].Res[0] {
				good = false
			}
			if good && sp.ret == "eq0" {
				a := p.State.Facts.Truth(ts, p.Rets[0])
				b := p.State.Facts.Truth(ts, ts.Cmp("==", calls[0].Res[0], ts.LinConst(0, calls[0].Res[0].Typ)))
				if a == triU || a != b {
					good = false
				}
			}
			if !good && flatDelegation(c, sp.fn) {
				good = true
			}
			if !good {
				ok = false
				c.Fail(sp.fn, c.P.FuncPos(fn), "must be exactly one call of "+sp.callee+" with the documented arguments (single-permit APIs are the k-permit APIs with k=1; Try* uses max wait 0; Reserve uses no max wait)", pathTrace(ev, p))
			}
		}
		if ok && len(ps) > 0 {
			n++
			c.Ok(sp.fn, c.P.FuncPos(fn), "delegates to "+sp.callee)
		}
	}
	c.Floor("delegating API methods", n, 5)
}

// ---- exceedsMaxWaitTime ----------------------------------------------------------------------------------

// c05RefusalInContext decides the refusal test where it is used, on the two limiters' own paths (the helper, if
// there is one, evaluated in place): a request is refused (−1) exactly when maxWait ≠ −1 ∧ wait > maxWait, where wait
// is what the same computation returns when it grants. A test that is only made on some branch (say, only when no
// permit is currently free) lets requests through that should have been refused.
func c05RefusalInContext(c *Ctx) bool {
	good := true
	for _, name := range []string{"ratelimiter.(*smoothStats).acquirePermits", "ratelimiter.(*burstyStats).acquirePermits"} {
		sf := c.P.Func(name)
		if sf == nil {
			c.Unresolved(name, "not found")
			good = false
			continue
		}
		ev := NewEvaluator(c.P, EvalConfig{Inline: func(f *ssa.Function, d int) bool { return canonName(f) == "exceedsMaxWaitTime" }})
		ts := ev.TS
		ps := ev.Run(sf)
		maxWait := ev.Param(sf, "maxWaitTime")
		if ev.Err != nil || len(ps) == 0 || maxWait == nil {
			c.Undecided(name+"#refusal-test", c.P.FuncPos(sf), fmt.Sprintf("evaluation failed: %v", ev.Err), "")
			good = false
			continue
		}
		noMax := ts.Cmp("==", maxWait, ts.LinConst(-1, maxWait.Typ))
		var waits []*T
		isRefusal := func(p *Path) bool {
			k, isC := p.Rets[0].IsConstInt()
			return isC && k == -1
		}
		for _, p := range ps {
			if p.Exit == ExitReturn && len(p.Rets) == 1 && !isRefusal(p) {
				waits = append(waits, p.Rets[0])
			}
		}
		for _, p := range ps {
			if p.Exit != ExitReturn || len(p.Rets) != 1 {
				continue
			}
			F := p.State.Facts
			if isRefusal(p) {
				exceeded := false
				for _, w := range waits {
					if F.Truth(ts, ts.Cmp(">", w, maxWait)) == triT {
						exceeded = true
					}
				}
				if F.Truth(ts, noMax) != triF || !exceeded {
					good = false
					c.Fail(name+"#refusal-test", c.P.FuncPos(sf), "a request may be refused only when a max wait is set (≠ −1) and the computed wait exceeds it", pathTrace(ev, p))
				}
			} else if w := p.Rets[0]; !(w == ts.LinConst(0, w.Typ) || F.Truth(ts, noMax) == triT || F.Truth(ts, ts.Cmp(">", w, maxWait)) == triF) {
				// (a request that fits waits 0, which no valid max wait forbids)
				good = false
				c.Fail(name+"#refusal-test", c.P.FuncPos(sf), "a request is granted on a path that does not establish maxWait = −1 or wait ≤ maxWait (a wait equal to the max wait is granted, a longer one is refused)", pathTrace(ev, p))
			}
		}
	}
	return good
}

func c05MaxWait(c *Ctx) {
	c.Rule("maxwait")
	inContext := c05RefusalInContext(c)
	fn := c.P.Func("ratelimiter.exceedsMaxWaitTime")
	if fn == nil {
		if inContext {
			c.Ok("ratelimiter.exceedsMaxWaitTime", "", "no helper: refused ⇔ maxWait ≠ −1 ∧ wait > maxWait decided on the paths of both limiters")
		}
		return
	}
	ev := NewEvaluator(c.P, EvalConfig{DecideReturns: true})
	ts := ev.TS
	w, m := ev.Param(fn, fn.Params[0].Name()), ev.Param(fn, fn.Params[1].Name())
	aM := ts.Cmp("==", m, ts.LinConst(-1, m.Typ))
	aG := ts.Cmp(">", w, m)
	ok := true
	rows := 0
	for _, p := range ev.Run(fn) {
		for _, F := range p.State.Facts.Refine(ts, aM, aG) {
			rows++
			want := triAnd(F.Truth(ts, aM).not(), F.Truth(ts, aG))
			if got := F.Truth(ts, p.Rets[0]); got != want || want == triU {
				ok = false
				c.Fail(c.fn(fn), c.P.FuncPos(fn), fmt.Sprintf("exceeds ⇔ maxWait≠-1 ∧ wait > maxWait: expected %s, code yields %s", want, got), "row: "+F.String()+"\n"+pathTrace(ev, p))
			}
		}
	}
	c.Count("decision-table rows", rows)
	if ok && rows > 0 {
		c.Ok(c.fn(fn), c.P.FuncPos(fn), fmt.Sprintf("%d rows: maxWait=-1 ⇒ never exceeded; else wait > maxWait (a wait equal to the max wait is granted)", rows))
	}
}

// ---- smooth / bursty state updates ---------------------------------------------------------------------------

func statsEval(c *Ctx, fnName string) (*Evaluator, []*Path, *ssa.Function, bool) {
	fn := c.P.Func(fnName)
	if fn == nil {
		c.Unresolved(fnName, "not found")
		return nil, nil, nil, false
	}
	ev := NewEvaluator(c.P, EvalConfig{Inline: func(f *ssa.Function, d int) bool { return canonName(f) == "exceedsMaxWaitTime" }})
	ps := ev.Run(fn)
	if ev.Err != nil || len(ps) == 0 {
		c.Undecided(fnName, c.P.FuncPos(fn), fmt.Sprintf("evaluation failed: %v", ev.Err), "")
		return nil, nil, nil, false
	}
	return ev, ps, fn, true
}

func c05Smooth(c *Ctx) {
	c.Rule("smooth-state")
	ev, ps, fn, okk := statsEval(c, "ratelimiter.(*smoothStats).acquirePermits")
	if !okk {
		return
	}
	ts := ev.TS
	name, pos := c.fn(fn), c.P.FuncPos(fn)
	s := ev.Param(fn, fn.Params[0].Name())
	req, maxWait := ev.Param(fn, "requestedPermits"), ev.Param(fn, "maxWaitTime")
	s0 := ev.NewState()
	next0 := ev.LoadField(s0, s, "nextFreePermitTime")
	interval := statsConfigField(ev, s0, s, "interval")
	if next0 == nil || interval == nil || req == nil || maxWait == nil {
		c.Unresolved(name, "fields nextFreePermitTime / interval or parameters not found")
		return
	}
	dur := next0.Typ
	ok := true
	granted, refused := 0, 0
	for _, p := range ps {
		bad := func(msg string) {
			ok = false
			c.Fail(name, pos, msg, pathTrace(ev, p))
		}
		mid, env := lockEnvelope(p, "mtx")
		if !env || p.Exit != ExitReturn {
			bad("must run under the stats mutex (Lock; defer Unlock)")
			continue
		}
		var now *T
		for _, e := range p.Events() {
			if isCall(e, "ElapsedTime") {
				now = e.Res[0]
			}
		}
		if now == nil {
			bad("must read the stopwatch")
			continue
		}
		isRefusal := p.State.Facts.Truth(ts, ts.Cmp("==", p.Rets[0], ts.LinConst(-1, dur)))
		var stores []*Event
		for _, e := range mid {
			if e.Kind == EvStore {
				stores = append(stores, e)
			}
		}
		if k, isC := p.Rets[0].IsConstInt(); isC && k == -1 {
			isRefusal = triT
		} else if isC {
			isRefusal = triF
		} else if isRefusal == triU {
			// a computed wait time: max(…, 0) is never -1
			if p.Rets[0].Op == "app" && p.Rets[0].Aux == "max" {
				isRefusal = triF
			}
		}
		switch isRefusal {
		case triT:
			refused++
			if len(stores) != 0 {
				bad("a refused request (wait would exceed the max wait time) must leave the limiter exactly as it was: no state change")
			}
		case triF:
			granted++
			free := p.State.Facts.Truth(ts, ts.Cmp(">=", now, next0))
			reqTime := ts.Bin("*", interval, req, dur, true)
			var want *T
			switch free {
			case triT:
				rd := findApp(p, "RoundDown")
				if rd == nil || len(rd.Args) != 2 || rd.Args[0] != now || rd.Args[1] != interval {
					bad("when a permit is currently free the new slot must start at the current interval boundary: RoundDown(now, interval)")
					continue
				}
				want = ts.Add(rd, reqTime, dur)
			case triF:
				want = ts.Add(next0, reqTime, dur)
			default:
				bad("the slot assignment does not depend on whether a permit is currently free (now ≥ nextFreePermitTime)")
				continue
			}
			if len(stores) != 1 || !fieldStore(stores[0], s, "nextFreePermitTime") || stores[0].Val != want {
				bad(fmt.Sprintf("a granted request of k permits must advance nextFreePermitTime to %s (k interval slots, one per permit)", want))
				continue
			}
			// wait = max(newNext − now − interval, 0)
			wantWait := ts.Sub(ts.Sub(want, now, dur), interval, dur)
			r := p.Rets[0]
			if !(r.Op == "app" && r.Aux == "max" && len(r.Args) == 2 && ((r.Args[0] == wantWait && isZeroInt(r.Args[1])) || (r.Args[1] == wantWait && isZeroInt(r.Args[0])))) {
				bad("the wait returned must be max(new nextFreePermitTime − now − interval, 0): the instant the last of the k permits becomes usable")
			}
		default:
			bad("cannot decide whether the path refuses the request")
		}
	}
	if ok && (granted == 0 || refused == 0) {
		ok = false
		c.Fail(name, pos, "smooth acquirePermits lacks a granting or refusing path", "")
	}
	if ok {
		c.Ok(name, pos, fmt.Sprintf("%d paths under the mutex: refusal ⇒ no store; grant ⇒ nextFreePermitTime := (now≥next ? RoundDown(now,interval) : next) + k·interval, wait = max(that − now − interval, 0)", len(ps)))
	}
}

func isZeroInt(t *T) bool { k, ok := t.IsConstInt(); return ok && k == 0 }

func findApp(p *Path, method string) *T {
	for _, e := range p.Events() {
		if isCall(e, method) && len(e.Res) == 1 {
			return e.Res[0]
		}
	}
	return nil
}

func c05Bursty(c *Ctx) {
	c.Rule("bursty-state")
	ev, ps, fn, okk := statsEval(c, "ratelimiter.(*burstyStats).acquirePermits")
	if !okk {
		return
	}
	ts := ev.TS
	name, pos := c.fn(fn), c.P.FuncPos(fn)
	s := ev.Param(fn, fn.Params[0].Name())
	req := ev.Param(fn, "requestedPermits")
	s0 := ev.NewState()
	avail0, cur0 := ev.LoadField(s0, s, "availablePermits"), ev.LoadField(s0, s, "currentPeriod")
	P, period := statsConfigField(ev, s0, s, "periodPermits"), statsConfigField(ev, s0, s, "period")
	if avail0 == nil || cur0 == nil || P == nil || period == nil || req == nil {
		c.Unresolved(name, "fields availablePermits / currentPeriod / periodPermits / period not found")
		return
	}
	intT := types.Typ[types.Int]
	ok := true
	granted, refused := 0, 0
	for _, p := range ps {
		bad := func(msg string) {
			ok = false
			c.Fail(name, pos, msg, pathTrace(ev, p))
		}
		_, env := lockEnvelope(p, "mtx")
		if !env || p.Exit != ExitReturn {
			bad("must run under the stats mutex (Lock; defer Unlock)")
			continue
		}
		var now *T
		for _, e := range p.Events() {
			if isCall(e, "ElapsedTime") {
				now = e.Res[0]
			}
		}
		if now == nil {
			bad("must read the stopwatch")
			continue
		}
		newCur := ts.Bin("/", now, period, intT, false)
		rolled := p.State.Facts.Truth(ts, ts.Cmp("<", cur0, newCur))
		var wantAvail, wantCur *T
		switch rolled {
		case triF:
			wantAvail, wantCur = avail0, cur0
		case triT:
			wantCur = newCur
			deficit := p.State.Facts.Truth(ts, ts.Cmp("<", avail0, ts.LinConst(0, intT)))
			switch deficit {
			case triT:
				elapsed := ts.Bin("*", ts.Sub(newCur, cur0, intT), P, intT, true)
				sum := ts.Add(avail0, elapsed, intT)
				args := []*T{sum, P}
				if args[1].id < args[0].id {
					args[0], args[1] = args[1], args[0]
				}
				wantAvail = ts.intern(&T{Op: "app", Aux: "min", Args: args, Typ: intT})
			case triF:
				wantAvail = P
			default:
				bad("the refill at a period roll-over does not depend on whether the limiter is in deficit")
				continue
			}
		default:
			bad("the state update does not depend on whether a new period has begun (currentPeriod < now/period)")
			continue
		}
		ret := p.Rets[0]
		isRefusal := triF
		if k, isC := ret.IsConstInt(); isC && k == -1 {
			isRefusal = triT
		}
		finalAvail, finalCur := ev.LoadField(p.State, s, "availablePermits"), ev.LoadField(p.State, s, "currentPeriod")
		if finalCur != wantCur {
			bad("currentPeriod must become now/period exactly when a new period has begun")
			continue
		}
		if isRefusal == triT {
			refused++
			if finalAvail != wantAvail {
				bad(fmt.Sprintf("a refused request must not consume permits: availablePermits must be %s (only the clock-driven period refill may have happened), found %s", wantAvail, finalAvail))
			}
			continue
		}
		granted++
		if want := ts.Sub(wantAvail, req, intT); finalAvail != want {
			bad(fmt.Sprintf("availablePermits must become %s (refill: not in deficit ⇒ periodPermits, in deficit ⇒ min(deficit + elapsedPeriods·periodPermits, periodPermits); then minus the k requested), found %s", want, finalAvail))
			continue
		}
		// a request that fits in the available permits waits zero
		fits := p.State.Facts.Truth(ts, ts.Cmp("<=", req, wantAvail))
		if fits == triT && !isZeroInt(ret) {
			bad("a request that fits into the available permits must be granted with no wait")
		}
		if fits == triU {
			bad("the grant does not depend on whether the request fits into the available permits")
		}
		if fits == triF {
			// earliest grant: wait until the start of the period in which the last requested permit becomes free:
			// (start of next period − now) + extra·period, extra = deficit/P, minus one when deficit is a multiple of P
			durT := period.Typ
			deficit := ts.Sub(req, wantAvail, intT)
			q := ts.Bin("/", deficit, P, intT, false)
			rem := ts.Bin("%", deficit, P, intT, false)
			whole := p.State.Facts.Truth(ts, ts.Cmp("==", rem, ts.LinConst(0, intT)))
			extra := q
			if whole == triT {
				extra = ts.Add(q, ts.LinConst(-1, intT), intT)
			}
			nextStart := ts.Bin("*", ts.Add(wantCur, ts.LinConst(1, intT), intT), period, durT, true)
			want := ts.Add(ts.Sub(nextStart, now, durT), ts.Bin("*", extra, period, durT, true), durT)
			if whole == triU || ret != want {
				bad(fmt.Sprintf("the wait of a request that does not fit must be the time to the start of the period in which its last permit is free: %s (found %s)", want, ret))
			}
		}
	}
	if ok && (granted == 0 || refused == 0) {
		ok = false
		c.Fail(name, pos, "bursty acquirePermits lacks a granting or refusing path", "")
	}
	if ok {
		c.Ok(name, pos, fmt.Sprintf("%d paths under the mutex: period roll-over refills to periodPermits (from a deficit: min(deficit+elapsed·P, P)); refusal consumes nothing; grant subtracts exactly k; fitting requests wait 0", len(ps)))
	}
}

// ---- builders ---------------------------------------------------------------------------------------------

func c05Builders(c *Ctx) {
	c.Rule("builders")
	if fn := c.P.Func("ratelimiter.(*config).Build"); fn == nil {
		c.Unresolved("ratelimiter.(*config).Build", "not found")
	} else {
		ev := NewEvaluator(c.P, EvalConfig{})
		ts := ev.TS
		ok := true
		cfg := ev.Param(fn, fn.Params[0].Name())
		interval := ev.LoadField(ev.NewState(), cfg, "interval")
		for _, p := range ev.Run(fn) {
			if p.Exit != ExitReturn || len(p.Rets) == 0 {
				ok = false
				c.Fail(c.fn(fn), c.P.FuncPos(fn), "Build must return a fresh limiter with fresh stats over the builder's configuration", pathTrace(ev, p))
				continue
			}
			r := p.Rets[0]
			st := ev.LoadField(p.State, r, "stats")
			smooth := p.State.Facts.Truth(ts, ts.Cmp("!=", interval, ts.LinConst(0, interval.Typ)))
			// the stats work on the builder's configuration: through the configuration itself, or through their own copies of
			// the values they use (which nothing writes afterwards: immutable-config)
			overCfg := st != nil && ev.LoadField(p.State, st, "config") == cfg
			if st != nil && !overCfg && st.Op == "alloc" {
				s0 := ev.NewState()
				if smooth == triT {
					overCfg = ev.LoadField(p.State, st, "interval") == ev.LoadField(s0, cfg, "interval")
				} else if smooth == triF {
					overCfg = ev.LoadField(p.State, st, "periodPermits") == ev.LoadField(s0, cfg, "periodPermits") && ev.LoadField(p.State, st, "period") == ev.LoadField(s0, cfg, "period")
				}
			}
			if p.Exit != ExitReturn || r.Op != "alloc" || st == nil || st.Op != "alloc" || ev.LoadField(p.State, r, "config") != cfg || !overCfg {
				ok = false
				c.Fail(c.fn(fn), c.P.FuncPos(fn), "Build must return a fresh limiter with fresh stats over the builder's configuration", pathTrace(ev, p))
				continue
			}
			tn := namedOfPtr(st.Typ)
			if tn == nil || (smooth == triT && typeCanonName(tn.Obj()) != "smoothStats") || (smooth == triF && typeCanonName(tn.Obj()) != "burstyStats") {
				ok = false
				c.Fail(c.fn(fn), c.P.FuncPos(fn), "interval≠0 ⇒ smooth stats, else bursty stats", pathTrace(ev, p))
				continue
			}
			if smooth == triF {
				if ev.LoadField(p.State, st, "availablePermits") != ev.LoadField(ev.NewState(), cfg, "periodPermits") {
					ok = false
					c.Fail(c.fn(fn), c.P.FuncPos(fn), "a bursty limiter must start with exactly periodPermits available", pathTrace(ev, p))
				}
			}
		}
		if ok {
			c.Ok(c.fn(fn), c.P.FuncPos(fn), "fresh limiter; smooth iff interval≠0; bursty starts with periodPermits")
		}
	}
	for _, spec := range []struct{ fn, kind string }{{"ratelimiter.SmoothBuilder", "smooth"}, {"ratelimiter.SmoothBuilderWithMaxRate", "rate"}, {"ratelimiter.BurstyBuilder", "bursty"}} {
		fn := c.P.Func(spec.fn)
		if fn == nil {
			c.Unresolved(spec.fn, "not found")
			continue
		}
		ev := NewEvaluator(c.P, EvalConfig{})
		ts := ev.TS
		ok := true
		for _, p := range ev.Run(fn) {
			r := p.Rets[0]
			good := p.Exit == ExitReturn && r.Op == "alloc"
			if good {
				switch spec.kind {
				case "smooth":
					iv := ev.LoadField(p.State, r, "interval")
					good = iv != nil && iv.Op == "bin" && iv.Aux == "/" && iv.Args[0] == ev.Param(fn, "period") && iv.Args[1] == ev.Param(fn, "maxExecutions")
				case "rate":
					good = ev.LoadField(p.State, r, "interval") == ev.Param(fn, "maxRate")
				case "bursty":
					good = ev.LoadField(p.State, r, "periodPermits") == ev.Param(fn, "maxExecutions") && ev.LoadField(p.State, r, "period") == ev.Param(fn, "period") && isZeroInt(ev.LoadField(p.State, r, "interval"))
				}
				_ = ts
			}
			if !good {
				ok = false
				c.Fail(spec.fn, c.P.FuncPos(fn), "builder must configure exactly: smooth interval = period / maxExecutions (or the given max rate); bursty periodPermits = maxExecutions per period", pathTrace(ev, p))
			}
		}
		if ok {
			c.Ok(spec.fn, c.P.FuncPos(fn), "configuration as documented")
		}
	}
}

// ===========================================================================================================
// C13 — retry delays
// ===========================================================================================================

func rulesC13(c *Ctx) {
	c13GetDelay(c)
	c13Random(c)
	c.Rule("wait")
	retryLoop(c, map[string]bool{"wait": true, "loop": true})
	c13Builders(c)
	buildersStore(c, "retrypolicy")
	delegatingBuilders(c, "retrypolicy")
	// "the configured envelope" is the configuration at Build time: configuring the builder further must not move the
	// caps, jitter or max duration of a policy already built
	buildCopiesConfig(c)
	// "jitter never accumulates into later backoff delays … the k-th consecutive backoff delay": the last delay is
	// per-execution state of an executor no other execution shares
	c.Rule("fresh-executors")
	c01Self(c)
	// "never extending past the remaining max duration": what remains is measured from the execution's start time,
	// which every copy an enclosing policy makes of the execution must carry unchanged
	c.Rule("execution-protocol")
	execStateMethods(c, map[string]bool{"CopyForHedge": true, "CopyForCancellable": true, "copy": true, "CopyWithResult": true})
}

func c13GetDelay(c *Ctx) {
	c.Rule("envelope")
	tab := c.ExecTable()
	info := tab["retrypolicy"]
	if info == nil {
		c.Unresolved("retrypolicy.executor", "not resolved")
		return
	}
	fn := c.P.Func("retrypolicy.(*executor).getDelay")
	if fn == nil {
		c.Unresolved("retrypolicy.(*executor).getDelay", "not found")
		return
	}
	name, pos := c.fn(fn), c.P.FuncPos(fn)
	helpers := map[string]bool{"getFixedOrRandomDelay": true, "adjustForJitter": true, "adjustForMaxDuration": true}
	ee := c.NewExecEval(info, EvalConfig{Inline: func(f *ssa.Function, d int) bool {
		return c.P.InScope[f] && f.Pkg != nil && f.Pkg.Pkg.Name() == "retrypolicy" && (helpers[canonName(f)] || f.Signature.Recv() != nil && f != fn && f.Name() != "ComputeDelay" && namedOfPtr(f.Signature.Recv().Type()) != nil && namedOfPtr(f.Signature.Recv().Type()).Obj().Name() == "executor")
	}})
	ev, ts := ee.Ev, ee.Ev.TS
	exec := ee.Sym("exec", fn.Params[1].Type())
	ps := ev.RunFrom(ee.St, fn, []*T{ee.X, exec}, nil)
	if ev.Err != nil || len(ps) == 0 {
		c.Undecided(name, pos, fmt.Sprintf("evaluation failed: %v", ev.Err), "")
		return
	}
	c.Count("paths", len(ps))
	s0 := ee.St
	cfg := func(f string) *T { return ev.LoadField(s0, ee.X, "retryPolicy", "config", f) }
	delayCfg := ev.LoadField(s0, ee.X, "retryPolicy", "config", "BaseDelayablePolicy", "Delay")
	last0 := ev.LoadField(s0, ee.X, "lastDelay")
	maxDelay, factor, dMin, dMax, jitter, jf, maxDur := cfg("maxDelay"), cfg("delayFactor"), cfg("delayMin"), cfg("delayMax"), cfg("jitter"), cfg("jitterFactor"), cfg("maxDuration")
	for _, t := range []*T{delayCfg, last0, maxDelay, factor, dMin, dMax, jitter, jf, maxDur} {
		if t == nil {
			c.Unresolved(name, "delay configuration fields not found")
			return
		}
	}
	dur := delayCfg.Typ
	zero := ts.LinConst(0, dur)
	ok := true
	kinds := map[string]bool{}
	for _, p := range ps {
		bad := func(msg string) {
			ok = false
			c.Fail(name, pos, msg, pathTrace(ev, p))
		}
		if p.Exit != ExitReturn {
			bad("non-returning path")
			continue
		}
		F := p.State.Facts
		tv := func(t *T) tri { return F.Truth(ts, t) }
		// 1. outermost: max(0, ·)
		r := p.Rets[0]
		if !(r.Op == "app" && r.Aux == "max" && len(r.Args) == 2 && (isZeroInt(r.Args[0]) || isZeroInt(r.Args[1]))) {
			bad("every scheduled delay must be clamped to be non-negative: the returned value must be max(0, ·)")
			continue
		}
		inner := r.Args[0]
		if isZeroInt(inner) {
			inner = r.Args[1]
		}
		// 2. max-duration clamp directly below
		var elapsed *T
		for _, e := range p.Events() {
			if isCall(e, "ElapsedTime") && e.Recv == exec {
				elapsed = e.Res[0]
			}
		}
		hasMax := tv(ts.Cmp("!=", maxDur, zero))
		afterJitter := inner
		switch hasMax {
		case triT:
			if elapsed == nil {
				bad("with a max duration the delay must be clamped to the remaining time (maxDuration − elapsed)")
				continue
			}
			rem := ts.Sub(maxDur, elapsed, dur)
			if !(inner.Op == "app" && inner.Aux == "min" && len(inner.Args) == 2 && (inner.Args[0] == rem || inner.Args[1] == rem)) {
				bad("with a max duration the delay must be min(delay, maxDuration − elapsed), applied after any jitter so that the jittered delay cannot extend past the remaining max duration")
				continue
			}
			afterJitter = inner.Args[0]
			if afterJitter == rem {
				afterJitter = inner.Args[1]
			}
		case triF:
		default:
			bad("the clamp does not depend on whether a max duration is configured")
			continue
		}
		// 3. base delay
		var cd *Event
		for _, e := range p.Events() {
			if isCall(e, "ComputeDelay") {
				cd = e
			}
		}
		if cd == nil || cd.Args[0] != exec {
			bad("the delay function must be consulted first (ComputeDelay(exec))")
			continue
		}
		var base *T
		lastStores := eventsWhere(p, func(e *Event) bool { return fieldStore(e, ee.X, "lastDelay") })
		computed := tv(ts.Cmp("!=", cd.Res[0], ts.LinConst(-1, dur)))
		switch computed {
		case triT:
			kinds["delay-function"] = true
			base = cd.Res[0]
			if len(lastStores) != 0 {
				bad("a delay supplied by the delay function must not alter the backoff state")
			}
		case triF:
			fixed := tv(ts.Cmp("!=", delayCfg, zero))
			switch fixed {
			case triT:
				if len(lastStores) != 1 {
					bad("the fixed/backoff branch must record the (un-jittered) delay it returns as lastDelay exactly once")
					continue
				}
				base = lastStores[0].Val
				var retriesT *T
				for _, e := range p.Events() {
					if isCall(e, "Retries") && e.Recv == exec {
						retriesT = e.Res[0]
					}
				}
				retried := triU
				if retriesT != nil {
					retried = tv(ts.Cmp(">=", retriesT, ts.LinConst(1, retriesT.Typ)))
				}
				backoff := triAnd(triAnd(tv(ts.Cmp("!=", last0, zero)), retried), tv(ts.Cmp("!=", maxDelay, zero)))
				switch backoff {
				case triT:
					kinds["backoff"] = true
					if !(base.Op == "app" && base.Aux == "min" && len(base.Args) == 2 && (base.Args[0] == maxDelay || base.Args[1] == maxDelay)) {
						bad("a backoff delay must be clamped: min(previous·factor, maxDelay)")
						continue
					}
					grown := base.Args[0]
					if grown == maxDelay {
						grown = base.Args[1]
					}
					// the factor is a float (1.5 is a legal factor): it must enter the product as it is, the previous delay
					// being converted to floating point — converting the factor to an integer type truncates it
					factorDirect := false
					grown.Walk(func(t *T) {
						if len(t.Args) == 2 && (t.Args[0] == factor || t.Args[1] == factor) {
							other := t.Args[0]
							if other == factor {
								other = t.Args[1]
							}
							if other.Contains(last0) && other.Op == "app" && strings.HasPrefix(other.Aux, "conv:float") {
								factorDirect = true
							}
						}
					})
					if !factorDirect && grown.Contains(last0) && grown.Contains(factor) {
						bad("the backoff product must be computed in floating point with the delay factor unconverted (a fractional factor such as 1.5 must not be truncated)")
					}
					if !grown.Contains(last0) || !grown.Contains(factor) || containsRand(p, grown) {
						bad("the backoff must multiply the previous un-jittered backoff delay (lastDelay) by the delay factor: recomputing from the base delay is unbounded before the clamp and jitter must not accumulate")
					}
				case triF:
					kinds["fixed"] = true
					if base != delayCfg {
						bad("the first (or non-backoff) delay must be exactly the configured delay")
					}
				default:
					bad("backoff does not depend on: previous delay set ∧ at least one retry ∧ max delay configured")
					continue
				}
			case triF:
				if len(lastStores) != 0 {
					bad("random / zero delays must not touch the backoff state")
				}
				rnd := triAnd(tv(ts.Cmp("!=", dMin, zero)), tv(ts.Cmp("!=", dMax, zero)))
				switch rnd {
				case triT:
					kinds["random"] = true
					rr := eventsWhere(p, func(e *Event) bool { return isCall(e, "RandomDelayInRange") })
					if len(rr) != 1 || !rr[0].Args[0].Contains(dMin) || !rr[0].Args[1].Contains(dMax) || !resultOfCall(p, rr[0].Args[2], "Float64") {
						bad("a random delay must be RandomDelayInRange(delayMin, delayMax, rand.Float64())")
						continue
					}
					base = rr[0].Res[0]
				case triF:
					kinds["none"] = true
					base = zero
				default:
					bad("the random delay does not depend on both bounds being configured")
					continue
				}
			default:
				bad("path does not depend on whether a fixed delay is configured")
				continue
			}
		default:
			bad("path does not depend on whether the delay function supplied a delay (≠ -1)")
			continue
		}
		if base == nil {
			continue
		}
		// 4. jitter: at most once, only when the delay is non-zero, never stored
		nz := tv(ts.Cmp("!=", base, zero))
		if isZeroInt(base) {
			nz = triF
		}
		var wantJ string
		switch {
		case nz == triF:
			wantJ = "none"
		case nz == triT && tv(ts.Cmp("!=", jitter, zero)) == triT:
			wantJ = "RandomDelay"
		case nz == triT && tv(ts.Cmp("!=", jitter, zero)) == triF && tv(ts.Cmp("!=", jf, ts.Zero(jf.Typ))) == triT:
			wantJ = "RandomDelayFactor"
		case nz == triT && tv(ts.Cmp("!=", jitter, zero)) == triF && tv(ts.Cmp("!=", jf, ts.Zero(jf.Typ))) == triF:
			wantJ = "none"
		default:
			bad("jitter does not depend on: delay≠0, jitter≠0, jitterFactor≠0")
			continue
		}
		js := eventsWhere(p, func(e *Event) bool { return isCall(e, "RandomDelay") || isCall(e, "RandomDelayFactor") })
		if wantJ == "none" {
			if len(js) != 0 || afterJitter != base {
				bad("no jitter may be applied here (zero delay or no jitter configured): the delay must pass through unchanged")
			}
		} else {
			cfgArg := jitter
			randName := "Float64"
			if wantJ == "RandomDelayFactor" {
				cfgArg = jf
				randName = "Float32"
			}
			if len(js) != 1 || js[0].Method != wantJ || js[0].Args[0] != base || js[0].Args[1] != cfgArg || !resultOfCall(p, js[0].Args[2], randName) || afterJitter != js[0].Res[0] {
				bad(fmt.Sprintf("jitter must be applied exactly once as util.%s(delay, configured jitter, fresh random) to the un-jittered delay, before the max-duration clamp", wantJ))
			}
		}
		// 5. lastDelay never holds a jittered value
		for _, st := range lastStores {
			if containsRand(p, st.Val) {
				bad("a jittered or random value is stored as lastDelay: jitter would accumulate into later backoff delays")
			}
		}
	}
	for _, k := range []string{"delay-function", "backoff", "fixed", "random", "none"} {
		if ok && !kinds[k] {
			ok = false
			c.Fail(name, pos, "getDelay lacks the "+k+" case", "")
		}
	}
	if ok {
		c.Ok(name, pos, fmt.Sprintf("%d paths: max(0, [min(·, maxDuration−elapsed)] jitter?(base)); base = delay function value | min(lastDelay·factor, maxDelay) | Delay | random in range | 0; jitter once on non-zero delays, never stored", len(ps)))
	}
}

// containsRand: t depends on a result of math/rand.
func containsRand(p *Path, t *T) bool {
	found := false
	rands := map[*T]bool{}
	for _, e := range p.Events() {
		if e.Kind == EvCall && e.Fn != nil && strings.HasPrefix(qualName(e.Fn), "math/rand.") {
			for _, r := range e.Res {
				rands[r] = true
			}
		}
		if e.Kind == EvCall && (e.Method == "RandomDelay" || e.Method == "RandomDelayFactor" || e.Method == "RandomDelayInRange") {
			for _, r := range e.Res {
				rands[r] = true
			}
		}
	}
	t.Walk(func(s *T) {
		if rands[s] {
			found = true
		}
	})
	return found
}

func resultOfCall(p *Path, t *T, method string) bool {
	for _, e := range p.Events() {
		if e.Kind == EvCall && e.Method == method && len(e.Res) == 1 && e.Res[0] == t && e.Fn != nil && strings.HasPrefix(qualName(e.Fn), "math/rand.") {
			return true
		}
	}
	return false
}

// c13Random: the random helpers compute the documented formulas (exact up to commutativity).
func c13Random(c *Ctx) {
	c.Rule("random-helpers")
	type spec struct {
		fn    string
		check func(ev *Evaluator, fn *ssa.Function, p *Path) bool
		doc   string
	}
	has := func(t *T, subs ...*T) bool {
		for _, s := range subs {
			if s == nil || !t.Contains(s) {
				return false
			}
		}
		return true
	}
	specs := []spec{
		{"util.RandomDelayInRange", func(ev *Evaluator, fn *ssa.Function, p *Path) bool {
			r := p.Rets[0]
			mn, mx, rnd := ev.Param(fn, "delayMin"), ev.Param(fn, "delayMax"), ev.Param(fn, "random")
			// conv(random*(max−min) + min)
			if !(r.Op == "app" && strings.HasPrefix(r.Aux, "conv:")) {
				return false
			}
			sum := r.Args[0]
			if !(sum.Op == "bin" && sum.Aux == "+") {
				return false
			}
			var prod, addend *T
			for i := 0; i < 2; i++ {
				if sum.Args[i].Op == "bin" && sum.Args[i].Aux == "*" {
					prod, addend = sum.Args[i], sum.Args[1-i]
				}
			}
			if prod == nil || !has(addend, mn) || addend.Contains(mx) || addend.Contains(rnd) {
				return false
			}
			var span *T
			for i := 0; i < 2; i++ {
				if prod.Args[i] == rnd {
					span = prod.Args[1-i]
				}
			}
			return span != nil && span.Op == "bin" && span.Aux == "-" && has(span.Args[0], mx) && has(span.Args[1], mn) && !span.Args[0].Contains(mn)
		}, "random·(max−min) + min"},
		{"util.RandomDelay", func(ev *Evaluator, fn *ssa.Function, p *Path) bool {
			r := p.Rets[0]
			d, j, rnd := ev.Param(fn, "delay"), ev.Param(fn, "jitter"), ev.Param(fn, "random")
			// delay + T((1 − 2·random)·jitter)
			var other *T
			if r.Op == "bin" && r.Aux == "+" {
				for i := 0; i < 2; i++ {
					if r.Args[i] == d {
						other = r.Args[1-i]
					}
				}
			} else {
				l := asLin(r)
				if len(l.Syms) != 2 || l.C != 0 {
					return false
				}
				for i, s := range l.Syms {
					if s == d && l.Coefs[i] == 1 && l.Coefs[1-i] == 1 {
						other = l.Syms[1-i]
					}
				}
			}
			return other != nil && has(other, j, rnd) && !other.Contains(d)
		}, "delay + (1−2·random)·jitter"},
		{"util.RandomDelayFactor", func(ev *Evaluator, fn *ssa.Function, p *Path) bool {
			r := p.Rets[0]
			d, jf, rnd := ev.Param(fn, "delay"), ev.Param(fn, "jitterFactor"), ev.Param(fn, "random")
			return r.Op == "app" && strings.HasPrefix(r.Aux, "conv:") && r.Args[0].Op == "bin" && r.Args[0].Aux == "*" && has(r.Args[0], d, jf, rnd)
		}, "delay·(1 + (1−2·random)·jitterFactor)"},
	}
	for _, sp := range specs {
		fn := c.P.Func(sp.fn)
		if fn == nil {
			c.Unresolved(sp.fn, "not found")
			continue
		}
		ev := NewEvaluator(c.P, EvalConfig{})
		ok := true
		ps := ev.Run(fn)
		for _, p := range ps {
			if p.Exit != ExitReturn || len(impure(p)) != 0 || !sp.check(ev, fn, p) {
				ok = false
				c.Fail(sp.fn, c.P.FuncPos(fn), "helper must compute "+sp.doc+" from its arguments only", pathTrace(ev, p))
			}
		}
		if ok && len(ps) > 0 {
			c.Ok(sp.fn, c.P.FuncPos(fn), sp.doc)
		}
	}
}

// c13Builders: delay-related builder methods store exactly what they are given.
func c13Builders(c *Ctx) {
	c.Rule("builders")
	type st struct{ field, param string }
	specs := []struct {
		fn     string
		stores []st
		zero   []string
	}{
		{"retrypolicy.(*config).WithBackoffFactor", []st{{"maxDelay", "maxDelay"}, {"delayFactor", "delayFactor"}}, []string{"delayMin", "delayMax"}},
		{"retrypolicy.(*config).WithRandomDelay", []st{{"delayMin", "delayMin"}, {"delayMax", "delayMax"}}, []string{"maxDelay"}},
		{"retrypolicy.(*config).WithJitter", []st{{"jitter", "jitter"}}, nil},
		{"retrypolicy.(*config).WithJitterFactor", []st{{"jitterFactor", "jitterFactor"}}, nil},
		{"retrypolicy.(*config).WithMaxDuration", []st{{"maxDuration", "maxDuration"}}, nil},
		{"retrypolicy.(*config).WithMaxRetries", []st{{"maxRetries", "maxRetries"}}, nil},
	}
	n := 0
	for _, sp := range specs {
		fn := c.P.Func(sp.fn)
		if fn == nil {
			c.Unresolved(sp.fn, "not found")
			continue
		}
		ev := NewEvaluator(c.P, EvalConfig{})
		ok := true
		recv := ev.Param(fn, fn.Params[0].Name())
		ps := ev.Run(fn)
		for _, p := range ps {
			for _, s := range sp.stores {
				if ev.LoadField(p.State, recv, s.field) != ev.Param(fn, s.param) {
					ok = false
					c.Fail(sp.fn, c.P.FuncPos(fn), "builder must store "+s.param+" into "+s.field+" unchanged", pathTrace(ev, p))
				}
			}
			for _, z := range sp.zero {
				if v := ev.LoadField(p.State, recv, z); v == nil || !isZeroInt(v) {
					ok = false
					c.Fail(sp.fn, c.P.FuncPos(fn), "builder must clear "+z+" (the other delay kind)", pathTrace(ev, p))
				}
			}
			if p.Exit == ExitReturn && p.Rets[0] != recv {
				ok = false
				c.Fail(sp.fn, c.P.FuncPos(fn), "builder must return itself", pathTrace(ev, p))
			}
		}
		if ok && len(ps) > 0 {
			n++
			c.Ok(sp.fn, c.P.FuncPos(fn), "stores its arguments unchanged")
		}
	}
	c.Floor("delay builder methods", n, 6)
	// WithMaxAttempts: -1 ⇒ unlimited, else attempts−1 retries
	if fn := c.P.Func("retrypolicy.(*config).WithMaxAttempts"); fn == nil {
		c.Unresolved("retrypolicy.(*config).WithMaxAttempts", "not found")
	} else {
		ev := NewEvaluator(c.P, EvalConfig{})
		ts := ev.TS
		ok := true
		recv := ev.Param(fn, fn.Params[0].Name())
		ma := ev.Param(fn, "maxAttempts")
		for _, p := range ev.Run(fn) {
			unl := p.State.Facts.Truth(ts, ts.Cmp("==", ma, ts.LinConst(-1, ma.Typ)))
			got := ev.LoadField(p.State, recv, "maxRetries")
			want := ts.Add(ma, ts.LinConst(-1, ma.Typ), ma.Typ)
			if unl == triT {
				want = ts.LinConst(-1, ma.Typ)
			}
			if unl == triU || !sameUnder(ev, p.State.Facts, got, want) {
				ok = false
				c.Fail(c.fn(fn), c.P.FuncPos(fn), "WithMaxAttempts(n) must mean n−1 retries, and -1 unlimited", pathTrace(ev, p))
			}
		}
		if ok {
			c.Ok(c.fn(fn), c.P.FuncPos(fn), "maxRetries = maxAttempts−1, or -1 for unlimited")
		}
	}
}

// flatDelegation: the non-blocking permit API method fn, with every function of the package evaluated in place, is
// exactly one request to the limiter's stats with the documented (permits, max wait) and returns its answer (Try*
// compare it with 0) — whatever chain of the sibling methods it goes through, or none.
func flatDelegation(c *Ctx, name string) bool {
	type want struct {
		k, mw string // parameter name, or "#n" for the constant n
		ret   string
	}
	table := map[string]want{
		"ratelimiter.(*rateLimiter).ReservePermit":     {"#1", "#-1", "same"},
		"ratelimiter.(*rateLimiter).ReservePermits":    {"permits", "#-1", "same"},
		"ratelimiter.(*rateLimiter).TryAcquirePermit":  {"#1", "#0", "eq0"},
		"ratelimiter.(*rateLimiter).TryAcquirePermits": {"permits", "#0", "eq0"},
		"ratelimiter.(*rateLimiter).TryReservePermit":  {"#1", "maxWaitTime", "same"},
		"ratelimiter.(*rateLimiter).TryReservePermits": {"requestedPermits", "maxWaitTime", "same"},
	}
	w, known := table[name]
	fn := c.P.Func(name)
	if !known || fn == nil {
		return false
	}
	ev := NewEvaluator(c.P, EvalConfig{DecideReturns: true, Inline: func(f *ssa.Function, d int) bool {
		return c.P.InScope[f] && f.Pkg == fn.Pkg && d < 5
	}})
	ts := ev.TS
	ps := ev.Run(fn)
	if ev.Err != nil || len(ps) == 0 {
		return false
	}
	matches := func(t *T, spec string) bool {
		if t.Op == "app" && strings.HasPrefix(t.Aux, "conv:") && len(t.Args) == 1 {
			t = t.Args[0]
		}
		if strings.HasPrefix(spec, "#") {
			n, err := strconv.Atoi(spec[1:])
			k, isC := t.IsConstInt()
			return err == nil && isC && k == int64(n)
		}
		pt := ev.Param(fn, spec)
		return pt != nil && t == pt
	}
	for _, p := range ps {
		calls := eventsWhere(p, func(e *Event) bool { return e.Kind == EvCall && !e.Pure })
		if p.Exit != ExitReturn || len(calls) != 1 || calls[0].Method != "acquirePermits" || len(calls[0].Args) < 2 {
			return false
		}
		a := lastArgs(calls[0], 2)
		if !matches(a[0], w.k) || !matches(a[1], w.mw) {
			return false
		}
		switch w.ret {
		case "same":
			if p.Rets[0] != calls[0].Res[0] {
				return false
			}
		case "eq0":
			x := p.State.Facts.Truth(ts, p.Rets[0])
			y := p.State.Facts.Truth(ts, ts.Cmp("==", calls[0].Res[0], ts.LinConst(0, calls[0].Res[0].Typ)))
			if x == triU || x != y {
				return false
			}
		}
	}
	return true
}

// statsConfigField: a configuration value the limiter's stats object works with: read through the configuration it
// holds (s.config.f) or, when the stats keep their own copy made at Build time, from the stats themselves (s.f).
func statsConfigField(ev *Evaluator, st *State, s *T, f string) *T {
	if n := namedOfPtr(s.Typ); n != nil {
		if str, ok := n.Underlying().(*types.Struct); ok {
			for i := 0; i < str.NumFields(); i++ {
				if fn := namedOfPtr(str.Field(i).Type()); fn != nil && typeCanonName(fn.Obj()) == "config" {
					return ev.LoadField(st, s, "config", f)
				}
			}
		}
	}
	return ev.LoadField(st, s, f)
}

// limiterWaiters: when the dual-mode acquirePermitsWithMaxWait(ctx, exec, …) of the reviewed tree is gone — split into a
// context flavour and an execution flavour, as maintainers like to do — the functions of the package that take its place:
// those that ask the limiter's stats for permits themselves and then wait on a timer (other than AcquirePermits, which
// reserves through ReservePermits). nil when the original function exists.
func limiterWaiters(c *Ctx) []*ssa.Function {
	if c.P.Func("ratelimiter.(*rateLimiter).acquirePermitsWithMaxWait") != nil {
		return nil
	}
	var out []*ssa.Function
	for _, fn := range c.P.Funcs {
		if fn.Pkg == nil || fn.Pkg.Pkg.Name() != "ratelimiter" || fn.Parent() != nil || !c.P.InScope[fn] || len(fn.Blocks) == 0 {
			continue
		}
		if n := canonName(fn); n == "AcquirePermits" || n == "ReservePermits" || n == "TryReservePermits" {
			continue
		}
		asks := false
		for _, b := range fn.Blocks {
			for _, in := range b.Instrs {
				if cc, ok := in.(ssa.CallInstruction); ok && cc.Common().IsInvoke() && cc.Common().Method.Name() == "acquirePermits" {
					asks = true
				}
			}
		}
		if !asks {
			continue
		}
		ev := NewEvaluator(c.P, EvalConfig{})
		timer := false
		for _, p := range ev.Run(fn) {
			if len(eventsWhere(p, func(e *Event) bool { return isCall(e, "NewTimer") })) > 0 {
				timer = true
			}
		}
		if timer {
			out = append(out, fn)
		}
	}
	sort.Slice(out, func(i, j int) bool { return c.fn(out[i]) < c.fn(out[j]) })
	return out
}
