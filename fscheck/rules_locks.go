package main

// LOCKSET and concurrency-structure rules (C14; parts reused by C03/C04/C05).
//
//   guarded-by   : fields protected by a mutex are accessed only with that mutex held, interprocedurally
//                  (a function that touches guarded state without holding the lock "needs" it; every caller
//                  must hold it or needs it itself; no API root may still need it).
//   unlock       : every Lock is released by a deferred Unlock, or by a plain Unlock on every path with no
//                  call in between.
//   order        : the lock-order graph is acyclic and no function acquires a lock it may already hold.
//   spawn-shared : variables captured by spawned goroutines / timer callbacks and written after the spawn
//                  (or inside it) are atomics or channels.
//   confinement  : an executor that invokes innerFn from spawned goroutines must not wrap an executor with
//                  unsynchronised mutable state.
//   escape       : executions handed to user callbacks are private copies.

import (
	"fmt"
	"go/token"
	"go/types"
	"sort"
	"strings"

	"golang.org/x/tools/go/ssa"
)

type lockID struct{ Pkg, Type, Field string }

func (l lockID) String() string { return l.Pkg + "." + l.Type + "." + l.Field }

// guarded: (struct type → fields) protected by lock
type guardSpec struct {
	lock       lockID
	fields     map[string]map[string]bool // type name → field names ("*" = all)
	pkg        string
	ifaces     []string          // interfaces whose implementers' methods run under the lock (dispatch edges)
	exempt     map[string]string // function name → reason (roots allowed to need the lock)
	writesOnly bool
}

func guardSpecs() []guardSpec {
	return []guardSpec{
		{lock: lockID{"circuitbreaker", "circuitBreaker", "mtx"}, pkg: "circuitbreaker",
			fields: map[string]map[string]bool{"circuitBreaker": {"state": true}, "closedState": {"*": true}, "openState": {"*": true}, "halfOpenState": {"*": true},
				"countingStats": {"*": true}, "timedStats": {"*": true}, "stat": {"*": true}},
			ifaces: []string{"circuitState", "stats"},
			exempt: map[string]string{
				"circuitbreaker.(*circuitBreaker).Reset":     "unexported-type helper reached only by reflection from internal/policytesting (test hook)",
				"circuitbreaker.(*eventMetrics).Executions":  "event metrics are only meaningful inside a state-change listener, which runs with the breaker's mutex held",
				"circuitbreaker.(*eventMetrics).Failures":    "see Executions",
				"circuitbreaker.(*eventMetrics).FailureRate": "see Executions",
				"circuitbreaker.(*eventMetrics).Successes":   "see Executions",
				"circuitbreaker.(*eventMetrics).SuccessRate": "see Executions",
			}},
		{lock: lockID{"ratelimiter", "smoothStats", "mtx"}, pkg: "ratelimiter", fields: map[string]map[string]bool{"smoothStats": {"nextFreePermitTime": true}}},
		{lock: lockID{"ratelimiter", "burstyStats", "mtx"}, pkg: "ratelimiter", fields: map[string]map[string]bool{"burstyStats": {"availablePermits": true, "currentPeriod": true}}},
		{lock: lockID{"failsafe", "execution", "mtx"}, pkg: "failsafe", writesOnly: true,
			fields: map[string]map[string]bool{"execution": {"lastResult": true, "lastError": true, "attemptStartTime": true, "canceledResult*": true, "isHedge": true, "ctx": true, "cancelFunc": true}}},
	}
}

type lockAnalysis struct {
	c      *Ctx
	spec   guardSpec
	fns    []*ssa.Function
	held   map[ssa.Instruction]bool // lock held before this instruction
	needs  map[*ssa.Function]string // function needs the lock: reason (first unprotected access)
	needAt map[*ssa.Function]ssa.Instruction
}

func isLockCall(in ssa.Instruction, spec guardSpec, method string) bool {
	cc, ok := in.(ssa.CallInstruction)
	if !ok {
		return false
	}
	if cc.Common().IsInvoke() {
		// the mutex kept behind a sync.Locker-shaped interface in the same field
		return cc.Common().Method.Name() == method && mutexField(cc.Common().Value, spec.lock)
	}
	cal := calleeOf(cc.Common())
	if cal == nil || cal.Name() != method || !strings.HasPrefix(qualName(cal), "(*sync.Mutex)") && !strings.HasPrefix(qualName(cal), "(*sync.RWMutex)") {
		return false
	}
	if len(cc.Common().Args) == 0 {
		return false
	}
	return mutexField(cc.Common().Args[0], spec.lock)
}

func mutexField(v ssa.Value, l lockID) bool {
	if u, ok := v.(*ssa.UnOp); ok && u.Op == token.MUL {
		v = u.X // *sync.Mutex stored in a field
	}
	fa, ok := v.(*ssa.FieldAddr)
	if !ok {
		return false
	}
	fr, okf := fieldRefOfAddr(fa)
	return okf && fr.Pkg == l.Pkg && fr.Type == l.Type && fr.Field == l.Field
}

// computeHeld: forward must-analysis of "lock held" per instruction of fn.
func computeHeld(fn *ssa.Function, spec guardSpec, held map[ssa.Instruction]bool) {
	computeHeldMode(fn, spec, held, false)
}

// computeHeldMode: with exclusive set, only Lock / Unlock count (a read lock of a sync.RWMutex does not license writes).
func computeHeldMode(fn *ssa.Function, spec guardSpec, held map[ssa.Instruction]bool, exclusive bool) {
	in := map[*ssa.BasicBlock]int{} // 0 unknown, 1 held, 2 not held
	out := map[*ssa.BasicBlock]int{}
	if len(fn.Blocks) == 0 {
		return
	}
	changed := true
	for iter := 0; changed && iter < 50; iter++ {
		changed = false
		for _, b := range fn.Blocks {
			st := 0
			if b == fn.Blocks[0] {
				st = 2
			} else {
				for _, p := range b.Preds {
					o := out[p]
					if o == 0 {
						continue
					}
					if st == 0 {
						st = o
					} else if st != o {
						st = 2 // must-analysis: held only if held on all paths
					}
				}
			}
			if st == 0 {
				continue
			}
			if in[b] != st {
				in[b] = st
				changed = true
			}
			cur := st
			for _, ins := range b.Instrs {
				held[ins] = cur == 1
				if _, isDefer := ins.(*ssa.Defer); isDefer {
					continue // a deferred Unlock releases at function exit
				}
				if _, isGo := ins.(*ssa.Go); isGo {
					continue
				}
				if isLockCall(ins, spec, "Lock") || (!exclusive && isLockCall(ins, spec, "RLock")) {
					cur = 1
				} else if isLockCall(ins, spec, "Unlock") || (!exclusive && isLockCall(ins, spec, "RUnlock")) {
					cur = 2
				}
			}
			if out[b] != cur {
				out[b] = cur
				changed = true
			}
		}
	}
}

func guardedAccess(in ssa.Instruction, spec guardSpec) (string, bool, bool) {
	fa, ok := in.(*ssa.FieldAddr)
	if !ok {
		return "", false, false
	}
	fr, okf := fieldRefOfAddr(fa)
	if !okf || fr.Pkg != spec.pkg {
		return "", false, false
	}
	fs := spec.fields[fr.Type]
	if fs == nil || !(fs["*"] || fs[fr.Field] || fs[fr.Field+"*"]) {
		return "", false, false
	}
	r, w, esc := addrUses(fa, map[ssa.Value]bool{})
	if fs[fr.Field+"*"] {
		// pointer-valued field: the guarded cell is what it points to; a store through the loaded pointer is a write
		w = false
		for _, ref := range *fa.Referrers() {
			if u, isLoad := ref.(*ssa.UnOp); isLoad && u.Op == token.MUL {
				for _, r2 := range *u.Referrers() {
					if st, isSt := r2.(*ssa.Store); isSt && st.Addr == u {
						w = true
					}
				}
			}
		}
	}
	_ = esc
	// accesses through a freshly allocated object (constructor) or a private copy are exempt
	if isPrivateBase(fa.X) {
		return "", false, false
	}
	return fr.Type + "." + fr.Field, r, w
}

// isPrivateBase: the struct pointer is an allocation of this function or the result of a copy() call.
func isPrivateBase(v ssa.Value) bool {
	switch x := v.(type) {
	case *ssa.Alloc:
		return true
	case *ssa.Call:
		if cal := calleeOf(&x.Call); cal != nil && (canonName(cal) == "copy" || canonName(cal) == "newExecution") {
			return true
		}
	case *ssa.FieldAddr:
		return isPrivateBase(x.X)
	case *ssa.IndexAddr:
		return isPrivateBase(x.X)
	case *ssa.MakeSlice:
		return true
	case *ssa.UnOp:
		// load of a boxed local: private if everything stored into the box is
		if al, ok := x.X.(*ssa.Alloc); ok && x.Op == token.MUL {
			n := 0
			for _, ref := range *al.Referrers() {
				if st, isSt := ref.(*ssa.Store); isSt && st.Addr == al {
					n++
					if !isPrivateBase(st.Val) {
						return false
					}
				}
			}
			return n > 0
		}
	case *ssa.Phi:
		for _, e := range x.Edges {
			if !isPrivateBase(e) {
				return false
			}
		}
		return true
	}
	return false
}

// lockDiscipline runs guarded-by and unlock for the locks of one package.
func lockDiscipline(c *Ctx, pkg string) {
	for _, spec := range guardSpecs() {
		if spec.pkg != pkg {
			continue
		}
		checkGuarded(c, spec)
	}
	checkUnlock(c, pkg)
}

// invokeOn: the interface call's static receiver type is one of the named interfaces of pkg.
func invokeOn(cc *ssa.CallCommon, pkg string, ifaces []string) bool {
	t := cc.Value.Type()
	n, ok := t.(*types.Named)
	if !ok || n.Obj().Pkg() == nil || n.Obj().Pkg().Name() != pkg {
		return false
	}
	for _, i := range ifaces {
		if typeCanonName(n.Obj()) == i {
			return true
		}
	}
	return false
}

func implementersMethods(c *Ctx, pkg string, ifaces []string) map[string][]*ssa.Function {
	out := map[string][]*ssa.Function{}
	for _, in := range ifaces {
		it := c.P.NamedType(pkg, in)
		if it == nil {
			continue
		}
		for _, impl := range c.P.Implementers(it) {
			for _, m := range ifaceMethods(it) {
				if f := c.P.MethodOf(impl, m); f != nil {
					out[m] = append(out[m], f)
				}
			}
		}
	}
	return out
}

func checkGuarded(c *Ctx, spec guardSpec) {
	c.Rule("guarded")
	// held: some lock mode is held (enough for reads); heldX: the exclusive mode is held (required for writes). For a
	// plain sync.Mutex the two coincide.
	held := map[ssa.Instruction]bool{}
	heldX := map[ssa.Instruction]bool{}
	var fns []*ssa.Function
	for _, fn := range c.P.Funcs {
		fns = append(fns, fn)
		computeHeld(fn, spec, held)
		computeHeldMode(fn, spec, heldX, true)
	}
	dispatch := implementersMethods(c, spec.pkg, spec.ifaces)
	needs := map[*ssa.Function]string{}
	needsW := map[*ssa.Function]bool{} // the need includes a write: only the exclusive mode satisfies it
	// via[fn]: when every unprotected access of fn goes through objects it received as parameters, the indices of
	// those parameters (a caller that passes its own private, not yet shared object does not need the lock);
	// absent = the need is unconditional
	via := map[*ssa.Function]map[int]bool{}
	paramIndex := func(fn *ssa.Function, v ssa.Value) int {
		for i, p := range fn.Params {
			if v == p {
				return i
			}
		}
		return -1
	}
	// addNeed merges a need into fn; idx<0 = unconditional. Reports whether anything changed.
	addNeed := func(fn *ssa.Function, reason string, idx int) bool {
		_, had := needs[fn]
		if !had {
			needs[fn] = reason
			if idx >= 0 {
				via[fn] = map[int]bool{idx: true}
			}
			return true
		}
		v, cond := via[fn]
		if !cond {
			return false
		}
		if idx < 0 {
			delete(via, fn)
			needs[fn] = reason
			return true
		}
		if !v[idx] {
			v[idx] = true
			return true
		}
		return false
	}
	nAccess := 0
	// direct accesses
	for _, fn := range fns {
		for _, b := range fn.Blocks {
			for _, in := range b.Instrs {
				what, r, w := guardedAccess(in, spec)
				if what == "" || (!r && !w) {
					continue
				}
				if spec.writesOnly && !w {
					continue
				}
				nAccess++
				if (w && !heldX[in]) || !held[in] {
					kind := "reads"
					if w {
						kind = "writes"
					}
					how := "without holding"
					if held[in] {
						how = "holding only the read lock of"
					}
					addNeed(fn, fmt.Sprintf("%s %s at %s %s %s", kind, what, c.P.Pos(in.Pos()), how, spec.lock), paramIndex(fn, in.(*ssa.FieldAddr).X))
					if w {
						needsW[fn] = true
					}
				}
			}
		}
	}
	// propagate through calls made without the lock
	calleesOf := func(in ssa.Instruction) []*ssa.Function {
		cc, ok := in.(ssa.CallInstruction)
		if !ok {
			return nil
		}
		if _, isGo := in.(*ssa.Go); isGo {
			return nil
		}
		if cc.Common().IsInvoke() {
			if !invokeOn(cc.Common(), spec.pkg, spec.ifaces) {
				return nil
			}
			return dispatch[cc.Common().Method.Name()]
		}
		if cal := calleeOf(cc.Common()); cal != nil {
			return []*ssa.Function{cal}
		}
		return nil
	}
	for changed := true; changed; {
		changed = false
		for _, fn := range fns {
			if _, n := needs[fn]; n {
				if _, cond := via[fn]; !cond && needsW[fn] {
					continue
				}
			}
			for _, b := range fn.Blocks {
				for _, in := range b.Instrs {
					if heldX[in] {
						continue
					}
					for _, cal := range calleesOf(in) {
						r, n := needs[cal]
						if !n || !c.P.InScope[cal] {
							continue
						}
						if held[in] && !needsW[cal] {
							continue // a read lock is enough for a callee that only reads
						}
						if needsW[cal] && !needsW[fn] {
							needsW[fn] = true
							changed = true
						}
						reason := fmt.Sprintf("calls %s at %s without holding %s (which %s)", c.fn(cal), c.P.Pos(in.Pos()), spec.lock, r)
						cv, cond := via[cal]
						if !cond {
							if addNeed(fn, reason, -1) {
								changed = true
							}
							continue
						}
						cc := in.(ssa.CallInstruction).Common()
						args := cc.Args
						if cc.IsInvoke() {
							args = append([]ssa.Value{cc.Value}, cc.Args...)
						}
						for i := range cv {
							if i >= len(args) {
								if addNeed(fn, reason, -1) {
									changed = true
								}
								continue
							}
							if isPrivateBase(args[i]) {
								continue // the object is the caller's own, not shared yet
							}
							if addNeed(fn, reason, paramIndex(fn, args[i])) {
								changed = true
							}
						}
					}
				}
			}
		}
	}
	// anonymous functions inherit nothing: a closure needing the lock must be called with it held (treated as functions)
	// roots: functions that need the lock but have no caller in scope holding it
	callers := map[*ssa.Function][]*ssa.Function{}
	for _, fn := range fns {
		for _, b := range fn.Blocks {
			for _, in := range b.Instrs {
				for _, cal := range calleesOf(in) {
					callers[cal] = append(callers[cal], fn)
				}
			}
		}
	}
	c.Count("guarded accesses ("+spec.lock.String()+")", nAccess)
	bad := 0
	var names []string
	for fn := range needs {
		names = append(names, c.fn(fn))
	}
	sort.Strings(names)
	for _, name := range names {
		fn := c.P.Func(name)
		if fn == nil {
			continue
		}
		// a function that needs the lock is fine if it is unexported/internal and every in-scope call site holds it
		// (that is what the propagation established); it is a violation if it is reachable from outside:
		exported := fn.Object() != nil && fn.Object().Exported() && fn.Parent() == nil
		isSlot := false
		if fn.Signature.Recv() != nil {
			for _, s := range executorSlots {
				if fn.Name() == s {
					isSlot = true
				}
			}
			if fn.Name() == "ToExecutor" {
				isSlot = true
			}
		}
		// methods of unexported types are still API when the type implements an exported interface: treat every
		// exported method name as a root
		if !(exported || isSlot) {
			continue
		}
		// methods of the guarded objects themselves (states, stats) are internal even if capitalised? none are.
		if rn := namedOfPtr(recvType(fn)); rn != nil {
			if fs := spec.fields[typeCanonName(rn.Obj())]; fs != nil && fs["*"] {
				continue // method of a guarded object: runs under its owner's lock (callers checked)
			}
		}
		if reason, ok := spec.exempt[name]; ok {
			c.Ok(name+"#"+spec.lock.Field, c.P.FuncPos(fn), "needs "+spec.lock.String()+" (listed exception: "+reason+")")
			continue
		}
		bad++
		c.Fail(name, c.P.FuncPos(fn), "an entry point "+needs[fn]+": state guarded by "+spec.lock.String()+" is touched without the lock", "")
	}
	if nAccess == 0 {
		c.Unresolved(spec.lock.String(), "no guarded accesses found (anchor table out of date)")
		return
	}
	if bad == 0 {
		c.Ok(spec.lock.String(), "", fmt.Sprintf("%d accesses to state guarded by %s: every one is under the lock or in a helper whose callers all hold it; no entry point needs the lock", nAccess, spec.lock))
	}
}

// checkUnlock: Lock is followed by `defer Unlock`, or by a plain Unlock on every path with no call between.
func checkUnlock(c *Ctx, pkg string) {
	c.Rule("unlock")
	n := 0
	for _, fn := range c.P.Funcs {
		if fn.Pkg == nil || fn.Pkg.Pkg.Name() != pkg {
			if !(pkg == "failsafe" && fn.Pkg != nil && fn.Pkg.Pkg.Name() == "failsafe") {
				continue
			}
		}
		for _, b := range fn.Blocks {
			for i, in := range b.Instrs {
				cc, ok := in.(ssa.CallInstruction)
				if !ok {
					continue
				}
				if _, isDefer := in.(*ssa.Defer); isDefer {
					continue
				}
				cal := calleeOf(cc.Common())
				if cal == nil || (cal.Name() != "Lock" && cal.Name() != "RLock") || !strings.HasPrefix(qualName(cal), "(*sync.") {
					continue
				}
				n++
				mtx := cc.Common().Args[0]
				unlockName := "Unlock"
				if cal.Name() == "RLock" {
					unlockName = "RUnlock"
				}
				// next instruction a deferred unlock of the same mutex?
				deferred := false
				for _, nx := range b.Instrs[i+1:] {
					if d, isD := nx.(*ssa.Defer); isD {
						if dc := calleeOf(&d.Call); dc != nil && dc.Name() == unlockName && len(d.Call.Args) == 1 && sameAddr(d.Call.Args[0], mtx) {
							deferred = true
						}
						break
					}
					if _, isDbg := nx.(*ssa.DebugRef); isDbg {
						continue
					}
					break
				}
				if deferred {
					c.Ok(c.fn(fn)+"#lock@"+c.P.Pos(in.Pos()), c.P.Pos(in.Pos()), "Lock; defer Unlock")
					continue
				}
				// plain unlock: straight-line until Unlock, with nothing in between that can call out of the library, block or
				// start something (quiet calls only: accessors of the library's own objects, the clock)
				okPlain := false
				for _, nx := range b.Instrs[i+1:] {
					if c2, isC := nx.(ssa.CallInstruction); isC {
						if dc := calleeOf(c2.Common()); dc != nil && dc.Name() == unlockName && sameAddr(c2.Common().Args[0], mtx) {
							okPlain = true
							break
						}
						if _, isGo := nx.(*ssa.Go); !isGo && c.quietCall(c2.Common(), 0) {
							continue
						}
						break
					}
					if _, isIf := nx.(*ssa.If); isIf {
						break
					}
					if _, isRet := nx.(*ssa.Return); isRet {
						break
					}
				}
				if okPlain {
					c.Ok(c.fn(fn)+"#lock@"+c.P.Pos(in.Pos()), c.P.Pos(in.Pos()), "Lock … Unlock with no call or branch in between")
				} else {
					c.Fail(c.fn(fn)+"#lock", c.P.Pos(in.Pos()), "a mutex is locked without a deferred unlock and code that may call out or branch runs before the Unlock: a panicking callback or an early return would leave it locked", "")
				}
			}
		}
	}
	c.Count("Lock sites in "+pkg, n)
}

// ifaceTargets: the concrete in-scope methods a call of iface.name can reach; a method an implementer merely promotes
// from an embedded interface is followed to that interface's implementers. nil when some target is unknown.
func (c *Ctx) ifaceTargets(iface *types.Named, name string, depth int) []*ssa.Function {
	if depth > 3 {
		return nil
	}
	var out []*ssa.Function
	for _, im := range c.P.Implementers(iface) {
		ms := types.NewMethodSet(types.NewPointer(im))
		var sel *types.Selection
		for i := 0; i < ms.Len(); i++ {
			if ms.At(i).Obj().Name() == name {
				sel = ms.At(i)
			}
		}
		if sel == nil {
			return nil
		}
		f, isF := sel.Obj().(*types.Func)
		if !isF {
			return nil
		}
		if recv := f.Type().(*types.Signature).Recv(); recv != nil {
			if rn, isN := recv.Type().(*types.Named); isN {
				if _, isI := rn.Underlying().(*types.Interface); isI {
					if rn.Origin().Obj() == iface.Obj() {
						continue // promotes the very interface being resolved: its other implementers are the targets
					}
					sub := c.ifaceTargets(rn.Origin(), name, depth+1)
					if len(sub) == 0 {
						return nil
					}
					out = append(out, sub...)
					continue
				}
			}
		}
		g := c.P.Prog.FuncValue(f.Origin())
		if g == nil {
			return nil
		}
		out = append(out, origin(g))
	}
	return out
}

// quietCall: the call stays inside the library and cannot run user code, block, lock or spawn: a static or
// interface call all of whose possible targets are in-scope functions with only quiet calls, no channel operation,
// no go statement; calls into time, math, sync/atomic, errors and the builtins are quiet.
func (c *Ctx) quietCall(cc *ssa.CallCommon, depth int) bool {
	if depth > 4 {
		return false
	}
	if _, isB := cc.Value.(*ssa.Builtin); isB {
		return true
	}
	var targets []*ssa.Function
	if cc.IsInvoke() {
		n, isN := cc.Value.Type().(*types.Named)
		if !isN {
			return false
		}
		targets = c.ifaceTargets(n.Origin(), cc.Method.Name(), 0)
		if len(targets) == 0 {
			return false
		}
	} else if cal := calleeOf(cc); cal != nil {
		targets = []*ssa.Function{cal}
	} else {
		return false // a function value: possibly user code
	}
	for _, t := range targets {
		if !c.P.InScope[t] {
			pk := ""
			if t.Pkg != nil {
				pk = t.Pkg.Pkg.Path()
			}
			switch pk {
			case "time", "math", "sync/atomic", "errors":
				if t.Name() == "Sleep" || t.Name() == "AfterFunc" || t.Name() == "NewTimer" {
					return false
				}
				continue
			}
			return false
		}
		if c.quiet == nil {
			c.quiet = map[*ssa.Function]int{}
		}
		switch c.quiet[t] {
		case 1:
			continue
		case 2:
			return false
		}
		c.quiet[t] = 1 // assume quiet while looking (recursion)
		ok := true
		for _, b := range t.Blocks {
			for _, in := range b.Instrs {
				switch x := in.(type) {
				case *ssa.Go, *ssa.Select, *ssa.Send:
					ok = false
				case *ssa.UnOp:
					if x.Op == token.ARROW {
						ok = false
					}
				case ssa.CallInstruction:
					if cal := calleeOf(x.Common()); cal != nil && strings.HasPrefix(qualName(cal), "(*sync.") {
						ok = false // takes a lock itself
					} else if !c.quietCall(x.Common(), depth+1) {
						ok = false
					}
				}
			}
		}
		if !ok {
			c.quiet[t] = 2
			return false
		}
	}
	return true
}

func sameAddr(a, b ssa.Value) bool {
	if a == b {
		return true
	}
	ua, oka := a.(*ssa.UnOp)
	ub, okb := b.(*ssa.UnOp)
	if oka && okb {
		return sameAddr(ua.X, ub.X)
	}
	fa, oka2 := a.(*ssa.FieldAddr)
	fb, okb2 := b.(*ssa.FieldAddr)
	if oka2 && okb2 {
		return fa.Field == fb.Field && (fa.X == fb.X || sameAddr(fa.X, fb.X))
	}
	return false
}

// ---- C14 ------------------------------------------------------------------------------------------------

func rulesC14(c *Ctx) {
	for _, pkg := range []string{"circuitbreaker", "ratelimiter", "failsafe"} {
		lockDiscipline(c, pkg)
	}
	c14LockInventory(c)
	c14Order(c)
	c14SpawnShared(c)
	c14Globals(c)
	c14Confinement(c)
	c14Escape(c)
	c14LiveReads(c)
	c03MetricsViews(c)
	c01WithContext(c)
	// deadlock freedom of the lock-free parts: every blocking channel operation of the library is on the reviewed
	// inventory (a Try* that blocks, a send outside a select, a wait without a way out are not), and the bulkhead's
	// semaphore is touched only by the acquire / release protocol
	c08Blocking(c)
	c06ChannelOwner(c)
	c06Acquire(c)
	c06Pairing(c)
	c.Rule("user-function")
	c01Leaf(c)
	c.Rule("fresh-executors")
	c01Self(c)
	execStateMethods(c, nil)
	asyncResultRules(c)
	// the async runner: the result is published (and waiters released) as the goroutine's last action, after the
	// completion listeners ran — closing the done channel is the only ordering between the runner and the waiters
	executeAsyncRule(c)
	c07Race(c)
	c09Loop(c)
	// no user listener under a policy's lock; half-open admission by the execution that half-opens the breaker
	c16Overrides(c)
	c03OpenTable(c)
	// a policy result is never written after it was handed on (the stored cancel result is shared by every copy of an
	// execution and returned by pointer to concurrent attempts): WithDone / WithFailure work on a fresh copy
	c01Verdict(c)
	c14Observers(c)
	// "hedge attempts do not race with each other": concurrent HTTP attempts each read the request body through a
	// reader of their own
	c18BodyReader(c)
	configImmutableAll(c)
	buildCopiesConfig(c)
	witnessRules(c, "C14")
}

// c14Globals: package-level variables are shared by every execution of every policy instance. Each one must be
// written only by its package's initialiser and, afterwards, used only in ways that are safe from any number of
// goroutines: read, compared, passed on as an immutable value (error sentinels, reflect.Type), looked up (maps),
// received from (channels), or used through a type of package sync / sync/atomic. A package-level object of any
// other type whose methods are called while executions run (a *rand.Rand, a bytes.Buffer, a cache…) is shared
// mutable state without a lock.
func c14Globals(c *Ctx) {
	c.Rule("globals")
	inScope := func(g *ssa.Global) bool {
		if g.Pkg == nil || !strings.HasPrefix(g.Pkg.Pkg.Path(), modPath) {
			return false
		}
		for _, rel := range scopePkgs {
			if g.Pkg.Pkg.Path() == c.P.pkgPath(rel) {
				return true
			}
		}
		return false
	}
	safeRecv := func(t types.Type, method string) bool {
		if p, ok := t.(*types.Pointer); ok {
			t = p.Elem()
		}
		n, ok := t.(*types.Named)
		if !ok || n.Obj().Pkg() == nil {
			return false
		}
		switch n.Obj().Pkg().Path() {
		case "sync", "sync/atomic":
			return true
		}
		// reviewed: documented as safe for concurrent use by multiple goroutines
		switch n.Obj().Pkg().Path() + "." + n.Obj().Name() {
		case "regexp.Regexp": // "safe for concurrent use by multiple goroutines, except for configuration methods, such as Longest"
			return method != "Longest"
		case "net/http.Client", "net/http.Transport": // "Clients and Transports are safe for concurrent use by multiple goroutines"
			return true
		}
		return false
	}
	immutableIface := func(t types.Type) bool {
		s := types.TypeString(t, nil)
		return s == "error" || s == "reflect.Type"
	}
	seen := map[*ssa.Global]bool{}
	ok := true
	fail := func(g *ssa.Global, in ssa.Instruction, msg string) {
		ok = false
		c.Fail(g.Pkg.Pkg.Name()+"."+g.Name(), c.P.Pos(in.Pos()), "package-level variable "+g.Name()+" "+msg, "")
	}
	for _, fn := range c.P.Funcs {
		isInit := (fn.Name() == "init" || strings.HasPrefix(fn.Name(), "init#")) && fn.Parent() == nil && fn.Signature.Recv() == nil
		for _, b := range fn.Blocks {
			for _, in := range b.Instrs {
				for _, op := range in.Operands(nil) {
					g, isG := (*op).(*ssa.Global)
					if !isG || !inScope(g) {
						continue
					}
					seen[g] = true
					if isInit {
						continue
					}
					elem := g.Type().(*types.Pointer).Elem()
					switch x := in.(type) {
					case *ssa.Store:
						if x.Addr == g {
							fail(g, in, "is assigned outside its package's initialiser by "+c.fn(fn)+": concurrent executions share it")
						}
						continue
					case *ssa.UnOp:
						if x.Op != token.MUL {
							continue
						}
						// uses of the loaded value
						for _, use := range *x.Referrers() {
							switch u := use.(type) {
							case *ssa.MapUpdate:
								if u.Map == x {
									fail(g, use, "is a map that "+c.fn(fn)+" updates at run time without a lock")
								}
							case *ssa.FieldAddr, *ssa.IndexAddr:
								if _, w, _ := addrUses(u.(ssa.Value), map[ssa.Value]bool{}); w {
									fail(g, use, "is modified in place by "+c.fn(fn)+" at run time without a lock")
								}
							case ssa.CallInstruction:
								cc := u.Common()
								if cc.IsInvoke() && cc.Value == x {
									if !immutableIface(elem) {
										fail(g, use, fmt.Sprintf("(type %s) has a method called on it by %s while executions run; only error sentinels, reflect.Type and sync / sync/atomic objects may be shared this way", types.TypeString(elem, nil), c.fn(fn)))
									}
									continue
								}
								if cal := calleeOf(cc); cal != nil && cal.Signature.Recv() != nil && len(cc.Args) > 0 && cc.Args[0] == x {
									if !safeRecv(cal.Signature.Recv().Type(), cal.Name()) && !immutableIface(elem) && !onceGuardedMethod(c.P, cal, safeRecv, map[*ssa.Function]bool{}) {
										fail(g, use, fmt.Sprintf("(type %s) has method %s called on it by %s while executions run: the object is shared by all concurrent executions and is not a sync / sync/atomic type", types.TypeString(elem, nil), cal.Name(), c.fn(fn)))
									}
								}
							}
						}
						continue
					case ssa.CallInstruction:
						// &global used directly as a receiver (var mu sync.Mutex; mu.Lock())
						cc := x.Common()
						if cal := calleeOf(cc); cal != nil && cal.Signature.Recv() != nil && len(cc.Args) > 0 && cc.Args[0] == g {
							if !safeRecv(cal.Signature.Recv().Type(), cal.Name()) {
								fail(g, in, fmt.Sprintf("(type %s) has method %s called on it by %s while executions run: the object is shared by all concurrent executions and is not a sync / sync/atomic type", types.TypeString(elem, nil), cal.Name(), c.fn(fn)))
							}
						}
					case *ssa.FieldAddr, *ssa.IndexAddr:
						if _, w, _ := addrUses(x.(ssa.Value), map[ssa.Value]bool{}); w {
							fail(g, in, "is modified in place by "+c.fn(fn)+" at run time without a lock")
						}
					}
				}
			}
		}
	}
	c.Floor("package-level variables examined", len(seen), 8)
	if ok {
		c.Ok("library#globals", "", fmt.Sprintf("%d package-level variables: assigned only by initialisers; at run time only read, compared, looked up, or used through sync types", len(seen)))
	}
}

func configImmutableAll(c *Ctx) {
	c.Rule("immutable-config")
	for _, pkg := range executorPkgs {
		configImmutable(c, pkg)
	}
	registrarCallers(c)
}

// registrarCallers: the condition registrars of the shared policy bases (Handle*, AbortOn*, AbortIf) append to slices
// that every execution through the policy reads without a lock. They may be called while a policy is being configured
// (builder methods, Build, constructors) and never from what an execution runs (ToExecutor, the executor slots): a
// "lazy default" installed on first use is a write that races with the executions already reading.
func registrarCallers(c *Ctx) {
	regs := map[string]bool{"HandleErrors": true, "HandleErrorTypes": true, "HandleResult": true, "HandleIf": true,
		"AbortOnErrors": true, "AbortOnErrorTypes": true, "AbortOnResult": true, "AbortIf": true}
	ix := BuildIndex(c.P)
	n, ok := 0, true
	for _, fn := range c.P.Funcs {
		if fn.Pkg == nil || fn.Pkg.Pkg.Name() != "policy" || fn.Signature.Recv() == nil || !regs[canonName(fn)] {
			continue
		}
		for _, caller := range ix.Callers[fn] {
			n++
			if !ix.Within(caller, func(top *ssa.Function) bool {
				return (isBuilderMethod(top) || isConstructorLike(top)) && canonName(top) != "ToExecutor"
			}) {
				ok = false
				c.Fail(c.fn(caller)+"→"+canonName(fn), c.P.FuncPos(caller), fmt.Sprintf("%s registers a condition on the shared policy from code an execution runs (%s): the condition lists are read without a lock by every execution through the policy", c.fn(caller), canonName(fn)), "")
			}
		}
	}
	if ok {
		c.Ok("policy#registrar-callers", "", fmt.Sprintf("%d call sites of the condition registrars, all in builder methods, Build or constructors", n))
	}
}

// c14LockInventory: every sync.Mutex / RWMutex in the library is one of the analysed locks.
func c14LockInventory(c *Ctx) {
	c.Rule("lock-inventory")
	known := map[string]bool{}
	for _, s := range guardSpecs() {
		known[s.lock.String()] = true
	}
	n := 0
	for _, rel := range scopePkgs {
		pk := c.P.ByPath[c.P.pkgPath(rel)]
		sc := pk.Types.Scope()
		for _, name := range sc.Names() {
			tn, ok := sc.Lookup(name).(*types.TypeName)
			if !ok {
				continue
			}
			st, ok := tn.Type().Underlying().(*types.Struct)
			if !ok {
				continue
			}
			for i := 0; i < st.NumFields(); i++ {
				ft := st.Field(i).Type()
				if p, isP := ft.(*types.Pointer); isP {
					ft = p.Elem()
				}
				s := types.TypeString(ft, nil)
				if s == "sync.Locker" {
					s = "sync.Mutex" // a mutex kept behind the Locker interface is still that struct's lock
				}
				if s != "sync.Mutex" && s != "sync.RWMutex" {
					continue
				}
				n++
				id := lockID{pk.Types.Name(), typeCanonName(tn), canonicalField(pk.Types.Name() + "." + typeCanonName(tn) + "." + st.Field(i).Name())}.String()
				// a reader/writer mutex: the guarded-access rule requires the exclusive mode for every write and for every
				// callee that writes, the shared mode suffices for reads
				if !known[id] {
					c.Fail(id, "", "a mutex that is not in the analysed lock table (its guarded fields are unknown to the checker)", "")
				} else {
					c.Ok(id, "", "analysed lock")
				}
			}
		}
	}
	c.Floor("mutexes in the library", n, 4)
}

// c14Order: lock-order graph over the analysed locks.
func c14Order(c *Ctx) {
	c.Rule("order")
	specs := guardSpecs()
	heldBy := make([]map[ssa.Instruction]bool, len(specs))
	for i, s := range specs {
		heldBy[i] = map[ssa.Instruction]bool{}
		for _, fn := range c.P.Funcs {
			computeHeld(fn, s, heldBy[i])
		}
	}
	// acquires(f): locks f may take, transitively
	acq := map[*ssa.Function]map[int]bool{}
	for _, fn := range c.P.Funcs {
		acq[fn] = map[int]bool{}
		for _, b := range fn.Blocks {
			for _, in := range b.Instrs {
				for i, s := range specs {
					if isLockCall(in, s, "Lock") || isLockCall(in, s, "RLock") {
						acq[fn][i] = true
					}
				}
			}
		}
	}
	allImpl := map[string][]*ssa.Function{}
	for _, s := range specs {
		for m, fs := range implementersMethods(c, s.pkg, s.ifaces) {
			allImpl[m] = append(allImpl[m], fs...)
		}
	}
	if it := c.P.NamedType("policy", "ExecutionInternal"); it != nil {
		for _, impl := range c.P.Implementers(it) {
			for _, m := range ifaceMethods(it) {
				if f := c.P.MethodOf(impl, m); f != nil {
					allImpl[m] = append(allImpl[m], f)
				}
			}
		}
	}
	calleesOf := func(in ssa.Instruction) []*ssa.Function {
		cc, ok := in.(ssa.CallInstruction)
		if !ok {
			return nil
		}
		if _, isGo := in.(*ssa.Go); isGo {
			return nil
		}
		if cc.Common().IsInvoke() {
			ok := invokeOn(cc.Common(), "policy", []string{"ExecutionInternal"}) || invokeOn(cc.Common(), "failsafe", []string{"Execution", "ExecutionAttempt"})
			for _, s := range specs {
				if invokeOn(cc.Common(), s.pkg, s.ifaces) {
					ok = true
				}
			}
			if !ok {
				return nil
			}
			return allImpl[cc.Common().Method.Name()]
		}
		if cal := calleeOf(cc.Common()); cal != nil {
			return []*ssa.Function{cal}
		}
		return nil
	}
	for changed := true; changed; {
		changed = false
		for _, fn := range c.P.Funcs {
			for _, b := range fn.Blocks {
				for _, in := range b.Instrs {
					for _, cal := range calleesOf(in) {
						for l := range acq[cal] {
							if !acq[fn][l] {
								acq[fn][l] = true
								changed = true
							}
						}
					}
				}
			}
		}
	}
	edges := map[[2]int]string{}
	for _, fn := range c.P.Funcs {
		for _, b := range fn.Blocks {
			for _, in := range b.Instrs {
				for i := range specs {
					if !heldBy[i][in] {
						continue
					}
					for j, s := range specs {
						if isLockCall(in, s, "Lock") || isLockCall(in, s, "RLock") {
							edges[[2]int{i, j}] = fmt.Sprintf("%s at %s", c.fn(fn), c.P.Pos(in.Pos()))
						}
					}
					for _, cal := range calleesOf(in) {
						for j := range acq[cal] {
							if _, ok := edges[[2]int{i, j}]; !ok {
								edges[[2]int{i, j}] = fmt.Sprintf("%s at %s calls %s", c.fn(fn), c.P.Pos(in.Pos()), c.fn(cal))
							}
						}
					}
				}
			}
		}
	}
	ok := true
	var es []string
	for e, where := range edges {
		es = append(es, fmt.Sprintf("%s → %s (%s)", specs[e[0]].lock, specs[e[1]].lock, where))
		if e[0] == e[1] {
			ok = false
			c.Fail("self:"+specs[e[0]].lock.String(), "", "a function may acquire "+specs[e[0]].lock.String()+" while already holding it (sync.Mutex is not re-entrant): "+where, "")
		}
		if _, back := edges[[2]int{e[1], e[0]}]; back && e[0] < e[1] {
			ok = false
			c.Fail("cycle:"+specs[e[0]].lock.String()+"↔"+specs[e[1]].lock.String(), "", "lock-order cycle: "+where+" and "+edges[[2]int{e[1], e[0]}], "")
		}
	}
	sort.Strings(es)
	if ok {
		c.Ok("lock-order", "", fmt.Sprintf("%d edges, acyclic, no re-entrant acquisition: %s", len(es), strings.Join(es, "; ")))
	}
}

// c14SpawnShared: captured variables written after a spawn (or inside a spawned function) must be atomics / channels.
func c14SpawnShared(c *Ctx) {
	c.Rule("spawn-shared")
	n := 0
	ok := true
	isSyncType := func(t types.Type) bool {
		if p, isP := t.(*types.Pointer); isP {
			t = p.Elem()
		}
		s := types.TypeString(t, nil)
		if strings.HasPrefix(s, "sync/atomic.") || strings.HasPrefix(s, "sync.") || strings.HasPrefix(s, "chan ") {
			return true
		}
		_, isChan := t.Underlying().(*types.Chan)
		return isChan
	}
	for _, fn := range c.P.Funcs {
		for _, b := range fn.Blocks {
			for _, in := range b.Instrs {
				var cl *ssa.MakeClosure
				switch x := in.(type) {
				case *ssa.Go:
					cl, _ = x.Call.Value.(*ssa.MakeClosure)
				case *ssa.Call:
					if cb := c.P.afterFuncArg(&x.Call); cb != nil {
						cl, _ = cb.(*ssa.MakeClosure)
					}
				}
				if cl != nil && c.P.TargetOf(cl.Fn.(*ssa.Function)) != origin(cl.Fn.(*ssa.Function)) {
					cl = nil // bound method value: handled below with go x.m(...)
				}
				if cl == nil {
					// go x.m(...) / go f(...) / AfterFunc(d, x.m): what is shared are the structs the spawner built and
					// handed over by pointer; their plain fields must not be written by either side afterwards
					var target *ssa.Function
					var handed []ssa.Value
					switch x := in.(type) {
					case *ssa.Go:
						if f, isF := x.Call.Value.(*ssa.Function); isF {
							target, handed = origin(f), x.Call.Args
						}
					case *ssa.Call:
						if cb := c.P.afterFuncArg(&x.Call); cb != nil {
							if mc, isMC := cb.(*ssa.MakeClosure); isMC {
								cl = mc
							}
						}
					}
					if cl != nil {
						target, handed = c.P.TargetOf(cl.Fn.(*ssa.Function)), cl.Bindings
					}
					if target == nil || !c.P.InScope[target] {
						continue
					}
					n++
					for i, a := range handed {
						al, isAlloc := a.(*ssa.Alloc)
						if !isAlloc || i >= len(target.Params) {
							continue
						}
						var where ssa.Instruction
						var fname string
						check := func(base ssa.Value, after ssa.Instruction) {
							for _, ref := range *base.Referrers() {
								fa, isFA := ref.(*ssa.FieldAddr)
								if !isFA || fa.X != base {
									continue
								}
								ft := fa.Type().(*types.Pointer).Elem()
								if isSyncType(ft) {
									continue
								}
								for _, r2 := range *fa.Referrers() {
									if st, isSt := r2.(*ssa.Store); isSt && st.Addr == fa && (after == nil || reachableAfter(after, st)) {
										where = st
										if fr, okf := fieldRefOf(fa.X.Type(), fa.Field); okf {
											fname = fr.Field
										}
									}
								}
							}
						}
						check(al, in)
						check(target.Params[i], nil)
						if where != nil {
							ok = false
							c.Fail(c.fn(fn)+"#handed:"+al.Comment+"."+fname, c.P.Pos(where.Pos()), fmt.Sprintf("field %q of the struct handed to the spawned %s is written after the spawn without synchronisation (it is neither an atomic nor a channel)", fname, c.fn(target)), "")
						}
					}
					continue
				}
				n++
				spawned := cl.Fn.(*ssa.Function)
				for i, bnd := range cl.Bindings {
					al, isAlloc := bnd.(*ssa.Alloc)
					if !isAlloc {
						continue
					}
					elem := al.Type().(*types.Pointer).Elem()
					if isSyncType(elem) {
						continue
					}
					// stores into the captured variable inside the spawned function (or its closures)
					fv := spawned.FreeVars[i]
					written := false
					var where ssa.Instruction
					for _, ref := range *fv.Referrers() {
						if st, isSt := ref.(*ssa.Store); isSt && st.Addr == fv {
							written, where = true, st
						}
					}
					// stores in the spawner after the spawn
					for _, ref := range *al.Referrers() {
						st, isSt := ref.(*ssa.Store)
						if !isSt || st.Addr != al {
							continue
						}
						if reachableAfter(in, st) {
							written, where = true, st
						}
					}
					if written {
						ok = false
						c.Fail(c.fn(fn)+"#captured:"+al.Comment, c.P.Pos(where.Pos()), fmt.Sprintf("variable %q is shared with the spawned %s and written without synchronisation (it is neither an atomic nor a channel)", al.Comment, c.fn(spawned)), "")
					}
				}
			}
		}
	}
	c.Floor("spawn sites (go / time.AfterFunc)", n, 4)
	if ok {
		c.Ok("library#spawn-shared", "", fmt.Sprintf("%d spawn sites: every captured variable that is written by the spawned function or by the spawner after the spawn is an atomic or a channel", n))
	}
}

// reachableAfter: instruction b may execute after instruction a (same function).
func reachableAfter(a, b ssa.Instruction) bool {
	if a.Block() == b.Block() {
		ia, ib := -1, -1
		for i, in := range a.Block().Instrs {
			if in == a {
				ia = i
			}
			if in == b {
				ib = i
			}
		}
		if ib > ia {
			return true
		}
	}
	seen := map[*ssa.BasicBlock]bool{}
	var stack []*ssa.BasicBlock
	stack = append(stack, a.Block().Succs...)
	for len(stack) > 0 {
		x := stack[len(stack)-1]
		stack = stack[:len(stack)-1]
		if seen[x] {
			continue
		}
		seen[x] = true
		if x == b.Block() {
			return true
		}
		stack = append(stack, x.Succs...)
	}
	return false
}

// c14Confinement: (outer spawns innerFn) × (inner has unsynchronised per-execution state).
func c14Confinement(c *Ctx) { c14ConfinementOf(c, "") }

// c14ConfinementOf: only == "" reports every (spawning outer, stateful inner) pair; otherwise only the pairs whose
// inner executor is the named one (the clause "for every composition" of that policy's own property).
func c14ConfinementOf(c *Ctx, only string) {
	c.Rule("executor-confinement")
	tab := c.ExecTable()
	ix := BuildIndex(c.P)
	var spawners, stateful []string
	for _, pkg := range sortedKeys(tab) {
		info := tab[pkg]
		ap := info.Slots["Apply"]
		if ap == nil {
			continue
		}
		// does a goroutine / timer callback spawned by Apply's closure call innerFn?
		innerParam := ap.Params[1]
		spawns := false
		var visit func(f *ssa.Function, inSpawn bool)
		seen := map[*ssa.Function]bool{}
		visit = func(f *ssa.Function, inSpawn bool) {
			if seen[f] && !inSpawn {
				return
			}
			seen[f] = true
			for _, b := range f.Blocks {
				for _, in := range b.Instrs {
					switch x := in.(type) {
					case *ssa.Go:
						if cl, ok := x.Call.Value.(*ssa.MakeClosure); ok {
							visit(cl.Fn.(*ssa.Function), true)
						}
					case ssa.CallInstruction:
						if inSpawn && callsFreeVarOf(x.Common().Value, innerParam) {
							spawns = true
						}
					}
				}
			}
			for _, a := range f.AnonFuncs {
				if !seen[a] {
					visit(a, inSpawn)
				}
			}
		}
		visit(ap, false)
		if !spawns {
			// the same question asked of the evaluated closure: does anything it starts with `go` (closure or method)
			// call the inner function it was given, wherever that was stored in between?
			ee := c.NewExecEval(info, EvalConfig{})
			paths, innerFn, _ := ee.RunApply()
			for _, p := range paths {
				for _, g := range eventsWhere(p, func(e *Event) bool { return e.Kind == EvGo && e.Snap != nil }) {
					if ee.Ev.EventFn(g) == nil {
						continue
					}
					for _, q := range ee.Ev.RunEvent(g.Snap, g, nil) {
						for _, e := range q.Events()[q.Base:] {
							if isDynCall(e, innerFn) {
								spawns = true
							}
						}
					}
				}
				if spawns {
					break
				}
			}
		}
		if spawns {
			spawners = append(spawners, pkg)
		}
		// unsynchronised mutable executor fields
		for _, fr := range execStateFields(c.P, pkg, info.Named) {
			ws := ix.Writers(fr)
			for _, w := range ws {
				if !ix.Within(w, func(f *ssa.Function) bool { return f.Name() == "ToExecutor" }) {
					if len(stateful) == 0 || stateful[len(stateful)-1] != pkg {
						stateful = append(stateful, pkg)
					}
				}
			}
		}
	}
	c.Count("executors invoking innerFn from spawned goroutines", len(spawners))
	c.Count("executors with unsynchronised per-execution state", len(stateful))
	if len(spawners) == 0 && len(stateful) == 0 {
		c.Unresolved("executor-confinement", "neither spawning nor stateful executors found (anchors out of date)")
		return
	}
	reported := 0
	for _, o := range spawners {
		for _, i := range stateful {
			if only != "" && i != only {
				continue
			}
			reported++
			c.Fail("("+o+","+i+")", "", fmt.Sprintf("composition %s(%s(fn)): the %s executor runs innerFn from several goroutines of one execution while the inner %s executor keeps unsynchronised per-execution state (its mutable fields are written without a lock): concurrent attempts race on it", o, i, o, i), "")
		}
	}
	if len(spawners)*len(stateful) == 0 {
		c.Ok("executor-confinement", "", "no spawning executor can wrap a stateful one")
	} else if reported == 0 {
		c.Ok("executor-confinement/"+only, "", fmt.Sprintf("the %s executor keeps no unsynchronised per-execution state: an enclosing hedge may run it from several goroutines", only))
	}
}

func callsFreeVarOf(v ssa.Value, param *ssa.Parameter) bool {
	// innerFn captured: a FreeVar (possibly loaded through a box) named like the parameter
	switch x := v.(type) {
	case *ssa.FreeVar:
		return x.Name() == param.Name()
	case *ssa.UnOp:
		if fv, ok := x.X.(*ssa.FreeVar); ok {
			return fv.Name() == param.Name()
		}
	case *ssa.Parameter:
		return x == param
	}
	return false
}

// c14Escape: executions handed to user callbacks are private copies (unless typed ExecutionInfo).
// Every function of the policy packages is evaluated on its own; an execution-typed argument of a user
// callback must be the result of CopyWithResult / copy on that path. If it is a parameter of the function,
// the obligation moves to the function's call sites (forwarder summary, fixpoint); parameters of Apply
// closures and of spawned goroutines are the live execution by definition.
func c14Escape(c *Ctx) {
	c.Rule("escape-to-user")
	isExecType := func(t types.Type) string {
		n, isN := t.(*types.Named)
		if !isN {
			return ""
		}
		switch n.Obj().Name() {
		case "Execution", "ExecutionAttempt", "ExecutionInternal":
			return n.Obj().Name()
		}
		return ""
	}
	tab := c.ExecTable()
	pkgs := map[string]bool{"policy": true, "failsafe": true}
	for _, p := range executorPkgs {
		pkgs[p] = true
	}
	type site struct {
		fn    *ssa.Function
		what  string
		pos   string
		param string // "" = live
	}
	type callArg struct {
		caller *ssa.Function
		callee *ssa.Function
		arg    int
		sub    string // "" or the field of a by-value parameter bundle the execution travels in
		status string // private | live | param:<name>[#field] | field:<key>
		pos    string
	}
	var sites []site
	var callArgs []callArg
	viaParent := func(ca callArg) callArg {
		if strings.HasPrefix(ca.status, "param@parent:") {
			ca.caller, ca.status = ca.caller.Parent(), "param:"+strings.TrimPrefix(ca.status, "param@parent:")
		}
		return ca
	}
	fieldStores := map[string][]callArg{} // helper-object field -> what is stored there
	nCalls, nFuncs := 0, 0
	isApplyClosure := func(fn *ssa.Function) bool {
		return fn.Parent() != nil
	}
	for _, fn := range c.P.Funcs {
		if fn.Pkg == nil || !pkgs[fn.Pkg.Pkg.Name()] {
			continue
		}
		nFuncs++
		ev := NewEvaluator(c.P, EvalConfig{MaxVisits: 2, MaxPaths: 40000})
		ps := ev.Run(fn)
		if ev.Err != nil {
			c.Undecided(c.fn(fn), c.P.FuncPos(fn), "evaluation failed: "+ev.Err.Error(), "")
			continue
		}
		statusOf := func(p *Path, t *T) string {
			for _, x := range p.Events() {
				if x.Kind == EvCall && (x.Method == "CopyWithResult" || x.Method == "copy") && len(x.Res) == 1 && x.Res[0] == t {
					return "private"
				}
			}
			if t.Op == "param" && !isApplyClosure(fn) {
				return "param:" + t.Aux
			}
			// a variable captured from the defining function, itself a parameter there (a closure kept in a local
			// table): the obligation is the defining function's
			fv := t
			if t.Op == "init" && t.Aux == "" && t.Args[0].Op == "free" {
				fv = t.Args[0] // captured by reference: the parameter's spill slot, never stored to by the closure
			}
			if fv.Op == "free" && fn.Parent() != nil && fn.Parent().Parent() == nil && !storesThroughFreeVar(fn.Parent(), fv.Aux) {
				for _, prm := range fn.Parent().Params {
					if prm.Name() == fv.Aux {
						return "param@parent:" + fv.Aux
					}
				}
			}
			if t.Op == "fld" && t.Args[0].Op == "param" && !isApplyClosure(fn) {
				return "param:" + t.Args[0].Aux + "#" + t.Aux // travels in a by-value parameter bundle
			}
			if t.IsNilConst() {
				return "private"
			}
			// carried in a field of a library-internal helper object: as good as what is stored there
			if t.Op == "init" && t.Args[0].Op == "faddr" && isHelperObjectField(c.P, t.Args[0].Aux) {
				return "field:" + t.Args[0].Aux
			}
			return "live"
		}
		seenSite := map[string]bool{}
		for _, p := range ps {
			for k, v := range p.State.cells {
				if k.Op == "faddr" && v != nil && v.Typ != nil && isExecType(v.Typ) != "" && isHelperObjectField(c.P, k.Aux) {
					fieldStores[k.Aux] = append(fieldStores[k.Aux], callArg{caller: fn, status: statusOf(p, v), pos: c.P.FuncPos(fn)})
				}
			}
			for _, e := range p.Events() {
				if e.Kind == EvStore && e.Addr != nil && e.Addr.Op == "faddr" && e.Val != nil && e.Val.Typ != nil && isExecType(e.Val.Typ) != "" && isHelperObjectField(c.P, e.Addr.Aux) {
					fieldStores[e.Addr.Aux] = append(fieldStores[e.Addr.Aux], callArg{caller: fn, status: statusOf(p, e.Val), pos: c.P.Pos(e.Instr.Pos())})
				}
				if e.Kind != EvCall {
					continue
				}
				// (1) user callbacks
				if e.FnTerm != nil {
					f := loadedField(e.FnTerm)
					if f == "" || f == "cancelFunc" {
						continue
					}
					sig, _ := e.FnTerm.Typ.Underlying().(*types.Signature)
					if sig != nil && returnsPolicyResult(sig) {
						continue // a link of the policy chain kept in a field (func(Execution) *PolicyResult), not a user callback
					}
					nCalls++
					for ai, a := range e.Args {
						var declared types.Type
						if sig != nil && ai < sig.Params().Len() {
							declared = sig.Params().At(ai).Type()
						}
						var walk func(t *T, decl types.Type)
						walk = func(t *T, decl types.Type) {
							if t.Op == "struct" {
								if st, isS := t.Typ.Underlying().(*types.Struct); isS && st.NumFields() == len(t.Args) {
									for i, sub := range t.Args {
										walk(sub, st.Field(i).Type())
									}
								}
								return
							}
							if decl == nil || isExecType(decl) == "" {
								return
							}
							st := statusOf(p, t)
							if st == "private" {
								return
							}
							key := f + "|" + st
							if seenSite[key] {
								return
							}
							seenSite[key] = true
							s := site{fn: fn, what: f, pos: c.P.Pos(e.Instr.Pos())}
							if strings.HasPrefix(st, "param:") || strings.HasPrefix(st, "field:") {
								s.param = st
							}
							if strings.HasPrefix(st, "param@parent:") {
								s.fn, s.param = fn.Parent(), "param:"+strings.TrimPrefix(st, "param@parent:")
							}
							sites = append(sites, s)
						}
						walk(a, declared)
					}
					continue
				}
				// (2) calls of in-scope functions: remember what is passed for execution-typed parameters
				var targets []*ssa.Function
				if e.Fn != nil {
					targets = []*ssa.Function{e.Fn}
				} else if e.FnTerm == nil {
					// interface dispatch on an executor slot: every implementer's slot is a possible target
					for _, info := range tab {
						if f := info.Slots[e.Method]; f != nil {
							targets = append(targets, f)
						}
					}
				}
				for _, tf := range targets {
					if !(c.P.InScope[tf] && tf.Pkg != nil && pkgs[tf.Pkg.Pkg.Name()]) {
						continue
					}
					eFn := tf
					params := eFn.Params
					off := 0
					if eFn.Signature.Recv() != nil {
						off = 1
					}
					for ai, a := range e.Args {
						if ai+off >= len(params) {
							continue
						}
						if a.Op == "struct" && a.Typ != nil {
							if sct, isS := a.Typ.Underlying().(*types.Struct); isS && sct.NumFields() == len(a.Args) {
								for fi, sub := range a.Args {
									if isExecType(sct.Field(fi).Type()) != "" {
										k, _ := fieldKey(a.Typ, fi)
										callArgs = append(callArgs, viaParent(callArg{caller: fn, callee: eFn, arg: ai + off, sub: k, status: statusOf(p, sub), pos: c.P.Pos(e.Instr.Pos())}))
									}
								}
							}
							continue
						}
						if isExecType(params[ai+off].Type()) == "" {
							continue
						}
						callArgs = append(callArgs, viaParent(callArg{caller: fn, callee: eFn, arg: ai + off, status: statusOf(p, a), pos: c.P.Pos(e.Instr.Pos())}))
					}
				}
			}
		}
	}
	// resolve forwarders
	ok := true
	type fwd struct {
		fn    *ssa.Function
		param string
		what  string
		depth int
	}
	var work []fwd
	for _, s := range sites {
		if s.param == "" {
			ok = false
			c.Fail(c.fn(s.fn)+"→"+s.what, s.pos, fmt.Sprintf("user callback %s receives a live, lock-protected execution (not a CopyWithResult / copy() result): its LastResult/LastError are rewritten under the execution's lock when a Timeout cancels it, so user code reading them races", s.what), "")
		} else {
			work = append(work, fwd{s.fn, s.param, s.what, 0})
		}
	}
	seenF := map[string]bool{}
	for len(work) > 0 {
		w := work[0]
		work = work[1:]
		k := c.fn(w.fn) + "|" + w.param
		if seenF[k] || w.depth > 6 {
			continue
		}
		seenF[k] = true
		follow := func(ca callArg, via string) {
			switch {
			case ca.status == "private":
			case strings.HasPrefix(ca.status, "param:") || strings.HasPrefix(ca.status, "field:"):
				work = append(work, fwd{ca.caller, ca.status, w.what, w.depth + 1})
			default:
				ok = false
				c.Fail(c.fn(ca.caller)+"→"+w.what, ca.pos, fmt.Sprintf("the live execution is passed to %s, which hands it to user callback %s: user code reading LastResult/LastError races with Cancel", via, w.what), "")
			}
		}
		if strings.HasPrefix(w.param, "field:") {
			key := strings.TrimPrefix(w.param, "field:")
			stores := fieldStores[key]
			if len(stores) == 0 {
				ok = false
				c.Fail(c.fn(w.fn)+"→"+w.what, c.P.FuncPos(w.fn), fmt.Sprintf("user callback %s receives an execution kept in %s, and nothing shows what is stored there", w.what, key), "")
			}
			for _, ca := range stores {
				follow(ca, "field "+key)
			}
			continue
		}
		pname := strings.TrimPrefix(w.param, "param:")
		sub := ""
		if i := strings.Index(pname, "#"); i >= 0 {
			pname, sub = pname[:i], pname[i+1:]
		}
		pi := -1
		for i, p := range w.fn.Params {
			if p.Name() == pname {
				pi = i
			}
		}
		if pi < 0 {
			continue
		}
		// exported API methods taking an execution from the user are out of scope (the user owns that value)
		for _, ca := range callArgs {
			if ca.callee != w.fn || ca.arg != pi || ca.sub != sub {
				continue
			}
			follow(ca, c.fn(w.fn))
		}
	}
	c.Count("functions evaluated for escape", nFuncs)
	c.Floor("user-callback invocations examined", nCalls, 20)
	if ok {
		c.Ok("library#escape-to-user", "", fmt.Sprintf("%d user-callback invocations in %d functions: every Execution / ExecutionAttempt argument is a private copy (CopyWithResult / copy), directly or at every call site of the forwarding helper; live executions are only passed as ExecutionInfo", nCalls, nFuncs))
	}
}

// isHelperObjectField: the field (given by its faddr key "pkg.Type.field") belongs to an unexported struct of the
// library that is not one of the long-lived objects (execution, executor, policy, config): a method object or
// parameter bundle that lives for one call.
func isHelperObjectField(p *Program, key string) bool {
	parts := strings.SplitN(key, ".", 3)
	if len(parts) != 3 {
		return false
	}
	n := p.NamedType(parts[0], parts[1])
	if n == nil || n.Obj().Exported() {
		return false
	}
	switch typeCanonName(n.Obj()) {
	case "execution", "executor", "config", "executionResult":
		return false
	}
	return true
}

// storesThroughFreeVar: the function or one of its closures assigns the captured variable `name` after its
// initialisation from the parameter (then the captured value is not the parameter any more).
func storesThroughFreeVar(parent *ssa.Function, name string) bool {
	n := 0
	var visit func(f *ssa.Function)
	visit = func(f *ssa.Function) {
		for _, b := range f.Blocks {
			for _, in := range b.Instrs {
				st, isStore := in.(*ssa.Store)
				if !isStore {
					continue
				}
				switch a := st.Addr.(type) {
				case *ssa.Alloc:
					if a.Comment == name && f == parent {
						n++
					}
				case *ssa.FreeVar:
					if a.Name() == name {
						n += 2
					}
				}
			}
		}
		for _, a := range f.AnonFuncs {
			visit(a)
		}
	}
	visit(parent)
	return n > 1 // one store: the spill of the parameter itself
}

// returnsPolicyResult: the function type yields a *common.PolicyResult: the library's own chain functions do, no
// user-supplied callback does.
func returnsPolicyResult(sig *types.Signature) bool {
	if sig.Results().Len() != 1 {
		return false
	}
	n := namedOfPtr(sig.Results().At(0).Type())
	return n != nil && n.Obj().Name() == "PolicyResult" && n.Obj().Pkg() != nil && n.Obj().Pkg().Name() == "common"
}

// privateCopy: the execution value is one nobody else writes: the attempt / info carried by an event struct, the
// result of CopyWithResult or copy, or a parameter that receives such a value at every call site.
func privateCopy(ix *Index, fn *ssa.Function, v ssa.Value, depth int) bool {
	if depth > 3 {
		return false
	}
	isEvent := func(t types.Type) bool {
		if p, ok := t.(*types.Pointer); ok {
			t = p.Elem()
		}
		n, ok := t.(*types.Named)
		return ok && n.Obj().Pkg() != nil && n.Obj().Pkg().Name() == "failsafe" && strings.HasSuffix(n.Obj().Name(), "Event")
	}
	switch x := v.(type) {
	case *ssa.ChangeInterface:
		return privateCopy(ix, fn, x.X, depth)
	case *ssa.MakeInterface:
		return privateCopy(ix, fn, x.X, depth)
	case *ssa.TypeAssert:
		return privateCopy(ix, fn, x.X, depth)
	case *ssa.Field:
		return isEvent(x.X.Type())
	case *ssa.UnOp:
		if fa, ok := x.X.(*ssa.FieldAddr); ok && x.Op == token.MUL {
			return isEvent(fa.X.Type())
		}
	case *ssa.Call:
		if x.Call.IsInvoke() {
			return x.Call.Method.Name() == "CopyWithResult"
		}
		if cal := calleeOf(&x.Call); cal != nil {
			return cal.Name() == "CopyWithResult" || canonName(cal) == "copy"
		}
	case *ssa.Parameter:
		return everySiteArg(ix, fn, x, func(caller *ssa.Function, a ssa.Value) bool { return privateCopy(ix, caller, a, depth+1) })
	}
	return false
}

// c14LiveReads: library-internal calls of the unlocked getters on an execution.
func c14LiveReads(c *Ctx) {
	c.Rule("live-reads")
	// IsHedge is not among them: the flag is set on the fresh copy CopyForHedge builds and never written again
	// (C17.counters: isHedge#writers), so reading it needs no lock
	getters := map[string]bool{"LastResult": true, "LastError": true, "AttemptStartTime": true, "ElapsedAttemptTime": true}
	reviewed := map[string]string{
		"ratelimiter.(*rateLimiter).acquirePermitsWithMaxWait#LastError": "read after receiving from exec.Canceled(): happens after Cancel's stores (context cancelled last, under the lock)",
		"failsafehttp.DelayFunc#LastResult":                              "DelayFunc is a user-level delay function: it receives a private copy (C14.escape-to-user)",
		"failsafe.(*execution).LastError#LastError":                      "",
	}
	n := 0
	ok := true
	ix := BuildIndex(c.P)
	for _, fn := range c.P.Funcs {
		for _, b := range fn.Blocks {
			for _, in := range b.Instrs {
				name := ""
				// a getter taken as a method value (exec.LastError handed to a helper that calls it later) is a read
				// site just like a call
				if mc, isMC := in.(*ssa.MakeClosure); isMC {
					if wf, isF := mc.Fn.(*ssa.Function); isF && strings.HasSuffix(wf.Name(), "$bound") && len(mc.Bindings) == 1 {
						if it, isN := mc.Bindings[0].Type().(*types.Named); isN && strings.HasPrefix(it.Obj().Name(), "Execution") {
							name = strings.TrimSuffix(wf.Name(), "$bound")
						}
					}
				}
				cc, isCall := in.(ssa.CallInstruction)
				if !isCall && name == "" {
					continue
				}
				if name != "" {
					// fall through to the site checks below
				} else if cc.Common().IsInvoke() {
					name = cc.Common().Method.Name()
					// only on execution-like interfaces
					if it, isN := cc.Common().Value.Type().(*types.Named); !isN || !(strings.HasPrefix(it.Obj().Name(), "Execution")) {
						continue
					}
				} else if cal := calleeOf(cc.Common()); cal != nil && cal.Signature.Recv() != nil {
					if rn := namedOfPtr(cal.Signature.Recv().Type()); rn != nil && typeCanonName(rn.Obj()) == "execution" {
						name = cal.Name()
					}
				}
				if !getters[name] {
					continue
				}
				n++
				key := c.fn(fn) + "#" + name
				if _, okr := reviewed[key]; okr {
					continue
				}
				// the limiter's execution-flavoured wait, wherever it lives after the dual-mode helper was split: LastError()
				// of the execution whose Canceled() channel the same function waits on (the wait rule decides that the read
				// is on the cancelled branch)
				if name == "LastError" && isCall && cc.Common().IsInvoke() && fn.Pkg != nil && fn.Pkg.Pkg.Name() == "ratelimiter" && waitsOnCanceledOf(fn, cc.Common().Value) {
					continue
				}
				// a helper reachable only from a reviewed function (the reviewed argument still applies: the wait rule
				// C05.wait checks that the read follows the receive from Canceled())
				inReviewed := false
				for rk := range reviewed {
					if strings.HasSuffix(rk, "#"+name) && ix.WithinNames(fn, strings.TrimSuffix(rk, "#"+name)) {
						inReviewed = true
					}
				}
				if inReviewed {
					continue
				}
				// the receiver is a private copy by construction: what an event carries (C14.escape-to-user), or the
				// result of CopyWithResult / copy
				var recvVal ssa.Value
				if isCall {
					if cc.Common().IsInvoke() {
						recvVal = cc.Common().Value
					} else if len(cc.Common().Args) > 0 {
						recvVal = cc.Common().Args[0]
					}
				} else if mc, isMC := in.(*ssa.MakeClosure); isMC && len(mc.Bindings) == 1 {
					recvVal = mc.Bindings[0]
				}
				if recvVal != nil && privateCopy(ix, fn, recvVal, 0) {
					continue
				}
				ok = false
				c.Fail(key, c.P.Pos(in.Pos()), "library code reads "+name+"() of an execution without its lock at a site that is not on the reviewed list (the getters are only safe on private copies or after observing the cancellation)", "")
			}
		}
	}
	c.Floor("unlocked getter calls in the library", n, 1)
	if ok {
		c.Ok("library#live-reads", "", fmt.Sprintf("%d internal getter calls, all on the reviewed list", n))
	}
}

// onceGuardedMethod: m is a method of a library type that is safe to call on an object shared by all executions
// because the only state it writes is written by a function run through a sync.Once of the same object, and whatever
// such a function writes is read only after that Once's Do returned in the same method (Do orders the write before
// every later read). Everything else the method does must be reads, calls of equally safe methods of the same object,
// calls on sync types or on types reviewed as safe for concurrent use, and calls of plain functions outside the library.
func onceGuardedMethod(p *Program, m *ssa.Function, safeRecv func(types.Type, string) bool, visiting map[*ssa.Function]bool) bool {
	if m == nil || !p.InScope[m] || m.Signature.Recv() == nil || len(m.Params) == 0 || len(m.Blocks) == 0 {
		return false
	}
	if visiting[m] {
		return true
	}
	visiting[m] = true
	recvT := namedOfPtr(m.Signature.Recv().Type())
	if recvT == nil {
		return false
	}
	// fields written by the functions this type hands to a sync.Once
	onceFns := map[*ssa.Function]bool{}
	for _, f := range p.Funcs {
		if f.Signature.Recv() == nil || namedOfPtr(f.Signature.Recv().Type()) == nil || namedOfPtr(f.Signature.Recv().Type()).Obj() != recvT.Obj() {
			continue
		}
		for _, b := range f.Blocks {
			for _, in := range b.Instrs {
				if call, ok := in.(*ssa.Call); ok {
					if cal := call.Call.StaticCallee(); cal != nil && qualName(cal) == "(*sync.Once).Do" && len(call.Call.Args) == 2 {
						a := call.Call.Args[1]
						if mc, isMC := a.(*ssa.MakeClosure); isMC {
							a = mc.Fn
						}
						if af, isF := a.(*ssa.Function); isF {
							onceFns[p.TargetOf(af)] = true
						}
					}
				}
			}
		}
	}
	onceWritten := map[int]bool{}
	for f := range onceFns {
		for _, b := range f.Blocks {
			for _, in := range b.Instrs {
				if st, ok := in.(*ssa.Store); ok {
					if fa, isFA := st.Addr.(*ssa.FieldAddr); isFA {
						onceWritten[fa.Field] = true
					}
				}
			}
		}
	}
	var doCalls []*ssa.Call
	for _, b := range m.Blocks {
		for _, in := range b.Instrs {
			if call, ok := in.(*ssa.Call); ok {
				if cal := call.Call.StaticCallee(); cal != nil && qualName(cal) == "(*sync.Once).Do" {
					doCalls = append(doCalls, call)
				}
			}
		}
	}
	after := func(in ssa.Instruction) bool {
		for _, d := range doCalls {
			if d.Block() == in.Block() {
				for _, x := range in.Block().Instrs {
					if x == d {
						return true
					}
					if x == in {
						break
					}
				}
			} else if d.Block().Dominates(in.Block()) {
				return true
			}
		}
		return false
	}
	for _, b := range m.Blocks {
		for _, in := range b.Instrs {
			switch x := in.(type) {
			case *ssa.Store:
				if _, local := x.Addr.(*ssa.Alloc); !local {
					return false
				}
			case *ssa.MapUpdate, *ssa.Send, *ssa.Go:
				return false
			case *ssa.UnOp:
				if fa, isFA := x.X.(*ssa.FieldAddr); isFA && x.Op == token.MUL && onceWritten[fa.Field] && namedOfPtr(fa.X.Type()) != nil && namedOfPtr(fa.X.Type()).Obj() == recvT.Obj() && !after(in) {
					return false
				}
			case ssa.CallInstruction:
				cc := x.Common()
				if cc.IsInvoke() {
					return false
				}
				cal := cc.StaticCallee()
				if cal == nil {
					if _, isB := cc.Value.(*ssa.Builtin); isB {
						continue
					}
					return false
				}
				if cal.Signature.Recv() == nil {
					if p.InScope[origin(cal)] {
						return false
					}
					continue
				}
				if safeRecv(cal.Signature.Recv().Type(), cal.Name()) {
					continue
				}
				if !onceGuardedMethod(p, origin(cal), safeRecv, visiting) {
					return false
				}
			}
		}
	}
	return true
}

// c14Observers: the clock and stopwatch objects behind a policy are shared by everything built from one builder (the
// configuration is shared) and read under different locks, or none; the counters and accessors of the stats and of the
// execution are read by concurrent attempts. A method that is a pure observation by name must not write its receiver:
// "remember the last reading" in a clock is unsynchronised shared state.
func c14Observers(c *Ctx) {
	c.Rule("observers")
	names := map[string]bool{"CurrentUnixNano": true, "ElapsedTime": true, "executionCount": true, "failureCount": true, "successCount": true,
		"failureRate": true, "successRate": true, "remainingDelay": true, "state": true}
	n := 0
	ok := true
	for _, fn := range c.P.Funcs {
		if fn.Signature.Recv() == nil || fn.Parent() != nil || !names[canonName(fn)] || len(fn.Params) == 0 || !c.P.InScope[fn] {
			continue
		}
		n++
		recv := fn.Params[0]
		for _, b := range fn.Blocks {
			for _, in := range b.Instrs {
				st, isStore := in.(*ssa.Store)
				if !isStore {
					continue
				}
				a := st.Addr
				for {
					if fa, isFA := a.(*ssa.FieldAddr); isFA {
						a = fa.X
						continue
					}
					if ia, isIA := a.(*ssa.IndexAddr); isIA {
						a = ia.X
						continue
					}
					break
				}
				if a == ssa.Value(recv) {
					ok = false
					c.Fail(c.fn(fn), c.P.Pos(in.Pos()), canonName(fn)+" is an observation that concurrent executions (and every policy built from the same builder) make without a common lock, but it writes its receiver", "")
				}
			}
		}
	}
	c.Floor("observer methods", n, 6)
	if ok {
		c.Ok("library#observers", "", fmt.Sprintf("%d observer methods (clock, stopwatch, stats and state accessors) write nothing to their receiver", n))
	}
}

// waitsOnCanceledOf: fn (or the function it is nested in) calls Canceled() on the same execution value x.
func waitsOnCanceledOf(fn *ssa.Function, x ssa.Value) bool {
	for _, b := range fn.Blocks {
		for _, in := range b.Instrs {
			if cc, ok := in.(ssa.CallInstruction); ok && cc.Common().IsInvoke() && cc.Common().Method.Name() == "Canceled" && cc.Common().Value == x {
				return true
			}
		}
	}
	return false
}
