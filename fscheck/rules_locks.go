package main

// placeholder; the full LOCKSET rules are added with C14
func lockDiscipline(c *Ctx, pkg string) {}
