package main

// Obligations, known findings, evidence and replay files.

import (
	"encoding/json"
	"fmt"
	"golang.org/x/tools/go/ssa"
	"os"
	"path/filepath"
	"sort"
	"strings"
	"time"
)

type Obligation struct {
	Prop      string `json:"property"`
	Rule      string `json:"rule"`
	Construct string `json:"construct"`
	Pos       string `json:"pos,omitempty"`
	OK        bool   `json:"ok"`
	Reason    string `json:"reason,omitempty"` // violated | undecided | unresolved | floor
	Msg       string `json:"msg,omitempty"`
	Detail    string `json:"detail,omitempty"`
	Known     bool   `json:"known_finding,omitempty"`
}

func (o *Obligation) Key() string { return o.Prop + "/" + o.Rule + "/" + o.Construct }

type KnownFinding struct {
	Property  string `json:"property"`
	Rule      string `json:"rule"`
	Construct string `json:"construct"`
	Status    string `json:"status"` // "known" or "fixed"
	Commit    string `json:"commit,omitempty"`
	What      string `json:"what"`
}

type Ctx struct {
	P        *Program
	Prop     string
	Tier     string
	Obs      []*Obligation
	Stats    map[string]int
	seen     map[string]bool
	seenMsg  map[string]bool
	extra    map[string]any
	NoReplay bool
	Notes    []string
	rule     string
	quiet    map[*ssa.Function]int // quietCall memo: 1 quiet, 2 not
}

// Extra adds a key to the evidence's coverage object.
func (c *Ctx) Extra(k string, v any) {
	if c.extra == nil {
		c.extra = map[string]any{}
	}
	c.extra[k] = v
}

// tierDeep is set for the thorough tier: loop rules unroll one iteration further.
var tierDeep bool

func visits(n int) int {
	if tierDeep {
		return n + 1
	}
	return n
}

func NewCtx(p *Program, prop, tier string) *Ctx {
	return &Ctx{P: p, Prop: prop, Tier: tier, Stats: map[string]int{}, seen: map[string]bool{}, seenMsg: map[string]bool{}}
}

func (c *Ctx) Rule(name string) { c.rule = name }

func (c *Ctx) add(o *Obligation) *Obligation {
	o.Prop = c.Prop
	if o.Rule == "" {
		o.Rule = c.rule
	}
	k := o.Key()
	if !o.OK {
		// one report per construct and message
		mk := k + "|" + o.Msg
		if c.seenMsg[mk] {
			return o
		}
		c.seenMsg[mk] = true
	}
	if c.seen[k] {
		// same construct reported twice: keep the failing one, number duplicates
		for i := 2; ; i++ {
			k2 := fmt.Sprintf("%s#%d", o.Construct, i)
			if !c.seen[o.Prop+"/"+o.Rule+"/"+k2] {
				o.Construct = k2
				break
			}
		}
	}
	c.seen[o.Key()] = true
	c.Obs = append(c.Obs, o)
	return o
}

// Ok records a discharged obligation.
func (c *Ctx) Ok(construct, pos, msg string) {
	c.add(&Obligation{Construct: construct, Pos: pos, OK: true, Msg: msg})
}

// Fail records a violated obligation.
func (c *Ctx) Fail(construct, pos, msg, detail string) {
	c.add(&Obligation{Construct: construct, Pos: pos, OK: false, Reason: "violated", Msg: msg, Detail: detail})
}

// Undecided records an obligation the analysis could not decide (fails closed).
func (c *Ctx) Undecided(construct, pos, msg, detail string) {
	c.add(&Obligation{Construct: construct, Pos: pos, OK: false, Reason: "undecided", Msg: msg, Detail: detail})
}

// Unresolved records an anchor that could not be found (fails closed).
func (c *Ctx) Unresolved(construct, msg string) {
	c.add(&Obligation{Construct: construct, OK: false, Reason: "unresolved", Msg: msg})
}

// Check records ok or a violation.
func (c *Ctx) Check(ok bool, construct, pos, okMsg, failMsg, detail string) bool {
	if ok {
		c.Ok(construct, pos, okMsg)
	} else {
		c.Fail(construct, pos, failMsg, detail)
	}
	return ok
}

// Floor asserts that a rule matched at least min instances. A floor guards against a rule that passes vacuously (an
// anchor stopped resolving, a matcher stopped matching): where the count is fixed by the exported API (eight
// executors, four Build methods) it is the count confirmed by hand; where behaviour-preserving restructuring can
// merge instances (three selects into one generic helper) it is about half of it.
func (c *Ctx) Floor(what string, got, min int) {
	construct := "floor:" + what
	if got >= min {
		c.add(&Obligation{Construct: construct, OK: true, Msg: fmt.Sprintf("%d instances (floor %d)", got, min)})
	} else {
		c.add(&Obligation{Construct: construct, OK: false, Reason: "floor", Msg: fmt.Sprintf("rule matched %d instances of %s, fewer than the floor of %d derived from the hand-confirmed inventory", got, what, min)})
	}
}

func (c *Ctx) Count(what string, n int) { c.Stats[what] += n }

// ---- output -------------------------------------------------------------------------------------------

func loadKnown(verifDir string) ([]KnownFinding, error) {
	b, err := os.ReadFile(filepath.Join(verifDir, "known_findings.json"))
	if err != nil {
		if os.IsNotExist(err) {
			return nil, nil
		}
		return nil, err
	}
	var k []KnownFinding
	if err := json.Unmarshal(b, &k); err != nil {
		return nil, err
	}
	return k, nil
}

type propInfo struct {
	Explanation string
	Assumptions []string
	NotDecided  string
}

// finish prints the verdict, writes evidence and replay files; returns the process exit code.
func (c *Ctx) finish(verifDir string, info propInfo, start time.Time, writeEvidence bool) int {
	known, err := loadKnown(verifDir)
	if err != nil {
		fmt.Printf("cannot read known_findings.json: %v\n", err)
	}
	isKnown := map[string]KnownFinding{}
	for _, k := range known {
		if k.Status == "known" {
			isKnown[k.Property+"/"+k.Rule+"/"+k.Construct] = k
		}
	}
	sort.SliceStable(c.Obs, func(i, j int) bool { return c.Obs[i].Key() < c.Obs[j].Key() })
	replayDir := filepath.Join(verifDir, "evidence", "replay")
	if !c.NoReplay {
		os.MkdirAll(replayDir, 0o755)
	}
	// remove stale replay files of this property
	if old, _ := filepath.Glob(filepath.Join(replayDir, c.Prop+"-*.json")); old != nil && !c.NoReplay {
		for _, f := range old {
			os.Remove(f)
		}
	}
	violations, discharged, knownHits := 0, 0, 0
	for _, o := range c.Obs {
		if o.OK {
			discharged++
			continue
		}
		if k, ok := isKnown[o.Key()]; ok {
			o.Known = true
			knownHits++
			fmt.Printf("KNOWN-FINDING: property=%s %s/%s: %s\n", c.Prop, o.Rule, o.Construct, k.What)
			continue
		}
		violations++
		rp := filepath.Join(replayDir, fmt.Sprintf("%s-%d.json", c.Prop, violations))
		if !c.NoReplay {
			b, _ := json.MarshalIndent(o, "", " ")
			os.WriteFile(rp, b, 0o644)
		}
		fmt.Printf("VIOLATION property=%s replay=%s\n", c.Prop, rp)
		fmt.Printf("  rule %s.%s, construct %s (%s) [%s]: %s\n", c.Prop, o.Rule, o.Construct, o.Pos, o.Reason, o.Msg)
		if o.Detail != "" {
			for _, l := range strings.Split(strings.TrimRight(o.Detail, "\n"), "\n") {
				fmt.Printf("    %s\n", l)
			}
		}
	}
	// known findings that no longer fail are reported (informational)
	for key, k := range isKnown {
		if k.Property != c.Prop {
			continue
		}
		hit := false
		for _, o := range c.Obs {
			if o.Key() == key && !o.OK {
				hit = true
			}
		}
		if !hit {
			fmt.Printf("note: known finding %s no longer reproduces on this tree\n", key)
		}
	}
	wall := time.Since(start).Seconds()
	fmt.Printf("%s %s: %d obligations, %d discharged, %d known findings, %d violations (%.1fs)\n", c.Prop, c.Tier, len(c.Obs), discharged, knownHits, violations, wall)
	if writeEvidence {
		c.writeEvidence(verifDir, info, wall, violations, discharged, knownHits)
	}
	if violations > 0 {
		return 1
	}
	return 0
}

func (c *Ctx) writeEvidence(verifDir string, info propInfo, wall float64, violations, discharged, knownHits int) {
	type sample struct {
		Rule      string `json:"rule"`
		Construct string `json:"construct"`
		Pos       string `json:"pos,omitempty"`
		Verdict   string `json:"verdict"`
		Msg       string `json:"msg,omitempty"`
	}
	var samples []sample
	perRule := map[string]int{}
	ruleCount := map[string]int{}
	for _, o := range c.Obs {
		ruleCount[o.Rule]++
		v := "discharged"
		if !o.OK {
			v = o.Reason
			if o.Known {
				v = "known-finding"
			}
		}
		if perRule[o.Rule] < 6 || !o.OK {
			perRule[o.Rule]++
			samples = append(samples, sample{o.Rule, o.Construct, o.Pos, v, o.Msg})
		}
	}
	cov := map[string]any{
		"explanation":          info.Explanation,
		"obligations":          len(c.Obs),
		"discharged":           discharged,
		"known_findings":       knownHits,
		"checker_cmd":          fmt.Sprintf("/verif/bin/fscheck check -prop %s -tier %s -repo %s", c.Prop, c.Tier, c.P.RepoDir),
		"trusted_base":         []string{"go/types and go/ssa (golang.org/x/tools v0.29.0)", "the Go memory model and the documented contracts of sync, sync/atomic, time, context, errors, reflect, net/http, grpc", "user callbacks do not reach unexported library state", "integer arithmetic treated as mathematical (no overflow) inside decision tables", "spec tables in fscheck (written from the property statements and the repo's doc comments; DESIGN.md Appendix C)"},
		"exhaustive":           true,
		"rule":                 "every construct of /repo's current tree matching a rule template is one obligation; all are evaluated; an obligation that cannot be decided fails",
		"obligations_per_rule": ruleCount,
		"analysed":             c.Stats,
		"packages":             len(c.P.Pkgs),
		"functions_in_scope":   len(c.P.Funcs),
		"not_decided":          info.NotDecided,
		"samples":              samples,
	}
	if len(c.Notes) > 0 {
		cov["notes"] = c.Notes
	}
	for k, v := range c.extra {
		cov[k] = v
	}
	ev := map[string]any{
		"property_id": c.Prop,
		"tier":        c.Tier,
		"seed":        0,
		"level":       "other",
		"coverage":    cov,
		"assumptions": info.Assumptions,
		"wall_s":      wall,
		"violations":  violations,
	}
	b, _ := json.MarshalIndent(ev, "", " ")
	os.MkdirAll(filepath.Join(verifDir, "evidence"), 0o755)
	os.WriteFile(filepath.Join(verifDir, "evidence", c.Prop+".json"), b, 0o644)
}
