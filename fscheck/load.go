package main

// Loading /repo's current working tree, building go/ssa for it, enumerating the function universe
// (including methods of generic types and anonymous functions) and resolving interface dispatch.

import (
	"fmt"
	"go/token"
	"go/types"
	"os"
	"path/filepath"
	"sort"
	"strings"

	"golang.org/x/tools/go/packages"
	"golang.org/x/tools/go/ssa"
	"golang.org/x/tools/go/ssa/ssautil"
)

const modPath = "github.com/failsafe-go/failsafe-go"

// library packages in rule scope (relative to modPath; "" = root)
var scopePkgs = []string{"", "common", "policy", "internal", "internal/util", "retrypolicy", "circuitbreaker",
	"ratelimiter", "bulkhead", "timeout", "hedgepolicy", "fallback", "cachepolicy", "failsafehttp", "failsafegrpc"}

const minPackages = 21

type Program struct {
	RepoDir       string
	Fset          *token.FileSet
	Pkgs          []*packages.Package
	Prog          *ssa.Program
	ByPath        map[string]*packages.Package
	SSAPkg        map[string]*ssa.Package
	Funcs         []*ssa.Function                  // universe: all functions with bodies in scope packages (origins)
	InScope       map[*ssa.Function]bool           // function belongs to a scope package
	byName        map[string]*ssa.Function         // "pkg.(Recv).Name" / "pkg.Name" / with $n for anon
	aliased       map[*ssa.Function]bool           // functions registered under an upstream (reference) name
	soleImpl      map[*types.TypeName]*types.Named // unexported interface -> its only implementer (nil: none or several)
	seamField     map[string]*seam                 // see seams.go
	seamGlobal    map[string]*seam
	afterFuncLike map[*ssa.Function]int            // wrappers of time.AfterFunc -> index of the callback parameter
	ifaceConv     map[*types.TypeName][]types.Type // load.go onlyConverted
	ifaceOpen     map[*types.TypeName]bool
	ctorCalls     map[*ssa.Function][][]ssa.Value // seams.go: arguments of every direct call, by callee
	fnAsValue     map[*ssa.Function]bool
	unsetHooks    map[string]bool // hooks.go
	hookIndex     *Index
	constGlobals  map[*ssa.Global]bool // effectively constant package-level variables (globals.go)
}

func loadProgram(repo string, goarch string) (*Program, error) {
	theProgram = nil
	env := append(os.Environ(), "GOFLAGS=-mod=mod", "GOPROXY=off", "GOSUMDB=off", "GOTOOLCHAIN=local", "GOWORK=off")
	if goarch != "" {
		env = append(env, "GOARCH="+goarch)
	}
	cfg := &packages.Config{Mode: packages.LoadAllSyntax, Dir: repo, Env: env, Tests: false}
	pkgs, err := packages.Load(cfg, "./...")
	if err != nil {
		return nil, fmt.Errorf("packages.Load: %v", err)
	}
	var errs []string
	packages.Visit(pkgs, nil, func(p *packages.Package) {
		for _, e := range p.Errors {
			errs = append(errs, e.Error())
		}
	})
	if len(errs) > 0 {
		return nil, fmt.Errorf("load/type errors: %s", strings.Join(errs, "; "))
	}
	// completeness of the load: every directory of the tree that holds non-test Go source is a loaded package (the
	// fixed floor guards against an empty or truncated tree; a tree that legitimately lost a package — its only file
	// moved elsewhere — is measured against its own directories)
	want := sourceDirs(repo)
	if want > minPackages {
		want = minPackages
	}
	if want < minPackages-3 {
		want = minPackages - 3
	}
	if len(pkgs) < want {
		return nil, fmt.Errorf("only %d packages loaded, expected at least %d", len(pkgs), want)
	}
	prog, _ := ssautil.AllPackages(pkgs, ssa.BuilderMode(0))
	prog.Build()
	p := &Program{RepoDir: repo, Fset: prog.Fset, Pkgs: pkgs, Prog: prog, ByPath: map[string]*packages.Package{}, SSAPkg: map[string]*ssa.Package{},
		InScope: map[*ssa.Function]bool{}, byName: map[string]*ssa.Function{}}
	for _, pk := range pkgs {
		p.ByPath[pk.PkgPath] = pk
		if sp := prog.Package(pk.Types); sp != nil {
			p.SSAPkg[pk.PkgPath] = sp
		}
	}
	// a package of the reviewed tree that the analysed tree no longer has (no Go source left in its directory) is not
	// part of this run's scope; a directory that holds Go source but did not load fails below
	{
		var kept []string
		for _, rel := range scopePkgs {
			if rel != "" && p.SSAPkg[modPath+"/"+rel] == nil && !hasGoSource(filepath.Join(repo, rel)) {
				continue
			}
			kept = append(kept, rel)
		}
		scopePkgs = kept
	}
	resolveTypeRoles(p)
	for _, rel := range scopePkgs {
		path := modPath
		if rel != "" {
			path += "/" + rel
		}
		sp := p.SSAPkg[path]
		if sp == nil {
			// a package of the reviewed tree that the analysed tree no longer has (its only file moved elsewhere): nothing
			// to enumerate; a directory that still holds Go source but did not load is an incomplete load
			if rel != "" && !hasGoSource(filepath.Join(repo, rel)) {
				continue
			}
			return nil, fmt.Errorf("scope package %s not loaded", path)
		}
		p.enumerate(sp)
	}
	sort.Slice(p.Funcs, func(i, j int) bool { return p.FuncName(p.Funcs[i]) < p.FuncName(p.Funcs[j]) })
	resolveFuncRoles(p)
	resolveIfaceRoles(p)
	resolveRoles(p)
	resolveByFingerprint(p)
	resolveFieldsByFingerprint(p)
	resolveThinWrappers(p)
	theProgram = p
	return p, nil
}

func (p *Program) addFunc(fn *ssa.Function) {
	if fn == nil || p.InScope[fn] {
		return
	}
	p.InScope[fn] = true
	if len(fn.Blocks) > 0 {
		p.Funcs = append(p.Funcs, fn)
	}
	p.byName[p.FuncName(fn)] = fn
	for _, a := range fn.AnonFuncs {
		p.addFunc(a)
	}
}

func (p *Program) enumerate(sp *ssa.Package) {
	var names []string
	for n := range sp.Members {
		names = append(names, n)
	}
	sort.Strings(names)
	for _, n := range names {
		switch m := sp.Members[n].(type) {
		case *ssa.Function:
			p.addFunc(m)
		case *ssa.Type:
			named, ok := m.Type().(*types.Named)
			if !ok {
				continue
			}
			for i := 0; i < named.NumMethods(); i++ {
				p.addFunc(p.Prog.FuncValue(named.Method(i)))
			}
		}
	}
}

// FuncName gives the stable, human readable identity used as obligation construct:
// "retrypolicy.(*executor).Apply$1", "util.MergeContexts", "failsafe.(*execution).Cancel".
func (p *Program) FuncName(fn *ssa.Function) string {
	if fn == nil {
		return "<nil>"
	}
	if o := fn.Origin(); o != nil {
		fn = o
	}
	if fn.Parent() != nil {
		// anonymous: parent name + $index
		idx := 0
		for i, a := range fn.Parent().AnonFuncs {
			if a == fn {
				idx = i + 1
			}
		}
		return fmt.Sprintf("%s$%d", p.FuncName(fn.Parent()), idx)
	}
	pkg := ""
	if fn.Pkg != nil {
		pkg = fn.Pkg.Pkg.Name()
	} else if fn.Object() != nil && fn.Object().Pkg() != nil {
		pkg = fn.Object().Pkg().Name()
	}
	if recv := fn.Signature.Recv(); recv != nil {
		rt := recv.Type()
		ptr := ""
		if pt, ok := rt.(*types.Pointer); ok {
			rt = pt.Elem()
			ptr = "*"
		}
		name := "?"
		if n, ok := rt.(*types.Named); ok {
			name = typeCanonName(n.Obj())
			if n.Obj().Pkg() != nil {
				pkg = n.Obj().Pkg().Name()
			}
		}
		return fmt.Sprintf("%s.(%s%s).%s", pkg, ptr, name, fn.Name())
	}
	return pkg + "." + fn.Name()
}

// CanonFuncName is FuncName with renamed unexported functions shown under the name the rules know them by.
func (p *Program) CanonFuncName(fn *ssa.Function) string {
	if fn == nil {
		return "<nil>"
	}
	fn = origin(fn)
	if fn.Parent() != nil {
		idx := 0
		for i, a := range fn.Parent().AnonFuncs {
			if a == fn {
				idx = i + 1
			}
		}
		return fmt.Sprintf("%s$%d", p.CanonFuncName(fn.Parent()), idx)
	}
	name := p.FuncName(fn)
	if c, ok := funcCanon[fn]; ok && c != fn.Name() {
		name = strings.TrimSuffix(name, fn.Name()) + c
	}
	return name
}

// Func looks a function up by its FuncName; nil if absent.
func (p *Program) Func(name string) *ssa.Function { return p.byName[name] }

func (p *Program) Pos(pos token.Pos) string {
	if !pos.IsValid() {
		return "?"
	}
	ps := p.Fset.Position(pos)
	f := strings.TrimPrefix(ps.Filename, p.RepoDir+"/")
	return fmt.Sprintf("%s:%d", f, ps.Line)
}

func (p *Program) FuncPos(fn *ssa.Function) string {
	if fn == nil {
		return "?"
	}
	return p.Pos(fn.Pos())
}

func (p *Program) pkgPath(rel string) string {
	if rel == "" {
		return modPath
	}
	return modPath + "/" + rel
}

// NamedType finds a named type of a scope package.
func (p *Program) NamedType(rel, name string) *types.Named {
	pk := p.ByPath[p.pkgPath(rel)]
	if pk == nil {
		return nil
	}
	o := pk.Types.Scope().Lookup(name)
	if o == nil {
		for tn, canon := range typeCanon {
			if canon == name && tn.Pkg() == pk.Types {
				o = tn
			}
		}
	}
	if o == nil {
		return nil
	}
	n, _ := o.Type().(*types.Named)
	return n
}

// ---- dispatch ------------------------------------------------------------------------------------

func anyType() types.Type { return types.Universe.Lookup("any").Type() }

// instantiateAny instantiates a generic named type with `any` for each type parameter.
func instantiateAny(n *types.Named) types.Type {
	tp := n.TypeParams()
	if tp == nil || tp.Len() == 0 {
		return n
	}
	args := make([]types.Type, tp.Len())
	for i := range args {
		args[i] = anyType()
	}
	t, err := types.Instantiate(nil, n.Origin(), args, false)
	if err != nil {
		return nil
	}
	return t
}

// Implementers lists the named struct types in scope whose pointer type implements iface (both at `any`).
func (p *Program) Implementers(iface *types.Named) []*types.Named {
	it := instantiateAny(iface)
	if it == nil {
		return nil
	}
	ii, ok := it.Underlying().(*types.Interface)
	if !ok {
		return nil
	}
	var out []*types.Named
	for _, rel := range scopePkgs {
		pk := p.ByPath[p.pkgPath(rel)]
		sc := pk.Types.Scope()
		for _, n := range sc.Names() {
			tn, ok := sc.Lookup(n).(*types.TypeName)
			if !ok || tn.IsAlias() {
				continue
			}
			named, ok := tn.Type().(*types.Named)
			if !ok {
				continue
			}
			if _, isIface := named.Underlying().(*types.Interface); isIface {
				continue
			}
			inst := instantiateAny(named)
			if inst == nil {
				continue
			}
			if types.Implements(types.NewPointer(inst), ii) || types.Implements(inst, ii) {
				out = append(out, named)
			}
		}
	}
	return out
}

// MethodOf resolves the (possibly promoted) method `name` of *T to its origin ssa.Function.
func (p *Program) MethodOf(named *types.Named, name string) *ssa.Function {
	inst := instantiateAny(named)
	if inst == nil {
		return nil
	}
	ms := types.NewMethodSet(types.NewPointer(inst))
	var sel *types.Selection
	for i := 0; i < ms.Len(); i++ {
		if ms.At(i).Obj().Name() == name {
			sel = ms.At(i)
			break
		}
	}
	if sel == nil {
		return nil
	}
	f, ok := sel.Obj().(*types.Func)
	if !ok {
		return nil
	}
	fn := p.Prog.FuncValue(f.Origin())
	return fn
}

// ifaceMethods lists method names of a (generic) interface, including embedded ones.
func ifaceMethods(iface *types.Named) []string {
	it := instantiateAny(iface)
	ii, ok := it.Underlying().(*types.Interface)
	if !ok {
		return nil
	}
	var out []string
	for i := 0; i < ii.NumMethods(); i++ {
		out = append(out, ii.Method(i).Name())
	}
	sort.Strings(out)
	return out
}

// origin maps an instantiated function back to its generic origin.
func origin(fn *ssa.Function) *ssa.Function {
	if fn == nil {
		return nil
	}
	if o := fn.Origin(); o != nil {
		return o
	}
	return fn
}

// soleImplementer: for a method call through an unexported interface declared in the library that exactly one
// concrete library type implements, that type's method (nil otherwise).
func (p *Program) soleImplementer(t types.Type, m *types.Func) *ssa.Function {
	n, ok := t.(*types.Named)
	if !ok || n.Obj().Pkg() == nil || n.Obj().Exported() || !strings.HasPrefix(n.Obj().Pkg().Path(), modPath) {
		return nil
	}
	if _, isIface := n.Underlying().(*types.Interface); !isIface {
		return nil
	}
	key := n.Origin().Obj()
	if p.soleImpl == nil {
		p.soleImpl = map[*types.TypeName]*types.Named{}
	}
	impl, seen := p.soleImpl[key]
	if !seen {
		if impls := p.Implementers(n.Origin()); len(impls) == 1 && p.onlyConverted(key, impls[0]) {
			impl = impls[0]
		}
		p.soleImpl[key] = impl
	}
	if impl == nil {
		return nil
	}
	ms := types.NewMethodSet(types.NewPointer(impl))
	for i := 0; i < ms.Len(); i++ {
		if ms.At(i).Obj().Name() == m.Name() {
			if f, isF := ms.At(i).Obj().(*types.Func); isF {
				return p.Prog.FuncValue(f.Origin())
			}
		}
	}
	return nil
}

// onlyConverted: every value the library converts to the interface iface has the concrete type impl (or a pointer to
// it), and no value reaches the interface from another interface type: a type of another package (a *time.Timer
// behind a one-method "stoppable") may satisfy an unexported interface just as well as the library's own type does.
func (p *Program) onlyConverted(iface *types.TypeName, impl *types.Named) bool {
	if p.ifaceConv == nil {
		p.ifaceConv = map[*types.TypeName][]types.Type{}
		p.ifaceOpen = map[*types.TypeName]bool{}
		nameOf := func(t types.Type) *types.TypeName {
			if n, ok := t.(*types.Named); ok {
				if _, isI := n.Underlying().(*types.Interface); isI {
					return n.Origin().Obj()
				}
			}
			return nil
		}
		for _, fn := range p.Funcs {
			for _, b := range fn.Blocks {
				for _, in := range b.Instrs {
					switch x := in.(type) {
					case *ssa.MakeInterface:
						if k := nameOf(x.Type()); k != nil {
							p.ifaceConv[k] = append(p.ifaceConv[k], x.X.Type())
						}
					case *ssa.ChangeInterface:
						if k := nameOf(x.Type()); k != nil {
							p.ifaceOpen[k] = true
						}
					case *ssa.TypeAssert:
						if k := nameOf(x.AssertedType); k != nil {
							p.ifaceOpen[k] = true
						}
					}
				}
			}
		}
	}
	if p.ifaceOpen[iface] {
		return false
	}
	for _, t := range p.ifaceConv[iface] {
		if pt, ok := t.(*types.Pointer); ok {
			t = pt.Elem()
		}
		n, ok := t.(*types.Named)
		if !ok || n.Origin().Obj() != impl.Origin().Obj() {
			return false
		}
	}
	return true
}

// TargetOf resolves a synthetic bound-method wrapper (x.m used as a value) to the method m; other functions to
// their origin.
func (p *Program) TargetOf(fn *ssa.Function) *ssa.Function {
	if fn == nil {
		return nil
	}
	f := origin(fn)
	if f.Synthetic != "" && strings.HasSuffix(f.Name(), "$bound") && f.Object() != nil {
		if tf, ok := f.Object().(*types.Func); ok {
			if g := p.Prog.FuncValue(tf.Origin()); g != nil {
				return origin(g)
			}
		}
	}
	return f
}

// calleeOf returns the static callee (origin) of a call, if any.
func calleeOf(c *ssa.CallCommon) *ssa.Function {
	if c.IsInvoke() {
		return nil
	}
	switch v := c.Value.(type) {
	case *ssa.Function:
		return origin(v)
	case *ssa.MakeClosure:
		if f, ok := v.Fn.(*ssa.Function); ok {
			return origin(f)
		}
	case *ssa.UnOp:
		// a call through a collaborator seam (seams.go): the function the field / variable is bound to
		if theProgram == nil || v.Op != token.MUL {
			return nil
		}
		if theProgram.seamField == nil {
			theProgram.buildSeams()
		}
		switch a := v.X.(type) {
		case *ssa.FieldAddr:
			k, _ := fieldKey(a.X.Type(), a.Field)
			if s := theProgram.seamField[k]; s != nil && !s.bad && s.fn != nil {
				return s.fn
			}
		case *ssa.Global:
			if a.Pkg != nil {
				if s := theProgram.seamGlobal[a.Pkg.Pkg.Name()+"."+a.Name()]; s != nil && !s.bad && s.fn != nil {
					return s.fn
				}
			}
		}
	}
	return nil
}

// theProgram: the program being analysed (one per process), for the helpers that have no other way to reach it.
var theProgram *Program

// qualName gives "pkgpath.Name" or "(pkgpath.Type).Method" for any function (also outside the repo).
func qualName(fn *ssa.Function) string {
	if fn == nil {
		return ""
	}
	fn = origin(fn)
	if fn.Object() == nil {
		return fn.String()
	}
	o := fn.Object()
	if f, ok := o.(*types.Func); ok {
		return f.FullName()
	}
	return fn.String()
}

// sourceDirs counts the directories under repo that contain at least one non-test .go file (testdata, vendor and
// hidden directories aside).
func sourceDirs(repo string) int {
	n := 0
	filepath.Walk(repo, func(path string, info os.FileInfo, err error) error {
		if err != nil {
			return nil
		}
		if info.IsDir() {
			b := info.Name()
			if path != repo && (strings.HasPrefix(b, ".") || b == "testdata" || b == "vendor") {
				return filepath.SkipDir
			}
			ents, _ := os.ReadDir(path)
			for _, e := range ents {
				if !e.IsDir() && strings.HasSuffix(e.Name(), ".go") && !strings.HasSuffix(e.Name(), "_test.go") {
					n++
					break
				}
			}
		}
		return nil
	})
	return n
}

func hasGoSource(dir string) bool {
	ents, err := os.ReadDir(dir)
	if err != nil {
		return false
	}
	for _, e := range ents {
		if !e.IsDir() && strings.HasSuffix(e.Name(), ".go") && !strings.HasSuffix(e.Name(), "_test.go") {
			return true
		}
	}
	return false
}
