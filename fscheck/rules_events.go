package main

// C16 (events), C17 (statistics), C15 (async protocol), C08 (cancellation): mostly compositions of the
// executor-level rules plus the executor's completion listeners, listener-field inventory, counter ownership
// and the blocking-operation inventory.

import (
	"fmt"
	"go/token"
	"go/types"
	"sort"
	"strings"

	"golang.org/x/tools/go/ssa"
)

// ---- C16 ------------------------------------------------------------------------------------------------

func rulesC16(c *Ctx) {
	c16Executor(c)
	c16BaseListeners(c)
	c16Overrides(c)
	c16ListenerFields(c)
	c.Rule("retry")
	retryLoop(c, map[string]bool{"listeners": true})
	retryDecision(c, map[string]bool{"listeners": true})
	c01PostExecute(c)
	c03Transition(c)
	c03Edges(c)
	// breaker events of concurrent executions form one connected path (each event's old state is the previous
	// event's new state, specific and generic listeners agree) only because a transition and its two notifications
	// happen inside one critical section of the breaker's mutex: the lock discipline of the breaker is part of C16
	lockDiscipline(c, "circuitbreaker")
	c06Pairing(c)
	c05Executor(c)
	c07Race(c)
	c10Apply(c)
	c09Loop(c)
	c11Pre(c)
	c11Post(c)
	// the listeners a policy calls are those it was built with: Build gives each policy its own snapshot
	buildCopiesConfig(c)
	// … and an executor derived with WithContext has listeners of its own
	c01WithContext(c)
	// the retry executor's exceeded flag covers both limits (OnRetriesExceeded at most once per policy and execution)
	c.Rule("retry-decision")
	retryDecision(c, map[string]bool{"decision": true})
	retryLoop(c, map[string]bool{"returns": true})
	// the executor-level events describe the result the caller gets: the async runner records exactly what execute
	// returned (and reported); per-policy events are counted per execution because every execution gets policy
	// executors of its own
	executeAsyncRule(c)
	c.Rule("fresh-executors")
	c01Self(c)
}

func c16Executor(c *Ctx) {
	c.Rule("executor")
	fn := c.P.Func("failsafe.(*executor).execute")
	if fn == nil {
		c.Unresolved("failsafe.(*executor).execute", "not found")
		return
	}
	name, pos := c.fn(fn)+"#listeners", c.P.FuncPos(fn)
	ev := NewEvaluator(c.P, EvalConfig{MaxVisits: 2})
	ts := ev.TS
	ps := ev.Run(fn)
	if ev.Err != nil || len(ps) == 0 {
		c.Undecided(name, pos, fmt.Sprintf("evaluation failed: %v", ev.Err), "")
		return
	}
	e := ev.Param(fn, fn.Params[0].Name())
	outer := ev.Param(fn, "outerExec")
	s0 := ev.NewState()
	onS, onF, onD := ev.LoadField(s0, e, "onSuccess"), ev.LoadField(s0, e, "onFailure"), ev.LoadField(s0, e, "onDone")
	if onS == nil || onF == nil || onD == nil {
		c.Unresolved(name, "listener fields onSuccess / onFailure / onDone not found")
		return
	}
	ok := true
	rows := 0
	for _, p := range ps {
		if p.Exit != ExitReturn {
			continue
		}
		er := p.Rets[0]
		sAll := ev.LoadField(p.State, er, "SuccessAll")
		aS, aF, aD := ts.Cmp("!=", onS, ts.Nil(nil)), ts.Cmp("!=", onF, ts.Nil(nil)), ts.Cmp("!=", onD, ts.Nil(nil))
		cs := eventsWhere(p, func(x *Event) bool { return isDynCall(x, onS) })
		cf := eventsWhere(p, func(x *Event) bool { return isDynCall(x, onF) })
		cd := eventsWhere(p, func(x *Event) bool { return isDynCall(x, onD) })
		for _, F := range p.State.Facts.Refine(ts, aS, aF, aD, sAll) {
			rows++
			S, Fl, D, A := F.Truth(ts, aS), F.Truth(ts, aF), F.Truth(ts, aD), F.Truth(ts, sAll)
			bad := func(msg string) {
				ok = false
				c.Fail(name, pos, msg, "row: "+F.String()+"\n"+pathTrace(ev, p))
			}
			wantS, wantF := triAnd(S, A), triAnd(Fl, A.not())
			if wantS == triU || wantF == triU || D == triU {
				bad("the completion events do not depend on the result's SuccessAll verdict and the registered listeners")
				continue
			}
			if (wantS == triT) != (len(cs) == 1) || len(cs) > 1 {
				bad(fmt.Sprintf("executor OnSuccess must fire exactly once iff the execution succeeded for all policies (SuccessAll=%s, listener set=%s): found %d calls", A, S, len(cs)))
			}
			if (wantF == triT) != (len(cf) == 1) || len(cf) > 1 {
				bad(fmt.Sprintf("executor OnFailure must fire exactly once iff the execution did not succeed for all policies (SuccessAll=%s, listener set=%s): found %d calls", A, Fl, len(cf)))
			}
			if (D == triT) != (len(cd) == 1) || len(cd) > 1 {
				bad("executor OnDone must fire exactly once per execution when set")
			}
		}
		// event payload: built from the outer execution and the returned result; after the composed call
		for _, l := range append(append(append([]*Event{}, cs...), cf...), cd...) {
			okPayload := false
			for _, x := range p.Events() {
				if isCall(x, "newExecutionDoneEvent") && len(x.Res) == 1 && x.Res[0] == l.Args[0] && x.Args[0] == outer && x.Args[1] == er {
					okPayload = true
				}
			}
			// the same event written out (or built by an inlined helper): {outer execution, er.Result, er.Error}
			if a := l.Args[0]; !okPayload && a.Op == "struct" && len(a.Args) == 3 && a.Args[0] == outer &&
				a.Args[1] == ev.LoadField(p.State, er, "Result") && a.Args[2] == ev.LoadField(p.State, er, "Error") {
				okPayload = true
			}
			if !okPayload {
				ok = false
				c.Fail(name, pos, "a completion event must be built from the outer execution and the very result that is returned", pathTrace(ev, p))
			}
		}
		for _, d := range cd {
			for _, x := range append(append([]*Event{}, cs...), cf...) {
				if x.Idx > d.Idx {
					ok = false
					c.Fail(name, pos, "OnDone fires before OnSuccess/OnFailure", pathTrace(ev, p))
				}
			}
		}
	}
	c.Count("decision-table rows", rows)
	if ok && rows > 0 {
		c.Ok(name, pos, fmt.Sprintf("%d rows: OnSuccess ⇔ SuccessAll, OnFailure ⇔ ¬SuccessAll, OnDone always; once each when set; payload = (outer execution, returned result)", rows))
	}
	if ne := c.P.Func("failsafe.newExecutionDoneEvent"); ne == nil {
		// no constructor helper: the payload check above has seen the event literal itself on every path
		c.Ok("failsafe.newExecutionDoneEvent", "", "events are built in place (checked with the listener calls)")
	} else {
		ev := NewEvaluator(c.P, EvalConfig{})
		good := true
		for _, p := range ev.Run(ne) {
			r := p.Rets[0]
			er := ev.Param(ne, ne.Params[1].Name())
			if !(r.Op == "struct" && len(r.Args) == 3 && r.Args[0] == ev.Param(ne, ne.Params[0].Name()) && r.Args[1] == ev.LoadField(ev.NewState(), er, "Result") && r.Args[2] == ev.LoadField(ev.NewState(), er, "Error")) {
				good = false
				c.Fail(c.fn(ne), c.P.FuncPos(ne), "the done event must carry the result's Result and Error", pathTrace(ev, p))
			}
		}
		if good {
			c.Ok(c.fn(ne), c.P.FuncPos(ne), "{info, er.Result, er.Error}")
		}
	}
}

func c16BaseListeners(c *Ctx) {
	c.Rule("policy-listeners")
	for _, spec := range []struct{ fn, field string }{{"policy.(*BaseExecutor).OnSuccess", "onSuccess"}, {"policy.(*BaseExecutor).OnFailure", "onFailure"}} {
		fn := c.P.Func(spec.fn)
		if fn == nil {
			c.Unresolved(spec.fn, "not found")
			continue
		}
		ev := NewEvaluator(c.P, EvalConfig{})
		ts := ev.TS
		ok := true
		e := ev.Param(fn, fn.Params[0].Name())
		exec, res := ev.Param(fn, fn.Params[1].Name()), ev.Param(fn, fn.Params[2].Name())
		s0 := ev.NewState()
		bfp := ev.LoadField(s0, e, "BaseFailurePolicy")
		l := ev.LoadField(s0, e, "BaseFailurePolicy", spec.field)
		ps := ev.Run(fn)
		for _, p := range ps {
			calls := eventsWhere(p, func(x *Event) bool { return x.Kind == EvCall && x.FnTerm != nil })
			want := triAnd(p.State.Facts.Truth(ts, ts.Cmp("!=", bfp, ts.Nil(nil))), triU)
			if p.State.Facts.Truth(ts, ts.Cmp("!=", bfp, ts.Nil(nil))) == triF {
				want = triF
			} else {
				want = p.State.Facts.Truth(ts, ts.Cmp("!=", l, ts.Nil(nil)))
			}
			good := want != triU && (want == triT) == (len(calls) == 1) && len(calls) <= 1
			if good && len(calls) == 1 {
				evt := calls[0].Args[0]
				good = calls[0].FnTerm == l && evt.Op == "struct" && len(evt.Args) == 1 && copyOf(p, evt.Args[0], exec, res)
			}
			if good && spec.field == "onFailure" && (p.Exit != ExitReturn || p.Rets[0] != res) {
				good = false
			}
			if !good {
				ok = false
				c.Fail(spec.fn, c.P.FuncPos(fn), "the policy-level "+spec.field+" listener must be called exactly once when set, with a copy of the execution carrying the handled result (and OnFailure must return the result unchanged)", pathTrace(ev, p))
			}
		}
		if ok && len(ps) > 0 {
			c.Ok(spec.fn, c.P.FuncPos(fn), "listener ⇔ set; once; copy with the handled result")
		}
	}
}

// c16Overrides: every overriding OnSuccess/OnFailure slot calls the base implementation exactly once.
func c16Overrides(c *Ctx) {
	c.Rule("overrides")
	tab := c.ExecTable()
	n := 0
	for _, pkg := range sortedKeys(tab) {
		info := tab[pkg]
		for _, slot := range []string{"OnSuccess", "OnFailure"} {
			fn := info.Slots[slot]
			base := c.P.Func("policy.(*BaseExecutor)." + slot)
			if fn == nil || base == nil || fn == base {
				continue
			}
			n++
			ee := c.NewExecEval(info, EvalConfig{})
			ev := ee.Ev
			exec := ee.Sym("exec", fn.Params[1].Type())
			res := ee.Sym("result", fn.Params[2].Type())
			ok := true
			ps := ee.RunSlot(slot, exec, res)
			for _, p := range ps {
				if p.Exit != ExitReturn {
					continue
				}
				bc := eventsWhere(p, func(x *Event) bool { return isCall(x, slot) && x.Fn == base })
				if len(bc) != 1 || bc[0].Recv != ee.Base || bc[0].Args[0] != exec || bc[0].Args[1] != res {
					ok = false
					c.Fail(c.fn(fn), c.P.FuncPos(fn), fmt.Sprintf("an overriding %s must call BaseExecutor.%s(exec, result) exactly once on every path (otherwise the policy-level listener is lost or doubled)", slot, slot), pathTrace(ev, p))
				} else {
					// the base hook runs the user's listener: it must not run while the override holds a lock of the policy (a
					// listener that asks the breaker for its state or metrics would deadlock, and every other execution waits)
					held := 0
					for _, x := range p.Events() {
						if x.Idx >= bc[0].Idx {
							break
						}
						if isCall(x, "Lock") || isCall(x, "RLock") {
							held++
						}
						if isCall(x, "Unlock") || isCall(x, "RUnlock") {
							held--
						}
					}
					if held > 0 {
						ok = false
						c.Fail(c.fn(fn), c.P.FuncPos(fn), fmt.Sprintf("BaseExecutor.%s (which runs the user's listener) is called while the override holds a lock of the policy", slot), pathTrace(ev, p))
					}
				}
			}
			if ok && len(ps) > 0 {
				c.Ok(c.fn(fn), c.P.FuncPos(fn), "calls the base "+slot+" exactly once")
			}
		}
	}
	c.Floor("overriding OnSuccess/OnFailure slots", n, 3)
}

// c16ListenerFields: every func-typed listener field a builder stores is invoked somewhere in the library.
func c16ListenerFields(c *Ctx) {
	c.Rule("listener-fields")
	ix := BuildIndex(c.P)
	type lf struct {
		rel, typ string
	}
	structs := []lf{{"", "executor"}, {"policy", "BaseFailurePolicy"}, {"retrypolicy", "config"}, {"circuitbreaker", "config"}, {"cachepolicy", "config"},
		{"ratelimiter", "config"}, {"bulkhead", "config"}, {"timeout", "config"}, {"fallback", "config"}, {"hedgepolicy", "config"}}
	// fields whose loaded value is called, per (type, field)
	called := map[FieldRef]bool{}
	// reachesCall: the value is called or handed to a call, directly, through a φ, or as the result of an accessor
	// whose callers do so
	var reachesCall func(v ssa.Value, depth int) bool
	reachesCall = func(v ssa.Value, depth int) bool {
		refs := v.Referrers()
		if refs == nil || depth > 3 {
			return false
		}
		for _, r := range *refs {
			switch x := r.(type) {
			case ssa.CallInstruction:
				if !x.Common().IsInvoke() {
					if x.Common().Value == v {
						return true
					}
				}
				for _, a := range x.Common().Args {
					if a == v {
						return true
					}
				}
			case *ssa.Phi:
				if reachesCall(x, depth+1) {
					return true
				}
			case *ssa.Store:
				// put into a local table (a slice of candidates built in this function) that the function then walks
				if x.Val == v {
					root := x.Addr
					for {
						switch a := root.(type) {
						case *ssa.IndexAddr:
							root = a.X
							continue
						case *ssa.FieldAddr:
							root = a.X
							continue
						}
						break
					}
					if al, isAlloc := root.(*ssa.Alloc); isAlloc && al.Parent() == x.Parent() {
						return true
					}
				}
			case *ssa.MakeClosure:
				return true // captured by a function literal of the same function
			case *ssa.Return:
				fn := x.Parent()
				if len(x.Results) != 1 {
					continue
				}
				for _, caller := range ix.Callers[origin(fn)] {
					for _, b := range caller.Blocks {
						for _, in := range b.Instrs {
							cv, isV := in.(*ssa.Call)
							if !isV {
								continue
							}
							if cal := calleeOf(cv.Common()); cal != nil && origin(cal) == origin(fn) && reachesCall(cv, depth+1) {
								return true
							}
						}
					}
				}
			}
		}
		return false
	}
	for _, fn := range c.P.Funcs {
		for _, b := range fn.Blocks {
			for _, in := range b.Instrs {
				u, isLoad := in.(*ssa.UnOp)
				if !isLoad || u.Op != token.MUL {
					continue
				}
				fa, isFA := u.X.(*ssa.FieldAddr)
				if !isFA {
					continue
				}
				if _, isFunc := u.Type().Underlying().(*types.Signature); !isFunc {
					continue
				}
				if fr, okf := fieldRefOfAddr(fa); okf && !called[fr] && reachesCall(u, 0) {
					called[fr] = true
				}
			}
		}
	}
	n := 0
	for _, s := range structs {
		for _, f := range c.P.structFields(s.rel, s.typ) {
			sig, isFunc := f.Type().Underlying().(*types.Signature)
			if !isFunc || sig.Results().Len() != 0 || sig.Params().Len() != 1 {
				continue // listeners take one event and return nothing
			}
			n++
			pkgName := "failsafe"
			if s.rel != "" {
				pkgName = s.rel
			}
			fr := canonRef(FieldRef{Type: s.typ, Pkg: pkgName, Field: f.Name()})
			ws := ix.Writers(fr)
			okW := len(ws) >= 1
			for _, w := range ws {
				isExec := s.typ == "executor"
				if !ix.Within(w, func(top *ssa.Function) bool {
					return isBuilderMethod(top) || isConstructorLike(top) || (isExec && (top.Name() == "OnDone" || top.Name() == "OnSuccess" || top.Name() == "OnFailure" || top.Name() == "WithContext"))
				}) {
					okW = false
				}
			}
			if !okW {
				c.Fail(fr.String(), "", "listener field is not stored by exactly the builder methods", "")
				continue
			}
			if !called[fr] {
				c.Fail(fr.String(), "", "a listener the builder accepts is never invoked by the library (dead listener)", "")
				continue
			}
			c.Ok(fr.String(), "", "stored by a builder method and invoked by the library")
		}
	}
	c.Floor("listener fields", n, 21)
}

// ---- C17 ------------------------------------------------------------------------------------------------

func rulesC17(c *Ctx) {
	execStateMethods(c, nil)
	newExecutionRule(c)
	c17Counters(c)
	c17Flags(c)
	c.Rule("executions")
	c01Leaf(c)
	c17RecordCallers(c)
	// "attempts rejected by a breaker, bulkhead or rate limiter count as attempts but not as executions": a rejection
	// by PreExecute returns without running anything inside
	c01BaseApply(c)
	witnessRules(c, "C17")
	c.Rule("last-outcome")
	retryLoop(c, map[string]bool{"recheck": true, "listeners": true})
	retryDecision(c, map[string]bool{"listeners": true})
	c10Apply(c)
	c09Loop(c)
	c16BaseListeners(c)
	// … and the breaker's delay function: the execution it is given carries the outcome that trips the breaker
	c04Pairing(c)
	// … and the cache listeners: OnResultCached carries the result that was stored
	c11Post(c)
}

// c17Counters: who touches the four shared counters, and how.
func c17Counters(c *Ctx) {
	c.Rule("counters")
	allowed := map[string]map[string]bool{
		"attempts":   {"failsafe.newExecution": true, "failsafe.(*execution).InitializeRetry": true, "failsafe.(*execution).CopyForHedge": true},
		"retries":    {"failsafe.(*execution).InitializeRetry": true},
		"hedges":     {"failsafe.(*execution).CopyForHedge": true},
		"executions": {"failsafe.(*execution).record": true},
	}
	readers := map[string]bool{"Load": true}
	n := 0
	ok := true
	ix := BuildIndex(c.P)
	leafFn := leafFunction(c)
	for _, fn := range c.P.Funcs {
		if fn.Pkg == nil || fn.Pkg.Pkg.Name() != "failsafe" {
			continue
		}
		for _, b := range fn.Blocks {
			for _, in := range b.Instrs {
				cc, isCall := in.(ssa.CallInstruction)
				if !isCall {
					continue
				}
				var recvVal ssa.Value
				var opArgs []ssa.Value
				m := ""
				if cc.Common().IsInvoke() {
					// the counter kept behind an interface with the atomic's method names
					recvVal, opArgs, m = cc.Common().Value, cc.Common().Args, cc.Common().Method.Name()
					if m != "Add" && m != "Load" && m != "Store" && m != "Swap" && m != "CompareAndSwap" {
						continue
					}
				} else {
					cal := calleeOf(cc.Common())
					if cal == nil || cal.Signature.Recv() == nil || len(cc.Common().Args) == 0 {
						continue
					}
					if !strings.HasPrefix(qualName(cal), "(*sync/atomic.") {
						continue
					}
					recvVal, opArgs, m = cc.Common().Args[0], cc.Common().Args[1:], cal.Name()
				}
				// receiver: load of execution.<counter>, or a local later stored into it (constructor)
				field := ""
				if u, isLoad := recvVal.(*ssa.UnOp); isLoad {
					if fa, isFA := u.X.(*ssa.FieldAddr); isFA {
						if fr, okf := fieldRefOfAddr(fa); okf && fr.Type == "execution" {
							field = fr.Field
						}
					}
				}
				if al, isAlloc := recvVal.(*ssa.Alloc); isAlloc && canonName(fn) == "newExecution" {
					field = al.Comment
				}
				if _, tracked := allowed[field]; !tracked {
					continue
				}
				n++
				if readers[m] {
					continue
				}
				inLeaf := field == "executions" && leafFn != nil && ix.Within(fn, func(f *ssa.Function) bool { return f == leafFn })
				if m != "Add" || !(inLeaf || ix.WithinNames(fn, sortedKeys(allowed[field])...)) {
					ok = false
					c.Fail("failsafe.execution."+field, c.P.Pos(in.Pos()), fmt.Sprintf("%s.%s in %s: the counter may only be read, or bumped by Add(1) in %s", field, m, c.fn(fn), strings.Join(sortedKeys(allowed[field]), ", ")), "")
					continue
				}
				if len(opArgs) != 1 {
					ok = false
					c.Fail("failsafe.execution."+field, c.P.Pos(in.Pos()), "counters must be bumped by exactly 1", "")
				} else if k, isK := opArgs[0].(*ssa.Const); !isK || k.Value == nil || k.Value.ExactString() != "1" {
					ok = false
					c.Fail("failsafe.execution."+field, c.P.Pos(in.Pos()), "counters must be bumped by exactly 1", "")
				}
			}
		}
	}
	c.Floor("atomic operations on execution counters", n, 5)
	if ok {
		c.Ok("failsafe.execution#counters", "", fmt.Sprintf("%d atomic operations: attempts bumped only by the constructor, InitializeRetry and CopyForHedge; retries only by InitializeRetry; hedges only by CopyForHedge; executions only by record(); everything else only loads", n))
	}
	// plain fields
	for field, ws := range map[string][]string{
		"startTime":        {"failsafe.newExecution"},
		"attemptStartTime": {"failsafe.newExecution", "failsafe.(*execution).InitializeRetry"},
		"isHedge":          {"failsafe.(*execution).CopyForHedge"},
		"attempts":         {"failsafe.newExecution"}, "retries": {"failsafe.newExecution"}, "hedges": {"failsafe.newExecution"}, "executions": {"failsafe.newExecution"},
		"mtx": {"failsafe.newExecution"}, "canceledResult": {"failsafe.newExecution"},
	} {
		good := true
		for _, w := range ix.Writers(FieldRef{Type: "execution", Pkg: "failsafe", Field: field}) {
			if !ix.WithinNames(w, ws...) {
				good = false
				c.Fail("failsafe.execution."+field+"#writers", c.P.FuncPos(w), field+" is written by "+c.fn(w)+"; allowed: "+strings.Join(ws, ", "), "")
			}
		}
		if good {
			c.Ok("failsafe.execution."+field+"#writers", "", "written only by "+strings.Join(ws, ", "))
		}
	}
}

func c17Flags(c *Ctx) {
	c.Rule("flags")
	type g struct {
		m     string
		check func(ev *Evaluator, e *T, p *Path) bool
		doc   string
	}
	loadOf := func(t *T, field string) bool {
		return t.Op == "app" && hasPrefix(t.Aux, "Load@") && loadedField(t.Args[0]) == field
	}
	specs := []g{
		{"Attempts", func(ev *Evaluator, e *T, p *Path) bool { return loadOf(p.Rets[0], "attempts") }, "attempts.Load()"},
		{"Retries", func(ev *Evaluator, e *T, p *Path) bool { return loadOf(p.Rets[0], "retries") }, "retries.Load()"},
		{"Hedges", func(ev *Evaluator, e *T, p *Path) bool { return loadOf(p.Rets[0], "hedges") }, "hedges.Load()"},
		{"Executions", func(ev *Evaluator, e *T, p *Path) bool { return loadOf(p.Rets[0], "executions") }, "executions.Load()"},
		{"IsHedge", func(ev *Evaluator, e *T, p *Path) bool { return loadedField(p.Rets[0]) == "isHedge" }, "isHedge"},
		{"LastResult", func(ev *Evaluator, e *T, p *Path) bool { return loadedField(p.Rets[0]) == "lastResult" }, "lastResult"},
		{"StartTime", func(ev *Evaluator, e *T, p *Path) bool { return loadedField(p.Rets[0]) == "startTime" }, "startTime"},
		{"AttemptStartTime", func(ev *Evaluator, e *T, p *Path) bool { return loadedField(p.Rets[0]) == "attemptStartTime" }, "attemptStartTime"},
		{"Context", func(ev *Evaluator, e *T, p *Path) bool { return loadedField(p.Rets[0]) == "ctx" }, "ctx"},
	}
	for _, sp := range specs {
		fn := c.P.Func("failsafe.(*execution)." + sp.m)
		if fn == nil {
			c.Unresolved("failsafe.(*execution)."+sp.m, "not found")
			continue
		}
		ev := NewEvaluator(c.P, EvalConfig{})
		ok := true
		ps := ev.Run(fn)
		e := ev.Param(fn, fn.Params[0].Name())
		for _, p := range ps {
			if p.Exit != ExitReturn || len(impure(p)) != 0 || !sp.check(ev, e, p) {
				ok = false
				c.Fail(c.fn(fn), c.P.FuncPos(fn), sp.m+"() must be exactly "+sp.doc, pathTrace(ev, p))
			}
		}
		if ok && len(ps) > 0 {
			c.Ok(c.fn(fn), c.P.FuncPos(fn), sp.doc)
		}
	}
	// LastError: the recorded error of the most recent attempt wins; only when there is none does the context's
	// error show through (so an attempt keeps seeing the previous attempt's error after its context is cancelled)
	if fn := c.P.Func("failsafe.(*execution).LastError"); fn == nil {
		c.Unresolved("failsafe.(*execution).LastError", "not found")
	} else {
		ev := NewEvaluator(c.P, EvalConfig{})
		ts := ev.TS
		ok := true
		ps := ev.Run(fn)
		e := ev.Param(fn, fn.Params[0].Name())
		last := ev.LoadField(ev.NewState(), e, "lastError")
		ctx := ev.LoadField(ev.NewState(), e, "ctx")
		for _, p := range ps {
			bad := func(msg string) {
				ok = false
				c.Fail(c.fn(fn), c.P.FuncPos(fn), msg, pathTrace(ev, p))
			}
			if p.Exit != ExitReturn || len(p.Rets) != 1 || last == nil || ctx == nil {
				bad("LastError() must return on every path")
				continue
			}
			errs := eventsWhere(p, func(x *Event) bool { return isCall(x, "Err") && x.Recv == ctx })
			for _, x := range impure(p) {
				if !isCall(x, "Err") {
					bad("LastError() must not have effects")
				}
			}
			switch p.State.Facts.Truth(ts, ts.Cmp("!=", last, ts.Nil(nil))) {
			case triT:
				if p.Rets[0] != last {
					bad("a recorded error must be returned as it is, whatever the state of the context: an attempt whose context was cancelled would otherwise see context.Canceled next to the previous attempt's result")
				}
			case triF:
				var cerr *Event
				for _, x := range errs {
					if p.State.Facts.Truth(ts, ts.Cmp("!=", x.Res[0], ts.Nil(nil))) == triT {
						cerr = x
					}
				}
				isCtxErr := false
				for _, x := range errs {
					if p.Rets[0] == x.Res[0] {
						isCtxErr = true
					}
				}
				if cerr != nil && !isCtxErr {
					bad("with no recorded error a cancelled context's error is reported")
				}
				if cerr == nil && !(p.Rets[0] == last || p.Rets[0].IsNilConst() || isCtxErr) {
					bad("with no recorded error and a live context LastError() is nil")
				}
			default:
				bad("LastError() does not depend on whether an error was recorded")
			}
		}
		if ok && len(ps) > 0 {
			c.Ok(c.fn(fn), c.P.FuncPos(fn), "recorded error if any, else the context's error")
		}
	}
	// IsCanceled() and Canceled() speak about the execution's own context and nothing else: the stored cancel result is
	// shared by every copy of the execution (an inner Timeout's stale result would make an outer scope look cancelled),
	// and Canceled() must be the channel that IsCanceled() describes
	for _, sp := range []struct{ m, doc string }{{"IsCanceled", "ctx.Err() != nil"}, {"Canceled", "ctx.Done()"}} {
		fn := c.P.Func("failsafe.(*execution)." + sp.m)
		if fn == nil {
			c.Unresolved("failsafe.(*execution)."+sp.m, "not found")
			continue
		}
		ev := NewEvaluator(c.P, EvalConfig{DecideReturns: sp.m == "IsCanceled"})
		ts := ev.TS
		ok := true
		ps := ev.Run(fn)
		e := ev.Param(fn, fn.Params[0].Name())
		ctx := ev.LoadField(ev.NewState(), e, "ctx")
		for _, p := range ps {
			good := p.Exit == ExitReturn && len(p.Rets) == 1 && len(impure(p)) == 0 && ctx != nil
			if good && sp.m == "IsCanceled" {
				errs := eventsWhere(p, func(x *Event) bool { return isCall(x, "Err") && x.Recv == ctx })
				good = len(errs) >= 1
				if good {
					want := p.State.Facts.Truth(ts, ts.Cmp("!=", errs[0].Res[0], ts.Nil(nil)))
					good = want != triU && p.State.Facts.Truth(ts, p.Rets[0]) == want
				}
			}
			if good && sp.m == "Canceled" {
				r := p.Rets[0]
				good = r.Op == "app" && hasPrefix(r.Aux, "Done@") && len(r.Args) == 1 && r.Args[0] == ctx
			}
			if !good {
				ok = false
				c.Fail(c.fn(fn), c.P.FuncPos(fn), sp.m+"() must be exactly "+sp.doc+" of the execution's own context", pathTrace(ev, p))
			}
		}
		if ok && len(ps) > 0 {
			c.Ok(c.fn(fn), c.P.FuncPos(fn), sp.doc)
		}
	}
	for _, sp := range []struct{ m, field string }{{"ElapsedTime", "startTime"}, {"ElapsedAttemptTime", "attemptStartTime"}} {
		fn := c.P.Func("failsafe.(*execution)." + sp.m)
		if fn == nil {
			c.Unresolved("failsafe.(*execution)."+sp.m, "not found")
			continue
		}
		ev := NewEvaluator(c.P, EvalConfig{})
		ok := true
		ps := ev.Run(fn)
		for _, p := range ps {
			sn := eventsWhere(p, func(x *Event) bool { return isCall(x, "Since") })
			if p.Exit != ExitReturn || len(sn) != 1 || loadedField(sn[0].Args[0]) != sp.field || p.Rets[0] != sn[0].Res[0] {
				ok = false
				c.Fail(c.fn(fn), c.P.FuncPos(fn), sp.m+"() must be time.Since("+sp.field+")", pathTrace(ev, p))
			}
		}
		if ok && len(ps) > 0 {
			c.Ok(c.fn(fn), c.P.FuncPos(fn), "time.Since("+sp.field+")")
		}
	}
	for _, sp := range []struct {
		m, op string
	}{{"IsFirstAttempt", "=="}, {"IsRetry", ">"}} {
		fn := c.P.Func("failsafe.(*execution)." + sp.m)
		if fn == nil {
			c.Unresolved("failsafe.(*execution)."+sp.m, "not found")
			continue
		}
		ev := NewEvaluator(c.P, EvalConfig{DecideReturns: true})
		ts := ev.TS
		ok := true
		ps := ev.Run(fn)
		for _, p := range ps {
			var at *T
			for _, x := range p.Events() {
				if isCall(x, "Load") && loadedField(x.Recv) == "attempts" {
					at = x.Res[0]
				}
			}
			if at == nil {
				ok = false
				c.Fail(c.fn(fn), c.P.FuncPos(fn), sp.m+" must be derived from the attempts counter", pathTrace(ev, p))
				continue
			}
			for _, F := range p.State.Facts.Refine(ts, ts.Cmp("==", at, ts.LinConst(1, at.Typ)), ts.Cmp(">", at, ts.LinConst(1, at.Typ))) {
				want := F.Truth(ts, ts.Cmp(sp.op, at, ts.LinConst(1, at.Typ)))
				if got := F.Truth(ts, p.Rets[0]); got != want || want == triU {
					ok = false
					c.Fail(c.fn(fn), c.P.FuncPos(fn), fmt.Sprintf("%s ⇔ attempts %s 1: expected %s, code yields %s", sp.m, sp.op, want, got), "row: "+F.String())
				}
			}
		}
		if ok && len(ps) > 0 {
			c.Ok(c.fn(fn), c.P.FuncPos(fn), sp.m+" ⇔ attempts "+sp.op+" 1")
		}
	}
}

func c17RecordCallers(c *Ctx) {
	c.Rule("executions")
	ix := BuildIndex(c.P)
	rec := c.P.Func("failsafe.(*execution).record")
	if rec == nil {
		// no record() helper: the counter is bumped where record() used to be called; C17.counters allows that bump
		// only in the leaf and the leaf rule checks it happens once, after the user function
		if leafFunction(c) != nil {
			c.Ok("failsafe.(*execution).record#callers", "", "the executions counter is bumped in the leaf itself (no record() helper)")
		} else {
			c.Unresolved("failsafe.(*execution).record", "not found")
		}
		return
	}
	var ns []string
	leaf := leafFunction(c)
	onlyLeaf := leaf != nil
	for _, cal := range ix.Callers[rec] {
		ns = append(ns, c.fn(cal))
		if cal != leaf {
			onlyLeaf = false
		}
	}
	sort.Strings(ns)
	if len(ns) != 1 || !onlyLeaf {
		c.Fail("failsafe.(*execution).record#callers", "", "record() must be called only by the leaf around the user function (rejected attempts never reach it and must not count as executions); callers: "+strings.Join(ns, ", "), "")
	} else {
		c.Ok("failsafe.(*execution).record#callers", "", "only the leaf calls record()")
	}
}

// ---- C15 ------------------------------------------------------------------------------------------------

func rulesC15(c *Ctx) {
	asyncResultRules(c)
	executeAsyncRule(c)
	c.Rule("same-path")
	c01Outermost(c)
	c16Executor(c)
	execStateMethods(c, map[string]bool{"Cancel": true, "InitializeRetry": true, "RecordResult": true, "IsCanceledWithResult": true, "isCanceledWithResult": true,
		"CopyForCancellable": true, "CopyForHedge": true, "copy": true})
	c.Rule("cancel-reported")
	retryLoop(c, map[string]bool{"recheck": true, "returns": true})
	c09Loop(c)
	witnessRules(c, "C15")
}

// ---- C08 ------------------------------------------------------------------------------------------------

func rulesC08(c *Ctx) {
	c08Blocking(c)
	// "when the execution's context is cancelled …": the context executions run under is the one the caller gave
	c01WithContext(c)
	c.Rule("retry")
	retryLoop(c, map[string]bool{"recheck": true, "returns": true, "wait": true})
	c10Apply(c)
	c09Loop(c)
	execStateMethods(c, nil)
	executeAsyncRule(c)
	asyncResultRules(c)
	c05Wait(c)
	c17Flags(c)
	c06Acquire(c)
	c05Executor(c)
	c06Pairing(c)
	c07Race(c)
}

// reviewedBlocking: the blocking operations that are not interruptible by a cancellation case of their own, each with
// the reason it cannot strand a cancelled execution.
var reviewedBlocking = map[string]string{
	"hedgepolicy.(*executor).Apply#select":            "hedge wait on result channel / delay timer: attempt contexts derive from the parent (CopyFor* checked) and the parent is re-tested right after each wait (C09.loop)",
	"hedgepolicy.(*executor).Apply#recv":              "final hedge wait on the result channel: same argument",
	"hedgepolicy.(*executor).Apply#send":              "single send on a capacity-1 channel guarded by a once-only CAS (C09.attempt): cannot block",
	"failsafe.(*executionResult).Get#recv":            "Get blocks until the execution is done, by contract",
	"bulkhead.(*bulkhead).ReleasePermit#recv":         "receives a permit that the caller holds: cannot block when paired (C06.pairing)",
	"ratelimiter.(*rateLimiter).AcquirePermits#sleep": "AcquirePermits(nil, …): no context given, documented uninterruptible",
}

// c08Blocking: inventory of every blocking operation in the library; each is either interruptible by the
// execution's / caller's cancellation or on the reviewed list.
func c08Blocking(c *Ctx) {
	c.Rule("blocking-inventory")
	reviewed := reviewedBlocking
	n := 0
	ok := true
	seen := map[string]bool{}
	ix := BuildIndex(c.P)
	for _, fn := range c.P.Funcs {
		for _, b := range fn.Blocks {
			for _, in := range b.Instrs {
				kind := ""
				var sel *ssa.Select
				switch x := in.(type) {
				case *ssa.Select:
					if x.Blocking {
						kind, sel = "select", x
					}
				case *ssa.UnOp:
					if x.Op == token.ARROW {
						kind = "recv"
					}
				case *ssa.Send:
					kind = "send"
				case ssa.CallInstruction:
					if cal := calleeOf(x.Common()); cal != nil {
						switch qualName(cal) {
						case "time.Sleep":
							kind = "sleep"
						case "(*sync.WaitGroup).Wait", "(*sync.Cond).Wait":
							kind = "wait"
						}
					}
				}
				if kind == "" {
					continue
				}
				n++
				key := c.fn(fn) + "#" + kind
				seen[key] = true
				if _, isReviewed := reviewed[key]; isReviewed {
					continue
				}
				if sel != nil && selectHasCancelCase(ix, fn, sel) {
					continue
				}
				// the operation sits in a helper that only a reviewed function (for an operation of this kind) reaches;
				// a reviewed select covers the receive it was split into and vice versa
				inReviewed := false
				for rk := range reviewed {
					i := strings.LastIndex(rk, "#")
					rkind := rk[i+1:]
					if (rkind == kind || (rkind == "select" && kind == "recv") || (rkind == "recv" && kind == "select")) && ix.WithinNames(fn, rk[:i]) {
						inReviewed = true
					}
				}
				if inReviewed {
					continue
				}
				ok = false
				c.Fail(key, c.P.Pos(in.Pos()), "a blocking "+kind+" that is neither interruptible by cancellation (no case on a Done()/Canceled() channel) nor on the reviewed list: a cancelled execution could wait here", "")
			}
		}
	}
	c.Floor("blocking operations", n, 6)
	if ok {
		var ks []string
		for k := range seen {
			ks = append(ks, k)
		}
		sort.Strings(ks)
		c.Ok("library#blocking-operations", "", fmt.Sprintf("%d blocking operations; every select not on the reviewed list has a Done()/Canceled() case: %s", n, strings.Join(ks, "; ")))
	}
}

// selectHasCancelCase: some receive case is on the result of a Done() / Canceled() call.
func selectHasCancelCase(ix *Index, fn *ssa.Function, sel *ssa.Select) bool {
	for _, s := range sel.States {
		if s.Dir != types.RecvOnly {
			continue
		}
		if isCancelChan(ix, fn, s.Chan, 0) {
			return true
		}
	}
	return false
}

// everySiteArg: fn is not a root, all its call sites are known, and at each of them the argument bound to parameter p
// satisfies ok.
func everySiteArg(ix *Index, fn *ssa.Function, p *ssa.Parameter, ok func(caller *ssa.Function, a ssa.Value) bool) bool {
	pi := -1
	for i, q := range fn.Params {
		if q == p {
			pi = i
		}
	}
	if pi < 0 || ix.isRoot(fn) {
		return false
	}
	sites := 0
	for _, caller := range ix.Refs[fn] {
		before := sites
		for _, b := range caller.Blocks {
			for _, in := range b.Instrs {
				cc, isCall := in.(ssa.CallInstruction)
				if !isCall {
					continue
				}
				cal := calleeOf(cc.Common())
				if cal == nil || origin(cal) != origin(fn) {
					continue
				}
				sites++
				if pi >= len(cc.Common().Args) || !ok(caller, cc.Common().Args[pi]) {
					return false
				}
			}
		}
		if sites == before {
			return false // fn is taken as a value here: its call sites are not all known
		}
	}
	return sites > 0
}

// isCancelChan: v is the result of a Done() / Canceled() call, or a channel parameter of fn that receives such a
// channel at every call site of fn.
func isCancelChan(ix *Index, fn *ssa.Function, v ssa.Value, depth int) bool {
	if depth > 3 {
		return false
	}
	switch x := v.(type) {
	case *ssa.Call:
		name := ""
		if x.Call.IsInvoke() {
			name = x.Call.Method.Name()
		} else if cal := calleeOf(&x.Call); cal != nil {
			name = cal.Name()
		} else if fp, isParam := x.Call.Value.(*ssa.Parameter); isParam {
			// the channel comes from a function handed in: every call site must hand in a Done / Canceled method
			return everySiteArg(ix, fn, fp, func(caller *ssa.Function, a ssa.Value) bool {
				if mc, isMC := a.(*ssa.MakeClosure); isMC {
					a = mc.Fn
				}
				f, isF := a.(*ssa.Function)
				if !isF {
					return false
				}
				n := strings.TrimSuffix(strings.TrimSuffix(f.Name(), "$thunk"), "$bound")
				return n == "Done" || n == "Canceled"
			})
		}
		return name == "Done" || name == "Canceled"
	case *ssa.ChangeType:
		return isCancelChan(ix, fn, x.X, depth)
	case *ssa.Phi:
		// chosen among several: every alternative must be a cancellation channel
		for _, e := range x.Edges {
			if !isCancelChan(ix, fn, e, depth+1) {
				return false
			}
		}
		return len(x.Edges) > 0
	case *ssa.Parameter:
		pi := -1
		for i, p := range fn.Params {
			if p == x {
				pi = i
			}
		}
		if pi < 0 || ix.isRoot(fn) {
			return false
		}
		sites := 0
		for _, caller := range ix.Refs[fn] {
			before := sites
			defer func() { _ = before }()
			for _, b := range caller.Blocks {
				for _, in := range b.Instrs {
					cc, isCall := in.(ssa.CallInstruction)
					if !isCall || origin(calleeOf(cc.Common())) != origin(fn) || calleeOf(cc.Common()) == nil {
						continue
					}
					sites++
					if pi >= len(cc.Common().Args) {
						return false
					}
					if !isCancelChan(ix, caller, cc.Common().Args[pi], depth+1) {
						// a wait handed to the helper by a function whose own wait of this kind is reviewed: the reviewed
						// wait, moved into the helper
						inReviewed := false
						for rk := range reviewedBlocking {
							i := strings.LastIndex(rk, "#")
							if (rk[i+1:] == "select" || rk[i+1:] == "recv") && ix.WithinNames(caller, rk[:i]) {
								inReviewed = true
							}
						}
						if !inReviewed {
							return false
						}
					}
				}
			}
			if sites == before {
				return false // fn is taken as a value here: its call sites are not all known
			}
		}
		return sites > 0
	}
	return false
}
