package main

// C02 — Retry: bounded attempts, stop conditions, final result, private budget (DESIGN §3 C02).

import (
	"fmt"
	"go/types"
	"strings"

	"golang.org/x/tools/go/ssa"
)

func rulesC02(c *Ctx) {
	c.Rule("loop")
	retryLoop(c, map[string]bool{"loop": true, "returns": true})
	c.Rule("decision")
	retryDecision(c, map[string]bool{"decision": true})
	c02Count(c)
	c02Budget(c)
	buildersStore(c, "retrypolicy")
	delegatingBuilders(c, "retrypolicy")
	// success stops the loop: PostExecute's success branch yields Done=true
	c01PostExecute(c)
	c01Verdict(c)
	// "only after an outcome it classifies as a failure", "abort-matching outcome": the shared classification
	c12IsFailure(c)
	c12Registrars(c)
	c12AnyOf(c)
	c12Shared(c)
	c12Unwrap(c)
	// "never after the max duration has elapsed": the duration budget is measured from the execution's start time, which
	// every copy an enclosing policy makes of the execution (a hedge's attempt, a timeout's child) must carry unchanged
	c.Rule("execution-protocol")
	execStateMethods(c, map[string]bool{"CopyForHedge": true, "CopyForCancellable": true, "copy": true, "CopyWithResult": true})
}

// c02Count: the retry executor's mutable fields are written only by the executor's own slot methods (and
// helpers they call); nothing else in the program touches the budget.
func c02Count(c *Ctx) {
	c.Rule("count")
	ix := BuildIndex(c.P)
	tab := c.ExecTable()
	info := tab["retrypolicy"]
	if info == nil {
		c.Unresolved("retrypolicy.executor", "not resolved")
		return
	}
	tn := typeCanonName(info.Named.Obj())
	n := 0
	owners := map[*types.TypeName]bool{info.Named.Obj(): true}
	fields := execStateFields(c.P, "retrypolicy", info.Named)
	for _, sf := range execStateFieldsEx(c.P, "retrypolicy", info.Named) {
		if on := c.P.NamedType("retrypolicy", sf.Part); on != nil {
			owners[on.Obj()] = true
		}
	}
	var counter FieldRef
	for _, fr := range fields {
		if fr.Field == "failedAttempts" {
			counter = fr
		}
		// a field only ever set where the executor is built is part of its wiring, not of its per-execution state
		wired := len(ix.Writers(fr)) > 0
		for _, w := range ix.Writers(fr) {
			if !ix.Within(w, func(f *ssa.Function) bool { return canonName(f) == "ToExecutor" }) {
				wired = false
			}
		}
		if wired && fr.Field != "failedAttempts" {
			continue
		}
		n++
		ok := true
		var ws []string
		for _, w := range ix.Writers(fr) {
			ws = append(ws, c.fn(w))
			if !ix.Within(w, func(f *ssa.Function) bool {
				rn := namedOfPtr(recvType(f))
				return rn != nil && owners[rn.Obj()]
			}) {
				ok = false
				c.Fail("retrypolicy."+tn+"."+fr.Field, c.P.FuncPos(w), fmt.Sprintf("per-execution retry state %s is written by %s, which is not a method of the retry executor", fr.Field, c.fn(w)), "")
			}
		}
		if ok {
			c.Ok("retrypolicy."+tn+"."+fr.Field, "", "written only by executor methods: "+strings.Join(ws, ", "))
		}
	}
	c.Floor("mutable retry executor fields", n, 3)
	// failedAttempts specifically: only OnFailure writes it (decision table shows +1 per call)
	ws := ix.Writers(counter)
	onlyOnFailure := len(ws) >= 1
	for _, w := range ws {
		if !ix.Within(w, func(f *ssa.Function) bool { return f == info.Slots["OnFailure"] }) {
			onlyOnFailure = false
		}
	}
	if !onlyOnFailure {
		var names []string
		for _, w := range ws {
			names = append(names, c.fn(w))
		}
		c.Fail("retrypolicy."+tn+".failedAttempts#single-writer", "", "the failed-attempt counter must be written by the executor's OnFailure only; writers: "+strings.Join(names, ", "), "")
	} else {
		c.Ok("retrypolicy."+tn+".failedAttempts#single-writer", c.P.FuncPos(ws[0]), "only OnFailure writes the counter; it starts at zero in the fresh executor")
	}
}

// execStateFields: the mutable per-execution fields of a policy executor: its own non-embedded fields plus the
// fields of same-package structs it holds by value (state grouped into a part is still its state). References
// are attributed to the executor type, as fieldRefOfAddr attributes the accesses.
type stateField struct {
	Ref  FieldRef
	Part string     // name of the struct type the field is declared in
	Typ  types.Type // the field's type
}

func execStateFieldsEx(p *Program, pkg string, named *types.Named) []stateField {
	var out []stateField
	var walk func(n *types.Named, depth int)
	walk = func(n *types.Named, depth int) {
		s, ok := n.Underlying().(*types.Struct)
		if !ok || depth > 3 {
			return
		}
		for i := 0; i < s.NumFields(); i++ {
			f := s.Field(i)
			if en, ok := f.Type().(*types.Named); ok && en.Obj().Pkg() == named.Obj().Pkg() {
				if _, isStruct := en.Underlying().(*types.Struct); isStruct {
					walk(en, depth+1)
					continue
				}
			}
			if f.Embedded() {
				continue
			}
			out = append(out, stateField{Ref: canonRef(FieldRef{Type: typeCanonName(named.Obj()), Pkg: pkg, Field: f.Name()}), Part: n.Obj().Name(), Typ: f.Type()})
		}
	}
	walk(named, 0)
	return out
}

func execStateFields(p *Program, pkg string, named *types.Named) []FieldRef {
	var out []FieldRef
	for _, sf := range execStateFieldsEx(p, pkg, named) {
		out = append(out, sf.Ref)
	}
	return out
}

// recvType returns the receiver type of a method (of the enclosing method for anonymous functions).
func recvType(fn *ssa.Function) types.Type {
	for fn.Parent() != nil {
		fn = fn.Parent()
	}
	if r := fn.Signature.Recv(); r != nil {
		return r.Type()
	}
	return nil
}

// c02Budget: a fresh executor per ToExecutor call (C01.self re-checked for retry) and an immutable
// configuration: config / Base*Policy fields are stored only by builder methods and constructors.
func c02Budget(c *Ctx) {
	c.Rule("budget")
	c01Self(c)
	c.Rule("budget")
	configImmutable(c, "retrypolicy")
	buildCopiesConfig(c)
	// execute obtains executors per execution: ToExecutor is invoked inside execute (C01.compose) and nowhere cached
	ix := BuildIndex(c.P)
	for _, pkg := range []string{"retrypolicy"} {
		for _, f := range c.P.Funcs {
			if f.Pkg == nil || f.Pkg.Pkg.Name() != pkg {
				continue
			}
			_ = ix
		}
	}
}

// configImmutable: every field of pkg.config and of the policy.Base*Policy structs is stored only from
// builder methods, registrars and constructors.
func configImmutable(c *Ctx, pkg string) {
	ix := BuildIndex(c.P)
	type target struct{ rel, typ string }
	targets := []target{{pkg, "config"}, {"policy", "BaseFailurePolicy"}, {"policy", "BaseDelayablePolicy"}, {"policy", "BaseAbortablePolicy"}}
	n := 0
	for _, t := range targets {
		for _, f := range c.P.structFields(t.rel, t.typ) {
			n++
			relName := t.rel
			if i := strings.LastIndex(relName, "/"); i >= 0 {
				relName = relName[i+1:]
			}
			fr := canonRef(FieldRef{Type: t.typ, Pkg: relName, Field: f.Name()})
			ok := true
			for _, wa := range ix.WriteAccesses(fr) {
				w := wa.Fn
				if ctorOrBuilderWrite(ix, wa, nil) {
					continue
				}
				ok = false
				c.Fail(fr.String(), c.P.FuncPos(w), fmt.Sprintf("configuration field %s is written by %s, which is neither a builder method nor a constructor: built policies must be immutable", fr, c.fn(w)), "")
			}
			if ok {
				c.Ok(fr.String(), "", "stored only by builder methods / constructors")
			}
		}
	}
	c.Floor("configuration fields of "+pkg, n, 8)
	// the built policy object itself: its fields are set when it is built and never afterwards (the breaker's
	// state is the one documented exception, owned by transitionTo under the mutex)
	policyType := map[string]string{"retrypolicy": "retryPolicy", "hedgepolicy": "hedgePolicy", "fallback": "fallback", "timeout": "timeout",
		"cachepolicy": "cachePolicy", "ratelimiter": "rateLimiter", "bulkhead": "bulkhead", "circuitbreaker": "circuitBreaker"}[pkg]
	for _, f := range c.P.structFields(pkg, policyType) {
		fr := canonRef(FieldRef{Type: policyType, Pkg: pkg, Field: f.Name()})
		ok := true
		for _, wa := range ix.WriteAccesses(fr) {
			w := wa.Fn
			if ctorOrBuilderWrite(ix, wa, func(top *ssa.Function) bool {
				return pkg == "circuitbreaker" && f.Name() == "state" && canonName(top) == "transitionTo"
			}) {
				continue
			}
			ok = false
			c.Fail(fr.String(), c.P.FuncPos(w), fmt.Sprintf("field %s of the built policy is written by %s after construction: shared policy instances must not be modified by executions", fr, c.fn(w)), "")
		}
		if ok {
			c.Ok(fr.String(), "", "set only at construction")
		}
	}
}

// buildCopiesConfig: the policies whose Build takes a snapshot of the builder's configuration (retry, hedge,
// fallback, timeout — confirmed by reading; the other four alias the builder, an upstream TODO) must keep doing
// so: the built policy's config is a fresh object equal to the builder's fields, not the builder itself, so a
// builder that is modified or specialised after Build cannot change a policy that is already in use.
func buildCopiesConfig(c *Ctx) {
	c.Rule("build-snapshot")
	n := 0
	for _, pkg := range []string{"retrypolicy", "hedgepolicy", "fallback", "timeout"} {
		fn := c.P.Func(pkg + ".(*config).Build")
		if fn == nil {
			c.Unresolved(pkg+".(*config).Build", "not found")
			continue
		}
		ev := NewEvaluator(c.P, EvalConfig{})
		ps := ev.Run(fn)
		recv := ev.Param(fn, fn.Params[0].Name())
		ok := ev.Err == nil && len(ps) > 0
		for _, p := range ps {
			if p.Exit != ExitReturn {
				continue
			}
			// Build reads the builder, it does not configure it: a default installed on the builder's (shared) condition
			// sets at Build time becomes permanent for everything built from that builder later. The hedge's default cancel
			// condition, installed only while none is configured, is the one upstream exception.
			for _, e := range p.Events() {
				if e.Kind != EvCall || !buildRegistrars[e.Method] {
					continue
				}
				if pkg == "hedgepolicy" && e.Method == "AbortIf" {
					continue
				}
				ok = false
				c.Fail(c.fn(fn)+"@"+pkg, c.P.FuncPos(fn), "Build calls "+e.Method+" on the builder: configuring the builder at Build time changes every policy built from it afterwards", pathTrace(ev, p))
			}
			r := p.Rets[0]
			cfg := ev.LoadField(p.State, r, "config")
			if r.Op != "alloc" || cfg == nil || cfg.Op != "alloc" || cfg == recv {
				ok = false
				c.Fail(c.fn(fn)+"@"+pkg, c.P.FuncPos(fn), "Build must give the policy its own snapshot of the configuration (a fresh copy), not the builder itself: otherwise changing or re-using the builder after Build changes a policy that is already in use", pathTrace(ev, p))
				continue
			}
			// the snapshot's scalar fields equal the builder's
			if st, isS := recv.Typ.Underlying().(*types.Pointer); isS {
				if sst, isSt := st.Elem().Underlying().(*types.Struct); isSt {
					for i := 0; i < sst.NumFields(); i++ {
						f := sst.Field(i).Name()
						if ev.LoadField(p.State, cfg, f) != ev.LoadField(ev.NewState(), recv, f) {
							ok = false
							c.Fail(c.fn(fn)+"@"+pkg, c.P.FuncPos(fn), "the configuration snapshot differs from the builder in field "+f, pathTrace(ev, p))
						}
					}
				}
			}
		}
		if ok {
			n++
			c.Ok(c.fn(fn)+"@"+pkg, c.P.FuncPos(fn), "the built policy holds a fresh snapshot of the builder's configuration")
		}
	}
	c.Floor("snapshotting Build methods", n, 4)
}

// buildRegistrars: the condition registrars of the shared policy bases.
var buildRegistrars = map[string]bool{"HandleErrors": true, "HandleErrorTypes": true, "HandleResult": true, "HandleIf": true,
	"AbortOnErrors": true, "AbortOnErrorTypes": true, "AbortOnResult": true, "AbortIf": true}
