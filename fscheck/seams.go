package main

// Collaborator seams. A behaviour-preserving restructuring may route a call that used to be direct through a field
// or a package variable: a function-typed field set to time.NewTimer where the object is built, an interface-typed
// field holding the very *config the object already reaches through another field, a package variable bound once
// to util.MergeContexts. What such a seam holds is decided where the object is built, not where it is used, so the
// evaluator asks this table when it loads a field or variable it knows nothing about:
//
//   - every store to the field, anywhere in the program, stores the same function constant      → that function;
//   - every store stores a value of one concrete type through which the interface is satisfied   → the load keeps
//     its symbolic value but gets that concrete type, so the method call is bound by type;
//   - every store stores "what a sibling field of the same literal holds, then these fields"     → the load is that
//     path from the same object (e.notifier ≡ e.retryPolicy.config).
//
// A field with no store, or with stores that disagree, is not a seam and stays symbolic.

import (
	"go/types"
	"strings"

	"golang.org/x/tools/go/ssa"
)

type pathStep struct {
	structType types.Type // the struct (or pointer to struct) the field is selected from
	idx        int
	ptr        bool // the step loads through a pointer field (FieldAddr + load) rather than a value field
}

type seam struct {
	fn   *ssa.Function
	typ  types.Type
	via  string     // sibling field key whose value the path starts from ("" = none)
	viaT types.Type // struct type of the object (for faddr)
	viaI int
	path []pathStep
	bad  bool
	n    int
}

func (s *seam) same(o *seam) bool {
	if s.fn != o.fn || s.via != o.via || len(s.path) != len(o.path) {
		return false
	}
	if (s.typ == nil) != (o.typ == nil) || (s.typ != nil && !types.Identical(originType(s.typ), originType(o.typ))) {
		return false
	}
	for i := range s.path {
		if s.path[i].idx != o.path[i].idx || s.path[i].ptr != o.path[i].ptr {
			return false
		}
	}
	return true
}

// originType: the generic origin of an instantiated named type (or pointer to one), so that stores seen in
// different instantiations compare equal.
func originType(t types.Type) types.Type {
	if p, ok := t.(*types.Pointer); ok {
		return types.NewPointer(originType(p.Elem()))
	}
	if n, ok := t.(*types.Named); ok {
		return n.Origin()
	}
	return t
}

func isSeamType(t types.Type) bool {
	switch t.Underlying().(type) {
	case *types.Signature, *types.Interface:
		return true
	}
	return false
}

func inRepoConcrete(t types.Type) bool {
	if p, ok := t.(*types.Pointer); ok {
		t = p.Elem()
	}
	n, ok := t.(*types.Named)
	if !ok || n.Obj().Pkg() == nil || !strings.HasPrefix(n.Obj().Pkg().Path(), modPath) {
		return false
	}
	_, isIface := n.Underlying().(*types.Interface)
	return !isIface
}

type fstore struct {
	fa  *ssa.FieldAddr
	val ssa.Value
}

func (p *Program) buildSeams() {
	p.seamField = map[string]*seam{}
	p.seamGlobal = map[string]*seam{}
	note := func(m map[string]*seam, key string, s *seam) {
		if old := m[key]; old == nil {
			s.n = 1
			m[key] = s
		} else if old.bad || s.bad || !old.same(s) {
			old.bad = true
		} else {
			old.n++
		}
	}
	for _, fn := range p.Funcs {
		// stores of this function grouped by the object they initialise (for sibling aliases)
		byBase := map[ssa.Value][]fstore{}
		for _, b := range fn.Blocks {
			for _, in := range b.Instrs {
				st, ok := in.(*ssa.Store)
				if !ok {
					continue
				}
				if fa, isFA := st.Addr.(*ssa.FieldAddr); isFA {
					byBase[fa.X] = append(byBase[fa.X], fstore{fa, st.Val})
				}
				if g, isG := st.Addr.(*ssa.Global); isG && g.Pkg != nil && isSeamType(g.Type().(*types.Pointer).Elem()) {
					key := g.Pkg.Pkg.Name() + "." + g.Name()
					v := stripConv(st.Val)
					if f, isF := v.(*ssa.Function); isF && len(f.FreeVars) == 0 && fn.Name() == "init" {
						note(p.seamGlobal, key, &seam{fn: origin(f)})
					} else {
						note(p.seamGlobal, key, &seam{bad: true})
					}
				}
			}
		}
		for _, stores := range byBase {
			for _, s := range stores {
				key, ft := fieldKey(s.fa.X.Type(), s.fa.Field)
				if ft == nil || !isSeamType(ft) {
					continue
				}
				v := stripConv(s.val)
				switch x := v.(type) {
				case *ssa.Function:
					if len(x.FreeVars) == 0 {
						note(p.seamField, key, &seam{fn: origin(x)})
						continue
					}
				case *ssa.Const:
					if x.Value == nil && !inRepoConcrete(x.Type()) {
						// explicit nil / zero of the seam type: same as not stored
						continue
					}
				}
				// the value of a sibling field of the same literal, followed by field selections
				if sm := siblingPath(s.fa, stores, v); sm != nil {
					if _, isIface := ft.Underlying().(*types.Interface); isIface && inRepoConcrete(v.Type()) {
						sm.typ = v.Type()
					}
					note(p.seamField, key, sm)
					continue
				}
				if _, isIface := ft.Underlying().(*types.Interface); isIface && inRepoConcrete(v.Type()) {
					note(p.seamField, key, &seam{typ: v.Type()})
					continue
				}
				// the result of a library constructor that always returns one concrete library type behind the interface
				// (random: util.NewRandom() → defaultRandom{})
				if call, isCall := v.(*ssa.Call); isCall {
					if sm := p.callResultSeam(call, ft); sm != nil {
						note(p.seamField, key, sm)
						continue
					}
				}
				// a parameter of an internal constructor: what every caller passes
				if prm, isP := v.(*ssa.Parameter); isP {
					if sm := p.paramSeam(prm, ft, 0); sm != nil {
						note(p.seamField, key, sm)
						continue
					}
				}
				note(p.seamField, key, &seam{bad: true})
			}
		}
	}
	// a field whose address escapes (stored through elsewhere) is caught by the store scan above; a global that
	// is also stored outside init was marked bad there
}

// siblingPath: v is root.f1.f2… where root is exactly the value another field of the same object is initialised
// with in the same function.
func siblingPath(self *ssa.FieldAddr, stores []fstore, v ssa.Value) *seam {
	var path []pathStep
	cur := v
	for depth := 0; depth < 4; depth++ {
		for _, s := range stores {
			if stripConv(s.val) == cur && s.fa != self && !isSeamType(s.fa.Type().(*types.Pointer).Elem()) {
				k, _ := fieldKey(s.fa.X.Type(), s.fa.Field)
				// reverse the collected path
				for i, j := 0, len(path)-1; i < j; i, j = i+1, j-1 {
					path[i], path[j] = path[j], path[i]
				}
				return &seam{via: k, viaT: s.fa.X.Type(), viaI: s.fa.Field, path: path}
			}
		}
		switch x := cur.(type) {
		case *ssa.UnOp:
			fa, ok := x.X.(*ssa.FieldAddr)
			if !ok {
				return nil
			}
			path = append(path, pathStep{structType: fa.X.Type(), idx: fa.Field, ptr: true})
			cur = fa.X
		case *ssa.Field:
			path = append(path, pathStep{structType: x.X.Type(), idx: x.Field})
			cur = x.X
		default:
			return nil
		}
	}
	return nil
}

// seamLoad: what loading the never-written cell addr yields according to the seam table (nil = nothing known).
func (ev *Evaluator) seamLoad(st *State, addr *T, typ types.Type) *T {
	if ev.P.seamField == nil {
		ev.P.buildSeams()
	}
	switch addr.Op {
	case "global":
		if s := ev.P.seamGlobal[addr.Aux]; s != nil && !s.bad && s.fn != nil {
			return ev.TS.intern(&T{Op: "func", Fn: s.fn, Aux: qualName(s.fn), Typ: s.fn.Type()})
		}
	case "faddr":
		s := ev.P.seamField[addr.Aux]
		if s == nil || s.bad {
			return nil
		}
		if s.fn != nil {
			return ev.TS.intern(&T{Op: "func", Fn: s.fn, Aux: qualName(s.fn), Typ: s.fn.Type()})
		}
		if s.via != "" {
			base := addr.Args[0]
			_, vt := fieldKey(s.viaT, s.viaI)
			if vt == nil {
				return nil
			}
			cur := ev.load(st, ev.faddr(base, s.viaT, s.viaI), vt)
			for _, step := range s.path {
				_, ft := fieldKey(step.structType, step.idx)
				if ft == nil {
					return nil
				}
				if step.ptr {
					cur = ev.load(st, ev.faddr(cur, step.structType, step.idx), ft)
				} else {
					k, _ := fieldKey(step.structType, step.idx)
					if cur.Op == "struct" && step.idx < len(cur.Args) {
						cur = cur.Args[step.idx]
					} else {
						cur = ev.TS.intern(&T{Op: "fld", Aux: k, Args: []*T{cur}, Typ: ft})
					}
				}
			}
			return cur
		}
	}
	return nil
}

// seamType: the concrete type an interface-typed field is always initialised with (nil = unknown).
func (ev *Evaluator) seamType(addr *T) types.Type {
	if ev.P.seamField == nil {
		ev.P.buildSeams()
	}
	if addr.Op != "faddr" {
		return nil
	}
	if s := ev.P.seamField[addr.Aux]; s != nil && !s.bad && s.typ != nil {
		return s.typ
	}
	return nil
}

// bindByTermType: the method `name` of the concrete library type a receiver term is known to have (a value built in
// line, or what a seam holds); only methods the type declares itself.
func (ev *Evaluator) bindByTermType(t types.Type, name string) *ssa.Function {
	if t == nil || !inRepoConcrete(t) {
		return nil
	}
	ms := types.NewMethodSet(t)
	if _, isPtr := t.(*types.Pointer); !isPtr {
		if ms.Lookup(nil, name) == nil {
			ms = types.NewMethodSet(types.NewPointer(t))
		}
	}
	for i := 0; i < ms.Len(); i++ {
		sel := ms.At(i)
		if sel.Obj().Name() != name || len(sel.Index()) != 1 {
			continue
		}
		if f, ok := sel.Obj().(*types.Func); ok {
			return ev.P.Prog.FuncValue(f.Origin())
		}
	}
	return nil
}

// afterFuncArg: if the call arms a timer callback — time.AfterFunc itself, or a thin wrapper of the library that hands
// one of its own parameters to time.AfterFunc, called directly or through a collaborator seam — the callback argument.
// The call inside such a wrapper is not a site of its own (the wrapper's callers are).
func (p *Program) afterFuncArg(call *ssa.CallCommon) ssa.Value {
	if p.afterFuncLike == nil {
		p.afterFuncLike = map[*ssa.Function]int{}
		for _, fn := range p.Funcs {
			for _, b := range fn.Blocks {
				for _, in := range b.Instrs {
					c, isCall := in.(*ssa.Call)
					if !isCall {
						continue
					}
					if cal := calleeOf(&c.Call); cal == nil || qualName(cal) != "time.AfterFunc" || len(c.Call.Args) != 2 {
						continue
					}
					if prm, isP := c.Call.Args[1].(*ssa.Parameter); isP {
						for k, q := range fn.Params {
							if q == prm {
								p.afterFuncLike[origin(fn)] = k
							}
						}
					}
				}
			}
		}
	}
	cal := calleeOf(call)
	if cal == nil {
		return nil
	}
	k := -1
	if qualName(cal) == "time.AfterFunc" && len(call.Args) == 2 {
		k = 1
	} else if kk, isWrapper := p.afterFuncLike[origin(cal)]; isWrapper {
		k = kk
	}
	if k < 0 || k >= len(call.Args) {
		return nil
	}
	if prm, isP := call.Args[k].(*ssa.Parameter); isP {
		if _, inWrapper := p.afterFuncLike[origin(prm.Parent())]; inWrapper {
			return nil
		}
	}
	return call.Args[k]
}

// invokeTarget: the method an interface call is bound to when the interface is a collaborator seam: an unexported
// interface with one implementer, or an interface-typed field always initialised with one concrete library type.
func (p *Program) invokeTarget(c *ssa.CallCommon) *ssa.Function {
	if !c.IsInvoke() {
		return nil
	}
	if f := p.soleImplementer(c.Value.Type(), c.Method); f != nil {
		return origin(f)
	}
	if p.seamField == nil {
		if rawIndex {
			return nil
		}
		p.buildSeams()
	}
	if ld, isLoad := c.Value.(*ssa.UnOp); isLoad {
		if fa, isFA := ld.X.(*ssa.FieldAddr); isFA {
			k, _ := fieldKey(fa.X.Type(), fa.Field)
			if s := p.seamField[k]; s != nil && !s.bad && s.typ != nil && inRepoConcrete(s.typ) {
				ms := types.NewMethodSet(s.typ)
				if sel := ms.Lookup(c.Method.Pkg(), c.Method.Name()); sel != nil {
					if f, ok := sel.Obj().(*types.Func); ok {
						if g := p.Prog.FuncValue(f.Origin()); g != nil {
							return origin(g)
						}
					}
				}
			}
		}
	}
	return nil
}

func unexportedIface(t types.Type) bool {
	n, ok := t.(*types.Named)
	if !ok || n.Obj().Pkg() == nil || n.Obj().Exported() || !strings.HasPrefix(n.Obj().Pkg().Path(), modPath) {
		return false
	}
	_, isIface := n.Underlying().(*types.Interface)
	return isIface
}

// paramSeam: prm is a parameter of an unexported top-level function that is only ever called directly, and every call
// passes the same function constant (or a value of the same concrete library type for an interface-typed seam):
// newBuilder(limit, afterFunc) with `schedule: schedule` inside makes the schedule field a seam to afterFunc.
func (p *Program) paramSeam(prm *ssa.Parameter, ft types.Type, depth int) *seam {
	f := prm.Parent()
	if f == nil || f.Parent() != nil || depth > 2 || !p.InScope[f] {
		return nil
	}
	if ast := f.Name(); ast == "" || (ast[0] >= 'A' && ast[0] <= 'Z') || f.Signature.Recv() != nil {
		return nil
	}
	idx := -1
	for i, q := range f.Params {
		if q == prm {
			idx = i
		}
	}
	if idx < 0 {
		return nil
	}
	if p.ctorCalls == nil {
		p.ctorCalls = map[*ssa.Function][][]ssa.Value{}
		p.fnAsValue = map[*ssa.Function]bool{}
		for _, g := range p.Funcs {
			for _, b := range g.Blocks {
				for _, in := range b.Instrs {
					var callee ssa.Value
					if ci, isCall := in.(ssa.CallInstruction); isCall {
						cc := ci.Common()
						if sc := cc.StaticCallee(); sc != nil && !cc.IsInvoke() {
							callee = cc.Value
							p.ctorCalls[origin(sc)] = append(p.ctorCalls[origin(sc)], cc.Args)
						}
					}
					for _, op := range in.Operands(nil) {
						if op == nil || *op == nil || *op == callee {
							continue
						}
						if fv, isF := (*op).(*ssa.Function); isF {
							p.fnAsValue[origin(fv)] = true
						}
					}
				}
			}
		}
	}
	calls := p.ctorCalls[origin(f)]
	if len(calls) == 0 || p.fnAsValue[origin(f)] {
		return nil
	}
	var res *seam
	for _, args := range calls {
		if idx >= len(args) {
			return nil
		}
		a := stripConv(args[idx])
		var sm *seam
		switch x := a.(type) {
		case *ssa.Function:
			if len(x.FreeVars) == 0 {
				sm = &seam{fn: origin(x)}
			}
		case *ssa.Parameter:
			sm = p.paramSeam(x, ft, depth+1)
		case *ssa.Call:
			// newBuilder(util.NewRandom()): what the library's constructor returns
			sm = p.callResultSeam(x, ft)
		}
		if sm == nil {
			if _, isIface := ft.Underlying().(*types.Interface); isIface && inRepoConcrete(a.Type()) {
				sm = &seam{typ: a.Type()}
			}
		}
		if sm == nil || (res != nil && !res.same(sm)) {
			return nil
		}
		res = sm
	}
	return res
}

// callResultSeam: the stored value is what a library function returns, and every return of that function converts a
// value of one concrete library type to the interface (or returns one function constant).
func (p *Program) callResultSeam(call *ssa.Call, ft types.Type) *seam {
	cal := call.Call.StaticCallee()
	if cal == nil || call.Call.IsInvoke() || !p.InScope[origin(cal)] || cal.Signature.Results().Len() != 1 {
		return nil
	}
	f := origin(cal)
	var res *seam
	n := 0
	for _, b := range f.Blocks {
		for _, in := range b.Instrs {
			ret, isRet := in.(*ssa.Return)
			if !isRet || len(ret.Results) != 1 {
				continue
			}
			n++
			v := stripConv(ret.Results[0])
			var sm *seam
			switch x := v.(type) {
			case *ssa.Function:
				if len(x.FreeVars) == 0 {
					sm = &seam{fn: origin(x)}
				}
			}
			if sm == nil {
				if _, isIface := ft.Underlying().(*types.Interface); isIface && inRepoConcrete(v.Type()) {
					sm = &seam{typ: v.Type()}
				}
			}
			if sm == nil || (res != nil && !res.same(sm)) {
				return nil
			}
			res = sm
		}
	}
	if n == 0 {
		return nil
	}
	return res
}
