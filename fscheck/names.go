package main

// Role-based anchor resolution (DESIGN Appendix A). Rules refer to unexported struct fields by a canonical
// name (the name on the tree the rules were written against). Where a field has a stable ROLE — "the field the
// exported builder method WithMaxRetries stores its argument into", "the only channel field of the bulkhead",
// "the field the half-open state's tryAcquirePermit decrements" — the canonical name is mapped to whatever the
// field is called on the analysed tree, so renaming an unexported field does not raise an alarm.
// LoadField maps canonical → actual; FieldName / loadedField map actual → canonical.

import (
	"go/types"
	"strings"

	"golang.org/x/tools/go/ssa"
)

type roleSpec struct {
	pkg, typ, canonical string
	fn                  string // function whose store identifies the field
	param               int    // index into fn.Params of the stored parameter; -1 = the only field stored by fn; -2 = unique chan field of typ
}

var roleTable = []roleSpec{
	{"timeout", "config", "timeLimit", "timeout.Builder", 0},
	{"timeout", "config", "onTimeoutExceeded", "timeout.(*config).OnTimeoutExceeded", 1},
	{"fallback", "config", "fn", "fallback.BuilderWithFunc", 0},
	{"fallback", "config", "onFallbackExecuted", "fallback.(*config).OnFallbackExecuted", 1},
	{"bulkhead", "bulkhead", "semaphore", "", -2},
	{"bulkhead", "config", "maxConcurrency", "bulkhead.Builder", 0},
	{"bulkhead", "config", "maxWaitTime", "bulkhead.(*config).WithMaxWaitTime", 1},
	{"bulkhead", "config", "onFull", "bulkhead.(*config).OnFull", 1},
	{"circuitbreaker", "halfOpenState", "permittedExecutions", "circuitbreaker.(*halfOpenState).tryAcquirePermit", -1},
	{"retrypolicy", "config", "maxRetries", "retrypolicy.(*config).WithMaxRetries", 1},
	{"retrypolicy", "config", "maxDuration", "retrypolicy.(*config).WithMaxDuration", 1},
	{"retrypolicy", "config", "returnLastFailure", "retrypolicy.(*config).ReturnLastFailure", -1},
	{"retrypolicy", "config", "jitter", "retrypolicy.(*config).WithJitter", 1},
	{"retrypolicy", "config", "jitterFactor", "retrypolicy.(*config).WithJitterFactor", 1},
	{"retrypolicy", "config", "delayMin", "retrypolicy.(*config).WithRandomDelay", 1},
	{"retrypolicy", "config", "delayMax", "retrypolicy.(*config).WithRandomDelay", 2},
	{"retrypolicy", "config", "maxDelay", "retrypolicy.(*config).WithBackoffFactor", 2},
	{"retrypolicy", "config", "delayFactor", "retrypolicy.(*config).WithBackoffFactor", 3},
	{"retrypolicy", "config", "onAbort", "retrypolicy.(*config).OnAbort", 1},
	{"retrypolicy", "config", "onRetry", "retrypolicy.(*config).OnRetry", 1},
	{"retrypolicy", "config", "onRetryScheduled", "retrypolicy.(*config).OnRetryScheduled", 1},
	{"retrypolicy", "config", "onRetriesExceeded", "retrypolicy.(*config).OnRetriesExceeded", 1},
	{"hedgepolicy", "config", "maxHedges", "hedgepolicy.(*config).WithMaxHedges", 1},
	{"hedgepolicy", "config", "onHedge", "hedgepolicy.(*config).OnHedge", 1},
	{"hedgepolicy", "config", "delayFunc", "hedgepolicy.BuilderWithDelayFunc", 0},
	{"ratelimiter", "config", "maxWaitTime", "ratelimiter.(*config).WithMaxWaitTime", 1},
	{"ratelimiter", "config", "onRateLimitExceeded", "ratelimiter.(*config).OnRateLimitExceeded", 1},
	{"ratelimiter", "config", "interval", "ratelimiter.SmoothBuilderWithMaxRate", 0},
	{"ratelimiter", "config", "periodPermits", "ratelimiter.BurstyBuilder", 0},
	{"ratelimiter", "config", "period", "ratelimiter.BurstyBuilder", 1},
	{"cachepolicy", "config", "key", "cachepolicy.(*config).WithKey", 1},
	{"cachepolicy", "config", "cache", "cachepolicy.Builder", 0},
	{"cachepolicy", "config", "cacheConditions", "cachepolicy.(*config).CacheIf", 1},
	{"cachepolicy", "config", "onHit", "cachepolicy.(*config).OnCacheHit", 1},
	{"cachepolicy", "config", "onMiss", "cachepolicy.(*config).OnCacheMiss", 1},
	{"cachepolicy", "config", "onCache", "cachepolicy.(*config).OnResultCached", 1},
	{"circuitbreaker", "config", "failureThreshold", "circuitbreaker.(*config).WithFailureThresholdRatio", 1},
	{"circuitbreaker", "config", "failureThresholdingCapacity", "circuitbreaker.(*config).WithFailureThresholdRatio", 2},
	{"circuitbreaker", "config", "failureRateThreshold", "circuitbreaker.(*config).WithFailureRateThreshold", 1},
	{"circuitbreaker", "config", "failureExecutionThreshold", "circuitbreaker.(*config).WithFailureRateThreshold", 2},
	{"circuitbreaker", "config", "failureThresholdingPeriod", "circuitbreaker.(*config).WithFailureRateThreshold", 3},
	{"circuitbreaker", "config", "successThreshold", "circuitbreaker.(*config).WithSuccessThresholdRatio", 1},
	{"circuitbreaker", "config", "successThresholdingCapacity", "circuitbreaker.(*config).WithSuccessThresholdRatio", 2},
	{"circuitbreaker", "config", "stateChangedListener", "circuitbreaker.(*config).OnStateChanged", 1},
	{"circuitbreaker", "config", "openListener", "circuitbreaker.(*config).OnOpen", 1},
	{"circuitbreaker", "config", "closeListener", "circuitbreaker.(*config).OnClose", 1},
	{"circuitbreaker", "config", "halfOpenListener", "circuitbreaker.(*config).OnHalfOpen", 1},
	{"failsafe", "executor", "onDone", "failsafe.(*executor).OnDone", 1},
	{"failsafe", "executor", "onSuccess", "failsafe.(*executor).OnSuccess", 1},
	{"failsafe", "executor", "onFailure", "failsafe.(*executor).OnFailure", 1},
	{"policy", "BaseFailurePolicy", "onSuccess", "policy.(*BaseFailurePolicy).OnSuccess", 1},
	{"policy", "BaseFailurePolicy", "onFailure", "policy.(*BaseFailurePolicy).OnFailure", 1},
	{"policy", "BaseFailurePolicy", "failureConditions", "policy.(*BaseFailurePolicy).HandleIf", 1},
	{"policy", "BaseAbortablePolicy", "abortConditions", "policy.(*BaseAbortablePolicy).AbortOnResult", -1},
	{"failsafehttp", "roundTripper", "next", "failsafehttp.NewRoundTripperWithExecutor", 0},
	{"failsafehttp", "roundTripper", "executor", "failsafehttp.NewRoundTripperWithExecutor", 1},
	{"failsafehttp", "Request", "request", "failsafehttp.NewRequestWithExecutor", 0},
	{"failsafehttp", "Request", "client", "failsafehttp.NewRequestWithExecutor", 1},
	{"failsafehttp", "Request", "executor", "failsafehttp.NewRequestWithExecutor", 2},
}

// canonical "pkg.Type.field" → actual field name, and actual "pkg.Type.field" → canonical field name
var toActual = map[string]string{}
var toCanonical = map[string]string{}
var rolesResolved, rolesRenamed int

func stripConv(v ssa.Value) ssa.Value {
	for {
		switch x := v.(type) {
		case *ssa.Convert:
			v = x.X
		case *ssa.ChangeType:
			v = x.X
		case *ssa.MakeInterface:
			v = x.X
		case *ssa.ChangeInterface:
			v = x.X
		default:
			return v
		}
	}
}

func derivesFrom(v ssa.Value, p *ssa.Parameter, depth int) bool {
	v = stripConv(v)
	if v == p {
		return true
	}
	if depth > 3 {
		return false
	}
	switch x := v.(type) {
	case *ssa.Call:
		// append(field, param...) ; varargs slices
		for _, a := range x.Call.Args {
			if derivesFrom(a, p, depth+1) {
				return true
			}
		}
	case *ssa.Slice:
		return derivesFrom(x.X, p, depth+1)
	case *ssa.Phi:
		// the parameter with a default substituted on one branch
		for _, e := range x.Edges {
			if derivesFrom(e, p, depth+1) {
				return true
			}
		}
	case *ssa.Alloc:
		// varargs backing array: some store into it derives from p
		for _, ref := range *x.Referrers() {
			if ia, ok := ref.(*ssa.IndexAddr); ok {
				for _, r2 := range *ia.Referrers() {
					if st, ok := r2.(*ssa.Store); ok && derivesFrom(st.Val, p, depth+1) {
						return true
					}
				}
			}
		}
	case *ssa.MakeClosure:
		for _, b := range x.Bindings {
			if derivesFrom(b, p, depth+1) {
				return true
			}
		}
	}
	return false
}

func resolveRoles(p *Program) {
	toActual, toCanonical = map[string]string{}, map[string]string{}
	rolesResolved, rolesRenamed = 0, 0
	for _, r := range roleTable {
		actual := ""
		switch {
		case r.param == -2:
			rel := r.pkg
			if rel == "failsafe" {
				rel = ""
			}
			for _, f := range p.structFields(rel, r.typ) {
				if _, isChan := f.Type().Underlying().(*types.Chan); isChan {
					if actual != "" {
						actual = "?"
					} else {
						actual = f.Name()
					}
				}
			}
		default:
			fn := p.Func(r.fn)
			if fn == nil {
				continue
			}
			cands := map[string]bool{}
			var visit func(f *ssa.Function, prm *ssa.Parameter, depth int)
			visit = func(f *ssa.Function, prm *ssa.Parameter, depth int) {
				for _, b := range f.Blocks {
					for _, in := range b.Instrs {
						switch x := in.(type) {
						case *ssa.Store:
							fa, ok := x.Addr.(*ssa.FieldAddr)
							if !ok {
								continue
							}
							fr, okf := fieldRefOf(fa.X.Type(), fa.Field)
							if !okf || fr.Type != r.typ || fr.Pkg != r.pkg {
								continue
							}
							if prm == nil || derivesFrom(x.Val, prm, 0) {
								cands[fr.Field] = true
							}
						case *ssa.Call:
							// delegation to a base registrar: follow the parameter one level
							if prm == nil || depth > 1 {
								continue
							}
							cal := calleeOf(&x.Call)
							if cal == nil || !p.InScope[cal] || len(cal.Blocks) == 0 {
								continue
							}
							for i, a := range x.Call.Args {
								if stripConv(a) == prm && i < len(cal.Params) {
									visit(cal, cal.Params[i], depth+1)
								}
							}
						}
					}
				}
			}
			var prm *ssa.Parameter
			if r.param >= 0 {
				if r.param >= len(fn.Params) {
					continue
				}
				prm = fn.Params[r.param]
			}
			visit(fn, prm, 0)
			if len(cands) == 1 {
				for k := range cands {
					actual = k
				}
			}
		}
		if actual == "" || actual == "?" {
			continue
		}
		rolesResolved++
		if actual != r.canonical {
			rolesRenamed++
		}
		toActual[r.pkg+"."+r.typ+"."+r.canonical] = actual
		toCanonical[r.pkg+"."+r.typ+"."+actual] = r.canonical
	}
	// per-execution state of the retry executor, identified by kind: its only int counter, its only bool flag and
	// its only duration; the fields may live in the executor or in a same-package struct it embeds by value
	for _, spec := range []struct{ pkg, canonical, kind string }{
		{"retrypolicy", "failedAttempts", "int"}, {"retrypolicy", "retriesExceeded", "bool"}, {"retrypolicy", "lastDelay", "time.Duration"},
	} {
		named := execNamedOf(p, spec.pkg)
		if named == nil {
			continue
		}
		var found []FieldRef
		for _, fr := range execStateFields(p, spec.pkg, named) {
			on := p.NamedType(spec.pkg, fr.Type)
			if on == nil {
				continue
			}
			s := on.Underlying().(*types.Struct)
			for i := 0; i < s.NumFields(); i++ {
				if s.Field(i).Name() == fr.Field && types.TypeString(s.Field(i).Type(), nil) == spec.kind {
					found = append(found, fr)
				}
			}
		}
		if len(found) != 1 {
			continue
		}
		rolesResolved++
		if found[0].Field != spec.canonical {
			rolesRenamed++
		}
		for _, tn := range []string{"executor", named.Obj().Name(), found[0].Type} {
			toActual[spec.pkg+"."+tn+"."+spec.canonical] = found[0].Field
			toCanonical[spec.pkg+"."+tn+"."+found[0].Field] = spec.canonical
		}
	}
}

// ---- type roles ----------------------------------------------------------------------------------------------
//
// Each policy package's executor struct is called "executor" upstream; when it is renamed, names derived from it
// (function names, field references) keep using "executor", so that a rename is not a change for any rule.

var typeCanon = map[*types.TypeName]string{}

func typeCanonName(o *types.TypeName) string {
	if c, ok := typeCanon[o]; ok {
		return c
	}
	return o.Name()
}

func resolveTypeRoles(p *Program) {
	typeCanon = map[*types.TypeName]string{}
	for _, pkg := range []string{"retrypolicy", "circuitbreaker", "ratelimiter", "bulkhead", "timeout", "hedgepolicy", "fallback", "cachepolicy"} {
		if n := execNamedOf(p, pkg); n != nil && n.Obj().Name() != "executor" {
			if pk := p.ByPath[p.pkgPath(pkg)]; pk != nil && pk.Types.Scope().Lookup("executor") == nil {
				typeCanon[n.Obj()] = "executor"
			}
		}
	}
}

// execNamedOf finds the policy executor struct of a package: the struct embedding policy.BaseExecutor.
func execNamedOf(p *Program, pkg string) *types.Named {
	pk := p.ByPath[p.pkgPath(pkg)]
	if pk == nil {
		return nil
	}
	sc := pk.Types.Scope()
	for _, n := range sc.Names() {
		tn, ok := sc.Lookup(n).(*types.TypeName)
		if !ok {
			continue
		}
		named, ok := tn.Type().(*types.Named)
		if !ok {
			continue
		}
		s, ok := named.Underlying().(*types.Struct)
		if !ok {
			continue
		}
		for i := 0; i < s.NumFields(); i++ {
			f := s.Field(i)
			if !f.Embedded() {
				continue
			}
			t := f.Type()
			if pt, isP := t.(*types.Pointer); isP {
				t = pt.Elem()
			}
			if en, ok := t.(*types.Named); ok && en.Obj().Name() == "BaseExecutor" {
				return named
			}
		}
	}
	return nil
}

// canonicalField maps a "pkg.Type.field" key of the analysed tree to the canonical field name.
func canonicalField(key string) string {
	if c, ok := toCanonical[key]; ok {
		return c
	}
	if i := strings.LastIndex(key, "."); i >= 0 {
		return key[i+1:]
	}
	return key
}

// actualField maps a canonical field name to the name on the analysed tree.
func actualField(pkg, typ, canonical string) string {
	if a, ok := toActual[pkg+"."+typ+"."+canonical]; ok {
		return a
	}
	return canonical
}

// ---- function roles ----------------------------------------------------------------------------------------
//
// Unexported functions the rules address by name are resolved by role when the name is gone (renamed): "the
// in-package function the exported X calls", "the callee whose result feeds time.NewTimer in the retry closure",
// … The function found is registered under its canonical name and its call events carry the canonical name.

var funcCanon = map[*ssa.Function]string{}

type funcRole struct {
	canonical string // full canonical FuncName
	find      func(p *Program) *ssa.Function
}

// inPkgCallees lists static callees of fn (and its closures) that live in fn's package, in order.
func inPkgCallees(p *Program, fn *ssa.Function, withClosures bool) []*ssa.Function {
	var out []*ssa.Function
	var visit func(f *ssa.Function)
	visit = func(f *ssa.Function) {
		for _, b := range f.Blocks {
			for _, in := range b.Instrs {
				cc, ok := in.(ssa.CallInstruction)
				if !ok {
					continue
				}
				if cal := calleeOf(cc.Common()); cal != nil && p.InScope[cal] && cal.Pkg == fn.Pkg && cal.Parent() == nil {
					out = append(out, cal)
				}
			}
		}
		if withClosures {
			for _, a := range f.AnonFuncs {
				visit(a)
			}
		}
	}
	visit(fn)
	return out
}

func firstUnexportedCallee(p *Program, from string, withClosures bool, pred func(*ssa.Function) bool) *ssa.Function {
	fn := p.byName[from]
	if fn == nil {
		return nil
	}
	for _, cal := range inPkgCallees(p, fn, withClosures) {
		if cal.Object() != nil && cal.Object().Exported() {
			continue
		}
		if pred == nil || pred(cal) {
			return cal
		}
	}
	return nil
}

func recvNamed(f *ssa.Function) string {
	if f.Signature.Recv() == nil {
		return ""
	}
	if n := namedOfPtr(f.Signature.Recv().Type()); n != nil {
		return n.Obj().Name()
	}
	return ""
}

func funcRoles() []funcRole {
	viaExported := func(canonical, exported string, recv string) funcRole {
		return funcRole{canonical, func(p *Program) *ssa.Function {
			return firstUnexportedCallee(p, exported, false, func(f *ssa.Function) bool { return recv == "" || recvNamed(f) == recv })
		}}
	}
	return []funcRole{
		viaExported("failsafe.(*executor).executeSync", "failsafe.(*executor).Get", "executor"),
		viaExported("failsafe.(*executor).executeAsync", "failsafe.(*executor).GetAsync", "executor"),
		viaExported("failsafe.(*executor).execute", "failsafe.(*executor).executeSync", "executor"),
		{"failsafe.newExecution", func(p *Program) *ssa.Function {
			return firstUnexportedCallee(p, "failsafe.(*executor).executeSync", false, func(f *ssa.Function) bool { return f.Signature.Recv() == nil })
		}},
		viaExported("failsafe.(*execution).copy", "failsafe.(*execution).CopyWithResult", "execution"),
		{"failsafe.(*executionResult).record", func(p *Program) *ssa.Function {
			return firstUnexportedCallee(p, "failsafe.(*executor).executeAsync", true, func(f *ssa.Function) bool { return recvNamed(f) == "executionResult" })
		}},
		{"failsafe.(*execution).record", func(p *Program) *ssa.Function {
			return firstUnexportedCallee(p, "failsafe.(*executor).execute", true, func(f *ssa.Function) bool {
				return recvNamed(f) == "execution" && f.Signature.Params().Len() == 0 && f.Signature.Results().Len() == 0
			})
		}},
		{"failsafe.newExecutionDoneEvent", func(p *Program) *ssa.Function {
			return firstUnexportedCallee(p, "failsafe.(*executor).execute", true, func(f *ssa.Function) bool { return f.Signature.Recv() == nil && f.Signature.Params().Len() == 2 })
		}},
		{"retrypolicy.(*executor).getDelay", func(p *Program) *ssa.Function {
			ap := p.byName["retrypolicy.(*executor).Apply"]
			if ap == nil {
				return nil
			}
			for _, a := range ap.AnonFuncs {
				for _, b := range a.Blocks {
					for _, in := range b.Instrs {
						if c, ok := in.(*ssa.Call); ok {
							if cal := calleeOf(&c.Call); cal != nil && qualName(cal) == "time.NewTimer" && len(c.Call.Args) == 1 {
								if src, ok := c.Call.Args[0].(*ssa.Call); ok {
									if g := calleeOf(&src.Call); g != nil && p.InScope[g] {
										return g
									}
								}
							}
						}
					}
				}
			}
			return nil
		}},
		viaExported("ratelimiter.(*rateLimiter).acquirePermitsWithMaxWait", "ratelimiter.(*rateLimiter).AcquirePermitWithMaxWait", "rateLimiter"),
		{"ratelimiter.exceedsMaxWaitTime", func(p *Program) *ssa.Function {
			return firstUnexportedCallee(p, "ratelimiter.(*smoothStats).acquirePermits", false, func(f *ssa.Function) bool { return f.Signature.Recv() == nil && f.Signature.Results().Len() == 1 })
		}},
		viaExported("circuitbreaker.(*circuitBreaker).recordSuccess", "circuitbreaker.(*circuitBreaker).RecordSuccess", "circuitBreaker"),
		viaExported("circuitbreaker.(*circuitBreaker).recordFailure", "circuitbreaker.(*circuitBreaker).RecordFailure", "circuitBreaker"),
		viaExported("circuitbreaker.(*circuitBreaker).recordResult", "circuitbreaker.(*circuitBreaker).RecordResult", "circuitBreaker"),
		viaExported("circuitbreaker.(*circuitBreaker).tryAcquirePermit", "circuitbreaker.(*circuitBreaker).TryAcquirePermit", "circuitBreaker"),
		viaExported("circuitbreaker.(*circuitBreaker).open", "circuitbreaker.(*circuitBreaker).Open", "circuitBreaker"),
		viaExported("circuitbreaker.(*circuitBreaker).close", "circuitbreaker.(*circuitBreaker).Close", "circuitBreaker"),
		viaExported("circuitbreaker.(*circuitBreaker).halfOpen", "circuitbreaker.(*circuitBreaker).HalfOpen", "circuitBreaker"),
		viaExported("circuitbreaker.(*circuitBreaker).transitionTo", "circuitbreaker.(*circuitBreaker).open", "circuitBreaker"),
		{"circuitbreaker.newClosedState", func(p *Program) *ssa.Function {
			return firstUnexportedCallee(p, "circuitbreaker.(*config).Build", false, func(f *ssa.Function) bool { return f.Signature.Recv() == nil })
		}},
		viaExported("failsafehttp.doRequest", "failsafehttp.(*roundTripper).RoundTrip", ""),
		{"failsafehttp.bodyReader", func(p *Program) *ssa.Function {
			return firstUnexportedCallee(p, "failsafehttp.doRequest", false, func(f *ssa.Function) bool { return f.Signature.Recv() == nil })
		}},
		{"util.errorAs", func(p *Program) *ssa.Function {
			return firstUnexportedCallee(p, "util.ErrorTypesMatch", false, func(f *ssa.Function) bool { return f.Signature.Results().Len() == 1 && f.Signature.Params().Len() == 2 })
		}},
	}
}

func shortName(full string) string {
	if i := strings.LastIndex(full, "."); i >= 0 {
		return full[i+1:]
	}
	return full
}

var funcsRenamed int

func resolveFuncRoles(p *Program) {
	funcCanon = map[*ssa.Function]string{}
	funcsRenamed = 0
	for _, r := range funcRoles() {
		if p.byName[r.canonical] != nil {
			continue
		}
		if fn := r.find(p); fn != nil {
			p.byName[r.canonical] = fn
			funcCanon[fn] = shortName(r.canonical)
			funcsRenamed++
		}
	}
}

// ---- interface method roles ----------------------------------------------------------------------------------
//
// The unexported methods of the breaker's circuitState interface are addressed by the rules by name; when one is
// renamed it is recognised by its signature (each has a distinct one).

var methodCanon = map[string]string{} // "pkg.actual" -> canonical method name

func canonMethodName(f *types.Func) string {
	if f.Pkg() != nil {
		if c, ok := methodCanon[f.Pkg().Name()+"."+f.Name()]; ok {
			return c
		}
	}
	return f.Name()
}

func resolveIfaceRoles(p *Program) {
	methodCanon = map[string]string{}
	iface := p.NamedType("circuitbreaker", "circuitState")
	if iface == nil {
		return
	}
	it, ok := iface.Underlying().(*types.Interface)
	if !ok {
		return
	}
	classify := func(sig *types.Signature) string {
		np, nr := sig.Params().Len(), sig.Results().Len()
		switch {
		case np == 1 && nr == 0:
			return "checkThresholdAndReleasePermit"
		case np == 0 && nr == 1:
			rt := sig.Results().At(0).Type()
			switch types.TypeString(rt, func(*types.Package) string { return "" }) {
			case "bool":
				return "tryAcquirePermit"
			case "Duration":
				return "remainingDelay"
			case "State":
				return "state"
			}
		}
		return ""
	}
	seen := map[string]int{}
	for i := 0; i < it.NumExplicitMethods(); i++ {
		seen[classify(it.ExplicitMethod(i).Type().(*types.Signature))]++
	}
	for i := 0; i < it.NumExplicitMethods(); i++ {
		m := it.ExplicitMethod(i)
		canon := classify(m.Type().(*types.Signature))
		if canon == "" || seen[canon] != 1 || canon == m.Name() {
			continue
		}
		methodCanon["circuitbreaker."+m.Name()] = canon
		funcsRenamed++
		for _, impl := range p.Implementers(iface) {
			if impl.Obj().Pkg() == nil || impl.Obj().Pkg().Name() != "circuitbreaker" {
				continue
			}
			fn := p.MethodOf(impl, m.Name())
			if fn == nil {
				continue
			}
			// only methods declared on the type itself
			if rn := namedOfPtr(fn.Signature.Recv().Type()); rn == nil || rn.Obj() != impl.Obj() {
				continue
			}
			p.byName["circuitbreaker.(*"+impl.Obj().Name()+")."+canon] = fn
			funcCanon[fn] = canon
		}
	}
}

// canonName: the name rules know a function by.
func canonName(fn *ssa.Function) string {
	if fn == nil {
		return ""
	}
	fn = origin(fn)
	if c, ok := funcCanon[fn]; ok {
		return c
	}
	return fn.Name()
}
