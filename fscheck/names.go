package main

// Role-based anchor resolution (DESIGN Appendix A). Rules refer to unexported struct fields by a canonical
// name (the name on the tree the rules were written against). Where a field has a stable ROLE — "the field the
// exported builder method WithMaxRetries stores its argument into", "the only channel field of the bulkhead",
// "the field the half-open state's tryAcquirePermit decrements" — the canonical name is mapped to whatever the
// field is called on the analysed tree, so renaming an unexported field does not raise an alarm.
// LoadField maps canonical → actual; FieldName / loadedField map actual → canonical.

import (
	"fmt"
	"go/types"
	"os"
	"strings"

	"golang.org/x/tools/go/ssa"
)

type roleSpec struct {
	pkg, typ, canonical string
	fn                  string // function whose store identifies the field
	param               int    // index into fn.Params of the stored parameter; -1 = the only field stored by fn; -2 = unique chan field of typ; -3 = unique field whose type is (a pointer to) the type canonically named fn
}

var roleTable = []roleSpec{
	{"timeout", "config", "timeLimit", "timeout.Builder", 0},
	{"timeout", "config", "onTimeoutExceeded", "timeout.(*config).OnTimeoutExceeded", 1},
	{"fallback", "config", "fn", "fallback.BuilderWithFunc", 0},
	{"fallback", "config", "onFallbackExecuted", "fallback.(*config).OnFallbackExecuted", 1},
	{"bulkhead", "bulkhead", "semaphore", "", -2},
	{"bulkhead", "config", "maxConcurrency", "bulkhead.Builder", 0},
	{"bulkhead", "config", "maxWaitTime", "bulkhead.(*config).WithMaxWaitTime", 1},
	{"bulkhead", "config", "onFull", "bulkhead.(*config).OnFull", 1},
	{"circuitbreaker", "halfOpenState", "permittedExecutions", "circuitbreaker.(*halfOpenState).tryAcquirePermit", -1},
	{"retrypolicy", "config", "maxRetries", "retrypolicy.(*config).WithMaxRetries", 1},
	{"retrypolicy", "config", "maxDuration", "retrypolicy.(*config).WithMaxDuration", 1},
	{"retrypolicy", "config", "returnLastFailure", "retrypolicy.(*config).ReturnLastFailure", -1},
	{"retrypolicy", "config", "jitter", "retrypolicy.(*config).WithJitter", 1},
	{"retrypolicy", "config", "jitterFactor", "retrypolicy.(*config).WithJitterFactor", 1},
	{"retrypolicy", "config", "delayMin", "retrypolicy.(*config).WithRandomDelay", 1},
	{"retrypolicy", "config", "delayMax", "retrypolicy.(*config).WithRandomDelay", 2},
	{"retrypolicy", "config", "maxDelay", "retrypolicy.(*config).WithBackoffFactor", 2},
	{"retrypolicy", "config", "delayFactor", "retrypolicy.(*config).WithBackoffFactor", 3},
	{"retrypolicy", "config", "onAbort", "retrypolicy.(*config).OnAbort", 1},
	{"retrypolicy", "config", "onRetry", "retrypolicy.(*config).OnRetry", 1},
	{"retrypolicy", "config", "onRetryScheduled", "retrypolicy.(*config).OnRetryScheduled", 1},
	{"retrypolicy", "config", "onRetriesExceeded", "retrypolicy.(*config).OnRetriesExceeded", 1},
	{"hedgepolicy", "config", "maxHedges", "hedgepolicy.(*config).WithMaxHedges", 1},
	{"hedgepolicy", "config", "onHedge", "hedgepolicy.(*config).OnHedge", 1},
	{"hedgepolicy", "config", "delayFunc", "hedgepolicy.BuilderWithDelayFunc", 0},
	{"ratelimiter", "config", "maxWaitTime", "ratelimiter.(*config).WithMaxWaitTime", 1},
	{"ratelimiter", "config", "onRateLimitExceeded", "ratelimiter.(*config).OnRateLimitExceeded", 1},
	{"ratelimiter", "config", "interval", "ratelimiter.SmoothBuilderWithMaxRate", 0},
	{"ratelimiter", "config", "periodPermits", "ratelimiter.BurstyBuilder", 0},
	{"ratelimiter", "config", "period", "ratelimiter.BurstyBuilder", 1},
	{"cachepolicy", "config", "key", "cachepolicy.(*config).WithKey", 1},
	{"cachepolicy", "config", "cache", "cachepolicy.Builder", 0},
	{"cachepolicy", "config", "cacheConditions", "cachepolicy.(*config).CacheIf", 1},
	{"cachepolicy", "config", "onHit", "cachepolicy.(*config).OnCacheHit", 1},
	{"cachepolicy", "config", "onMiss", "cachepolicy.(*config).OnCacheMiss", 1},
	{"cachepolicy", "config", "onCache", "cachepolicy.(*config).OnResultCached", 1},
	{"circuitbreaker", "config", "failureThreshold", "circuitbreaker.(*config).WithFailureThresholdRatio", 1},
	{"circuitbreaker", "config", "failureThresholdingCapacity", "circuitbreaker.(*config).WithFailureThresholdRatio", 2},
	{"circuitbreaker", "config", "failureRateThreshold", "circuitbreaker.(*config).WithFailureRateThreshold", 1},
	{"circuitbreaker", "config", "failureExecutionThreshold", "circuitbreaker.(*config).WithFailureRateThreshold", 2},
	{"circuitbreaker", "config", "failureThresholdingPeriod", "circuitbreaker.(*config).WithFailureRateThreshold", 3},
	{"circuitbreaker", "config", "successThreshold", "circuitbreaker.(*config).WithSuccessThresholdRatio", 1},
	{"circuitbreaker", "config", "successThresholdingCapacity", "circuitbreaker.(*config).WithSuccessThresholdRatio", 2},
	{"circuitbreaker", "config", "stateChangedListener", "circuitbreaker.(*config).OnStateChanged", 1},
	{"circuitbreaker", "config", "openListener", "circuitbreaker.(*config).OnOpen", 1},
	{"circuitbreaker", "config", "closeListener", "circuitbreaker.(*config).OnClose", 1},
	{"circuitbreaker", "config", "halfOpenListener", "circuitbreaker.(*config).OnHalfOpen", 1},
	{"failsafe", "executor", "onDone", "failsafe.(*executor).OnDone", 1},
	{"failsafe", "executor", "onSuccess", "failsafe.(*executor).OnSuccess", 1},
	{"failsafe", "executor", "onFailure", "failsafe.(*executor).OnFailure", 1},
	{"policy", "BaseFailurePolicy", "onSuccess", "policy.(*BaseFailurePolicy).OnSuccess", 1},
	{"policy", "BaseFailurePolicy", "onFailure", "policy.(*BaseFailurePolicy).OnFailure", 1},
	{"policy", "BaseFailurePolicy", "failureConditions", "policy.(*BaseFailurePolicy).HandleIf", 1},
	{"policy", "BaseAbortablePolicy", "abortConditions", "policy.(*BaseAbortablePolicy).AbortOnResult", -1},
	{"failsafe", "executionResult", "execution", "execution", -3},
	{"failsafehttp", "roundTripper", "next", "failsafehttp.NewRoundTripperWithExecutor", 0},
	{"failsafehttp", "roundTripper", "executor", "failsafehttp.NewRoundTripperWithExecutor", 1},
	{"failsafehttp", "Request", "request", "failsafehttp.NewRequestWithExecutor", 0},
	{"failsafehttp", "Request", "client", "failsafehttp.NewRequestWithExecutor", 1},
	{"failsafehttp", "Request", "executor", "failsafehttp.NewRequestWithExecutor", 2},
}

// canonical "pkg.Type.field" → actual field name, and actual "pkg.Type.field" → canonical field name
var toActual = map[string]string{}
var toCanonical = map[string]string{}
var rolesResolved, rolesRenamed int

func stripConv(v ssa.Value) ssa.Value {
	for {
		switch x := v.(type) {
		case *ssa.Convert:
			v = x.X
		case *ssa.ChangeType:
			v = x.X
		case *ssa.MakeInterface:
			v = x.X
		case *ssa.ChangeInterface:
			v = x.X
		default:
			return v
		}
	}
}

func derivesFrom(v ssa.Value, p *ssa.Parameter, depth int) bool {
	v = stripConv(v)
	if v == p {
		return true
	}
	if depth > 3 {
		return false
	}
	switch x := v.(type) {
	case *ssa.Call:
		// append(field, param...) ; varargs slices
		for _, a := range x.Call.Args {
			if derivesFrom(a, p, depth+1) {
				return true
			}
		}
	case *ssa.Slice:
		return derivesFrom(x.X, p, depth+1)
	case *ssa.Phi:
		// the parameter with a default substituted on one branch
		for _, e := range x.Edges {
			if derivesFrom(e, p, depth+1) {
				return true
			}
		}
	case *ssa.Alloc:
		// varargs backing array: some store into it derives from p
		for _, ref := range *x.Referrers() {
			if ia, ok := ref.(*ssa.IndexAddr); ok {
				for _, r2 := range *ia.Referrers() {
					if st, ok := r2.(*ssa.Store); ok && derivesFrom(st.Val, p, depth+1) {
						return true
					}
				}
			}
		}
	case *ssa.MakeClosure:
		for _, b := range x.Bindings {
			if derivesFrom(b, p, depth+1) {
				return true
			}
		}
	}
	return false
}

func resolveRoles(p *Program) {
	toActual, toCanonical = map[string]string{}, map[string]string{}
	rolesResolved, rolesRenamed = 0, 0
	for _, r := range roleTable {
		actual := ""
		partOf := map[string]string{}
		switch {
		case r.param == -3:
			rel := r.pkg
			if rel == "failsafe" {
				rel = ""
			}
			for _, f := range p.structFields(rel, r.typ) {
				t := f.Type()
				if pt, isP := t.(*types.Pointer); isP {
					t = pt.Elem()
				}
				if n, isN := t.(*types.Named); isN && typeCanonName(n.Obj()) == r.fn && !f.Embedded() {
					if actual != "" {
						actual = "?"
					} else {
						actual = f.Name()
					}
				}
			}
		case r.param == -2:
			rel := r.pkg
			if rel == "failsafe" {
				rel = ""
			}
			for _, f := range p.structFields(rel, r.typ) {
				if _, isChan := f.Type().Underlying().(*types.Chan); isChan {
					if actual != "" {
						actual = "?"
					} else {
						actual = f.Name()
					}
				}
			}
		default:
			fn := p.Func(r.fn)
			if fn == nil {
				continue
			}
			cands := map[string]bool{}
			var visit func(f *ssa.Function, prm *ssa.Parameter, depth int)
			partOf = map[string]string{}
			visit = func(f *ssa.Function, prm *ssa.Parameter, depth int) {
				for _, b := range f.Blocks {
					for _, in := range b.Instrs {
						switch x := in.(type) {
						case *ssa.Store:
							fa, ok := x.Addr.(*ssa.FieldAddr)
							if !ok {
								continue
							}
							fr, okf := fieldRefOfAddrRaw(fa)
							if !okf || fr.Type != r.typ || fr.Pkg != r.pkg {
								continue
							}
							if prm == nil || derivesFrom(x.Val, prm, 0) {
								cands[fr.Field] = true
								if in, okIn := fieldRefOfRaw(fa.X.Type(), fa.Field); okIn && in.Type != fr.Type {
									partOf[fr.Field] = in.Type // the field lives in a grouping sub-struct of r.typ
								}
							}
						case *ssa.Call:
							if prm == nil && depth == 0 && len(x.Call.Args) > 0 && !x.Call.IsInvoke() {
								// the only field stored by fn, stored through a method of a by-value part of r.typ
								// (s.permits.tryAcquire()): the part's field that method stores into
								cal := calleeOf(&x.Call)
								fa, isFA := x.Call.Args[0].(*ssa.FieldAddr)
								if cal == nil || !isFA || !p.InScope[cal] || len(cal.Blocks) == 0 || len(cal.Params) == 0 || cal.Signature.Recv() == nil {
									continue
								}
								outer, okO := fieldRefOfAddrRaw(fa)
								if !okO || outer.Type != r.typ || outer.Pkg != r.pkg {
									continue
								}
								if _, isS := fa.Type().(*types.Pointer).Elem().Underlying().(*types.Struct); !isS {
									continue
								}
								for _, b2 := range cal.Blocks {
									for _, in2 := range b2.Instrs {
										st2, isSt := in2.(*ssa.Store)
										if !isSt {
											continue
										}
										fa2, isFA2 := st2.Addr.(*ssa.FieldAddr)
										if !isFA2 || fa2.X != ssa.Value(cal.Params[0]) {
											continue
										}
										if in, okIn := fieldRefOfRaw(fa2.X.Type(), fa2.Field); okIn && in.Pkg == r.pkg {
											cands[in.Field] = true
											partOf[in.Field] = in.Type
										}
									}
								}
								continue
							}
							// delegation to a base registrar: follow the parameter one level
							if prm == nil || depth > 1 {
								continue
							}
							cal := calleeOf(&x.Call)
							if cal == nil || !p.InScope[cal] || len(cal.Blocks) == 0 {
								continue
							}
							for i, a := range x.Call.Args {
								if stripConv(a) == prm && i < len(cal.Params) {
									visit(cal, cal.Params[i], depth+1)
								}
							}
						}
					}
				}
			}
			var prm *ssa.Parameter
			if r.param >= 0 {
				if r.param >= len(fn.Params) {
					continue
				}
				prm = fn.Params[r.param]
			}
			visit(fn, prm, 0)
			if len(cands) == 1 {
				for k := range cands {
					actual = k
				}
			}
		}
		if actual == "" || actual == "?" {
			continue
		}
		rolesResolved++
		if actual != r.canonical {
			rolesRenamed++
		}
		toActual[r.pkg+"."+r.typ+"."+r.canonical] = actual
		toCanonical[r.pkg+"."+r.typ+"."+actual] = r.canonical
		if part, ok := partOf[actual]; ok {
			toActual[r.pkg+"."+part+"."+r.canonical] = actual
			toCanonical[r.pkg+"."+part+"."+actual] = r.canonical
		}
	}
	// mutexes: upstream every struct with a lock calls it mtx; a struct's only sync.Mutex field is that lock
	for _, rel := range scopePkgs {
		pk := p.ByPath[p.pkgPath(rel)]
		if pk == nil {
			continue
		}
		sc := pk.Types.Scope()
		for _, nm := range sc.Names() {
			tn, ok := sc.Lookup(nm).(*types.TypeName)
			if !ok || tn.IsAlias() {
				continue
			}
			named, ok := tn.Type().(*types.Named)
			if !ok {
				continue
			}
			if _, isStruct := named.Underlying().(*types.Struct); !isStruct {
				continue
			}
			var mus []*types.Var
			partOfMu := map[string]string{}
			var walk func(n *types.Named, depth int)
			walk = func(n *types.Named, depth int) {
				s, ok := n.Underlying().(*types.Struct)
				if !ok || depth > 3 {
					return
				}
				for i := 0; i < s.NumFields(); i++ {
					f := s.Field(i)
					ft := f.Type()
					if pt, isP := ft.(*types.Pointer); isP {
						ft = pt.Elem()
					}
					if ts := types.TypeString(ft, nil); ts == "sync.Mutex" || ts == "sync.RWMutex" || ts == "sync.Locker" {
						mus = append(mus, f)
						partOfMu[f.Name()] = typeCanonName(n.Obj())
						continue
					}
					if pn, isN := f.Type().(*types.Named); isN && pn.Obj().Pkg() == named.Obj().Pkg() && !pn.Obj().Exported() {
						if _, isS := pn.Underlying().(*types.Struct); isS {
							walk(pn, depth+1)
						}
					}
				}
			}
			walk(named, 0)
			if len(mus) != 1 || mus[0].Name() == "mtx" {
				continue
			}
			pkgName, typ := pk.Types.Name(), typeCanonName(tn)
			if _, done := toActual[pkgName+"."+typ+".mtx"]; done {
				continue
			}
			rolesResolved++
			rolesRenamed++
			for _, t := range []string{typ, partOfMu[mus[0].Name()]} {
				toActual[pkgName+"."+t+".mtx"] = mus[0].Name()
				toCanonical[pkgName+"."+t+"."+mus[0].Name()] = "mtx"
			}
		}
	}
	// per-execution state of the retry executor, identified by kind: its only int counter, its only bool flag and
	// its only duration; the fields may live in the executor or in a same-package struct it embeds by value
	for _, spec := range []struct{ pkg, canonical, kind string }{
		{"retrypolicy", "failedAttempts", "int"}, {"retrypolicy", "retriesExceeded", "bool"}, {"retrypolicy", "lastDelay", "time.Duration"},
	} {
		named := execNamedOf(p, spec.pkg)
		if named == nil {
			continue
		}
		var found []stateField
		for _, sf := range execStateFieldsEx(p, spec.pkg, named) {
			if types.TypeString(sf.Typ, nil) == spec.kind {
				found = append(found, sf)
			}
		}
		if len(found) != 1 {
			continue
		}
		rolesResolved++
		if found[0].Ref.Field != spec.canonical {
			rolesRenamed++
		}
		for _, tn := range []string{"executor", named.Obj().Name(), found[0].Part} {
			toActual[spec.pkg+"."+tn+"."+spec.canonical] = found[0].Ref.Field
			toCanonical[spec.pkg+"."+tn+"."+found[0].Ref.Field] = spec.canonical
		}
	}
}

// ---- type roles ----------------------------------------------------------------------------------------------
//
// Each policy package's executor struct is called "executor" upstream; when it is renamed, names derived from it
// (function names, field references) keep using "executor", so that a rename is not a change for any rule.

var typeCanon = map[*types.TypeName]string{}

func typeCanonName(o *types.TypeName) string {
	if c, ok := typeCanon[o]; ok {
		return c
	}
	return o.Name()
}

func resolveTypeRoles(p *Program) {
	typeCanon = map[*types.TypeName]string{}
	// set registers `named` under the canonical name unless a type of that name exists in its package
	set := func(named *types.Named, canon string) {
		if named == nil || named.Obj().Name() == canon || named.Obj().Pkg() == nil {
			return
		}
		if named.Obj().Pkg().Scope().Lookup(canon) != nil {
			return
		}
		typeCanon[named.Obj()] = canon
	}
	policyPkgs := []string{"retrypolicy", "circuitbreaker", "ratelimiter", "bulkhead", "timeout", "hedgepolicy", "fallback", "cachepolicy"}
	for _, pkg := range policyPkgs {
		set(execNamedOf(p, pkg), "executor")
	}
	// unexported structs / interfaces known by the exported interface they implement or by their place in the design
	structsOf := func(rel string, pred func(n *types.Named, s *types.Struct) bool) []*types.Named {
		var out []*types.Named
		pk := p.ByPath[p.pkgPath(rel)]
		if pk == nil {
			return nil
		}
		sc := pk.Types.Scope()
		for _, nm := range sc.Names() {
			tn, ok := sc.Lookup(nm).(*types.TypeName)
			if !ok || tn.IsAlias() {
				continue
			}
			named, ok := tn.Type().(*types.Named)
			if !ok {
				continue
			}
			s, ok := named.Underlying().(*types.Struct)
			if !ok {
				continue
			}
			if pred(named, s) {
				out = append(out, named)
			}
		}
		return out
	}
	implements := func(named *types.Named, ifaceRel, ifaceName string) bool {
		in := p.NamedType(ifaceRel, ifaceName)
		if in == nil {
			return false
		}
		it := instantiateAny(in)
		inst := instantiateAny(named)
		if it == nil || inst == nil {
			return false
		}
		ii, ok := it.Underlying().(*types.Interface)
		if !ok {
			return false
		}
		return types.Implements(types.NewPointer(inst), ii) || types.Implements(inst, ii)
	}
	// the policy struct declares ToExecutor itself (its executor only inherits it through embedding)
	declaresToExecutor := func(n *types.Named, _ *types.Struct) bool {
		for i := 0; i < n.NumMethods(); i++ {
			if n.Method(i).Name() == "ToExecutor" {
				return true
			}
		}
		return false
	}
	one := func(ns []*types.Named) *types.Named {
		if len(ns) == 1 {
			return ns[0]
		}
		return nil
	}
	set(one(structsOf("", func(n *types.Named, _ *types.Struct) bool { return implements(n, "policy", "ExecutionInternal") })), "execution")
	set(one(structsOf("", func(n *types.Named, _ *types.Struct) bool { return implements(n, "", "ExecutionResult") })), "executionResult")
	set(one(structsOf("", func(n *types.Named, _ *types.Struct) bool { return implements(n, "", "Executor") })), "executor")
	policyName := map[string]string{"retrypolicy": "retryPolicy", "hedgepolicy": "hedgePolicy", "fallback": "fallback", "timeout": "timeout",
		"cachepolicy": "cachePolicy", "ratelimiter": "rateLimiter", "bulkhead": "bulkhead", "circuitbreaker": "circuitBreaker"}
	for _, pkg := range policyPkgs {
		if debugRoles {
			for _, x := range structsOf(pkg, func(n *types.Named, _ *types.Struct) bool { return implements(n, "", "Policy") }) {
				fmt.Println("policy struct candidate", pkg, x.Obj().Name())
			}
		}
		set(one(structsOf(pkg, declaresToExecutor)), policyName[pkg])
		// the builder's configuration struct: the struct with builder methods (methods returning an exported …Builder)
		set(one(structsOf(pkg, func(n *types.Named, _ *types.Struct) bool {
			ms := types.NewMethodSet(types.NewPointer(n))
			for i := 0; i < ms.Len(); i++ {
				if f, ok := ms.At(i).Obj().(*types.Func); ok && f.Name() == "Build" && f.Pkg() == n.Obj().Pkg() {
					if rn := namedOfPtr(f.Type().(*types.Signature).Recv().Type()); rn != nil && rn.Obj() == n.Obj() {
						return true
					}
				}
			}
			return false
		})), "config")
	}
	// circuit breaker: state interface = type of the breaker's only interface-typed field declared in this package;
	// the three states by the constant their state() method returns; stats interface = the interface the state
	// interface embeds; the two stats implementations by whether they keep time buckets (a slice field)
	if cb := one(structsOf("circuitbreaker", declaresToExecutor)); cb != nil {
		var stateIface *types.Named
		s := cb.Underlying().(*types.Struct)
		for i := 0; i < s.NumFields(); i++ {
			if fn, ok := s.Field(i).Type().(*types.Named); ok && fn.Obj().Pkg() == cb.Obj().Pkg() {
				if _, isI := fn.Underlying().(*types.Interface); isI {
					stateIface = fn.Origin()
				}
			}
		}
		if stateIface != nil {
			set(stateIface, "circuitState")
			var statsIface *types.Named
			it := stateIface.Underlying().(*types.Interface)
			for i := 0; i < it.NumEmbeddeds(); i++ {
				if en, ok := it.EmbeddedType(i).(*types.Named); ok && en.Obj().Pkg() == cb.Obj().Pkg() {
					statsIface = en
				}
			}
			set(statsIface, "stats")
			canonState := map[string]string{"ClosedState": "closedState", "OpenState": "openState", "HalfOpenState": "halfOpenState"}
			for _, st := range structsOf("circuitbreaker", func(n *types.Named, _ *types.Struct) bool {
				inst := instantiateAny(n)
				ii, ok := instantiateAny(stateIface).Underlying().(*types.Interface)
				return ok && inst != nil && types.Implements(types.NewPointer(inst), ii)
			}) {
				// the method returning State
				ms := types.NewMethodSet(types.NewPointer(st))
				for i := 0; i < ms.Len(); i++ {
					f, ok := ms.At(i).Obj().(*types.Func)
					if !ok {
						continue
					}
					sig := f.Type().(*types.Signature)
					if sig.Params().Len() != 0 || sig.Results().Len() != 1 {
						continue
					}
					if rn, ok := sig.Results().At(0).Type().(*types.Named); !ok || rn.Obj().Name() != "State" {
						continue
					}
					fn := p.Prog.FuncValue(f.Origin())
					if fn == nil || len(fn.Blocks) == 0 {
						continue
					}
					for _, b := range fn.Blocks {
						for _, in := range b.Instrs {
							if r, ok := in.(*ssa.Return); ok && len(r.Results) == 1 {
								if k, ok := r.Results[0].(*ssa.Const); ok && k.Value != nil {
									for cname, canon := range canonState {
										if o, ok := cb.Obj().Pkg().Scope().Lookup(cname).(*types.Const); ok && o.Val().ExactString() == k.Value.ExactString() {
											set(st, canon)
										}
									}
								}
							}
						}
					}
				}
			}
			if statsIface != nil {
				for _, st := range structsOf("circuitbreaker", func(n *types.Named, s *types.Struct) bool {
					if _, isState := typeCanon[n.Obj()]; isState || n.Obj().Name() == "closedState" || n.Obj().Name() == "openState" || n.Obj().Name() == "halfOpenState" {
						return false
					}
					ii, ok := statsIface.Underlying().(*types.Interface)
					if !ok || !types.Implements(types.NewPointer(n), ii) {
						return false
					}
					// not one of the states (they embed stats)
					for i := 0; i < s.NumFields(); i++ {
						if s.Field(i).Embedded() {
							return false
						}
					}
					return true
				}) {
					timed := false
					s := st.Underlying().(*types.Struct)
					for i := 0; i < s.NumFields(); i++ {
						if sl, ok := s.Field(i).Type().Underlying().(*types.Slice); ok {
							if _, isStruct := sl.Elem().Underlying().(*types.Struct); isStruct {
								timed = true
							}
						}
					}
					if timed {
						set(st, "timedStats")
						// the per-bucket tally: element type of the bucket slice
						for i := 0; i < s.NumFields(); i++ {
							if sl, ok := s.Field(i).Type().Underlying().(*types.Slice); ok {
								if en, ok := sl.Elem().(*types.Named); ok && en.Obj().Pkg() == st.Obj().Pkg() {
									set(en, "stat")
								}
							}
						}
					} else {
						set(st, "countingStats")
					}
				}
			}
		}
	}
	// the metrics snapshot handed to state-change listeners: the struct implementing the exported Metrics interface
	// that is not the breaker itself
	set(one(structsOf("circuitbreaker", func(n *types.Named, _ *types.Struct) bool {
		ex := execNamedOf(p, "circuitbreaker")
		return implements(n, "circuitbreaker", "Metrics") && !declaresToExecutor(n, nil) && (ex == nil || ex.Obj() != n.Obj())
	})), "eventMetrics")
	// the HTTP adapter's http.RoundTripper: the struct of package failsafehttp that declares RoundTrip
	set(one(structsOf("failsafehttp", func(n *types.Named, _ *types.Struct) bool {
		for i := 0; i < n.NumMethods(); i++ {
			if n.Method(i).Name() == "RoundTrip" {
				return true
			}
		}
		return false
	})), "roundTripper")
	// rate limiter: stats interface = the limiter's interface-typed field; bursty = the implementation with a plain
	// int permit balance, smooth = the other
	if rl := one(structsOf("ratelimiter", declaresToExecutor)); rl != nil {
		var statsIface *types.Named
		s := rl.Underlying().(*types.Struct)
		for i := 0; i < s.NumFields(); i++ {
			if fn, ok := s.Field(i).Type().(*types.Named); ok && fn.Obj().Pkg() == rl.Obj().Pkg() {
				if _, isI := fn.Underlying().(*types.Interface); isI {
					statsIface = fn
				}
			}
		}
		// the interface may also be reached through the embedded config
		if statsIface == nil {
			if pk := p.ByPath[p.pkgPath("ratelimiter")]; pk != nil {
				for _, nm := range pk.Types.Scope().Names() {
					if tn, ok := pk.Types.Scope().Lookup(nm).(*types.TypeName); ok && !tn.Exported() {
						if n, ok := tn.Type().(*types.Named); ok {
							if _, isI := n.Underlying().(*types.Interface); isI {
								statsIface = n
							}
						}
					}
				}
			}
		}
		if statsIface != nil {
			set(statsIface, "stats")
			if ii, ok := statsIface.Underlying().(*types.Interface); ok {
				for _, st := range structsOf("ratelimiter", func(n *types.Named, _ *types.Struct) bool {
					inst := instantiateAny(n)
					return inst != nil && types.Implements(types.NewPointer(inst), ii)
				}) {
					bursty := false
					ss := st.Underlying().(*types.Struct)
					for i := 0; i < ss.NumFields(); i++ {
						if b, ok := ss.Field(i).Type().(*types.Basic); ok && b.Kind() == types.Int {
							bursty = true
						}
					}
					if bursty {
						set(st, "burstyStats")
					} else {
						set(st, "smoothStats")
					}
				}
			}
		}
	}
}

// execNamedOf finds the policy executor struct of a package: the struct embedding policy.BaseExecutor.
func execNamedOf(p *Program, pkg string) *types.Named {
	pk := p.ByPath[p.pkgPath(pkg)]
	if pk == nil {
		return nil
	}
	sc := pk.Types.Scope()
	for _, n := range sc.Names() {
		tn, ok := sc.Lookup(n).(*types.TypeName)
		if !ok {
			continue
		}
		named, ok := tn.Type().(*types.Named)
		if !ok {
			continue
		}
		s, ok := named.Underlying().(*types.Struct)
		if !ok {
			continue
		}
		for i := 0; i < s.NumFields(); i++ {
			f := s.Field(i)
			if !f.Embedded() {
				continue
			}
			t := f.Type()
			if pt, isP := t.(*types.Pointer); isP {
				t = pt.Elem()
			}
			if en, ok := t.(*types.Named); ok && en.Obj().Name() == "BaseExecutor" {
				return named
			}
		}
	}
	return nil
}

// canonicalField maps a "pkg.Type.field" key of the analysed tree to the canonical field name.
func canonicalField(key string) string {
	if c, ok := toCanonical[key]; ok {
		return c
	}
	if i := strings.LastIndex(key, "."); i >= 0 {
		return key[i+1:]
	}
	return key
}

// actualField maps a canonical field name to the name on the analysed tree.
func actualField(pkg, typ, canonical string) string {
	if a, ok := toActual[pkg+"."+typ+"."+canonical]; ok {
		return a
	}
	return canonical
}

// ---- function roles ----------------------------------------------------------------------------------------
//
// Unexported functions the rules address by name are resolved by role when the name is gone (renamed): "the
// in-package function the exported X calls", "the callee whose result feeds time.NewTimer in the retry closure",
// … The function found is registered under its canonical name and its call events carry the canonical name.

var funcCanon = map[*ssa.Function]string{}

type funcRole struct {
	canonical string // full canonical FuncName
	find      func(p *Program) *ssa.Function
}

// inPkgCallees lists static callees of fn (and its closures) that live in fn's package, in order.
func inPkgCallees(p *Program, fn *ssa.Function, withClosures bool) []*ssa.Function {
	var out []*ssa.Function
	var visit func(f *ssa.Function)
	visit = func(f *ssa.Function) {
		for _, b := range f.Blocks {
			for _, in := range b.Instrs {
				cc, ok := in.(ssa.CallInstruction)
				if !ok {
					continue
				}
				if cal := calleeOf(cc.Common()); cal != nil && p.InScope[cal] && cal.Pkg == fn.Pkg && cal.Parent() == nil {
					out = append(out, cal)
				}
			}
		}
		if withClosures {
			for _, a := range f.AnonFuncs {
				visit(a)
			}
		}
	}
	visit(fn)
	return out
}

func firstUnexportedCallee(p *Program, from string, withClosures bool, pred func(*ssa.Function) bool) *ssa.Function {
	fn := p.byName[from]
	if fn == nil {
		return nil
	}
	for _, cal := range inPkgCallees(p, fn, withClosures) {
		if cal.Object() != nil && cal.Object().Exported() {
			continue
		}
		if pred == nil || pred(cal) {
			return cal
		}
	}
	return nil
}

func recvNamed(f *ssa.Function) string {
	if f.Signature.Recv() == nil {
		return ""
	}
	if n := namedOfPtr(f.Signature.Recv().Type()); n != nil {
		return typeCanonName(n.Obj())
	}
	return ""
}

func funcRoles() []funcRole {
	viaExported := func(canonical, exported string, recv string) funcRole {
		return funcRole{canonical, func(p *Program) *ssa.Function {
			return firstUnexportedCallee(p, exported, false, func(f *ssa.Function) bool { return recv == "" || recvNamed(f) == recv })
		}}
	}
	return []funcRole{
		viaExported("failsafe.(*executor).executeSync", "failsafe.(*executor).Get", "executor"),
		viaExported("failsafe.(*executor).executeAsync", "failsafe.(*executor).GetAsync", "executor"),
		viaExported("failsafe.(*executor).execute", "failsafe.(*executor).executeSync", "executor"),
		{"failsafe.newExecution", func(p *Program) *ssa.Function {
			return firstUnexportedCallee(p, "failsafe.(*executor).executeSync", false, func(f *ssa.Function) bool { return f.Signature.Recv() == nil })
		}},
		viaExported("failsafe.(*execution).copy", "failsafe.(*execution).CopyWithResult", "execution"),
		{"failsafe.(*executionResult).record", func(p *Program) *ssa.Function {
			return firstUnexportedCallee(p, "failsafe.(*executor).executeAsync", true, func(f *ssa.Function) bool { return recvNamed(f) == "executionResult" })
		}},
		{"failsafe.(*execution).record", func(p *Program) *ssa.Function {
			return firstUnexportedCallee(p, "failsafe.(*executor).execute", true, func(f *ssa.Function) bool {
				return recvNamed(f) == "execution" && f.Signature.Params().Len() == 0 && f.Signature.Results().Len() == 0
			})
		}},
		{"failsafe.newExecutionDoneEvent", func(p *Program) *ssa.Function {
			return firstUnexportedCallee(p, "failsafe.(*executor).execute", true, func(f *ssa.Function) bool { return f.Signature.Recv() == nil && f.Signature.Params().Len() == 2 })
		}},
		{"retrypolicy.(*executor).getDelay", func(p *Program) *ssa.Function {
			ap := p.byName["retrypolicy.(*executor).Apply"]
			if ap == nil {
				return nil
			}
			for _, a := range ap.AnonFuncs {
				for _, b := range a.Blocks {
					for _, in := range b.Instrs {
						if c, ok := in.(*ssa.Call); ok {
							if cal := calleeOf(&c.Call); cal != nil && qualName(cal) == "time.NewTimer" && len(c.Call.Args) == 1 {
								if src, ok := c.Call.Args[0].(*ssa.Call); ok {
									if g := calleeOf(&src.Call); g != nil && p.InScope[g] {
										return g
									}
								}
							}
						}
					}
				}
			}
			return nil
		}},
		viaExported("ratelimiter.(*rateLimiter).acquirePermitsWithMaxWait", "ratelimiter.(*rateLimiter).AcquirePermitWithMaxWait", "rateLimiter"),
		{"ratelimiter.exceedsMaxWaitTime", func(p *Program) *ssa.Function {
			return firstUnexportedCallee(p, "ratelimiter.(*smoothStats).acquirePermits", false, func(f *ssa.Function) bool { return f.Signature.Recv() == nil && f.Signature.Results().Len() == 1 })
		}},
		viaExported("circuitbreaker.(*circuitBreaker).recordSuccess", "circuitbreaker.(*circuitBreaker).RecordSuccess", "circuitBreaker"),
		viaExported("circuitbreaker.(*circuitBreaker).recordFailure", "circuitbreaker.(*circuitBreaker).RecordFailure", "circuitBreaker"),
		viaExported("circuitbreaker.(*circuitBreaker).recordResult", "circuitbreaker.(*circuitBreaker).RecordResult", "circuitBreaker"),
		viaExported("circuitbreaker.(*circuitBreaker).tryAcquirePermit", "circuitbreaker.(*circuitBreaker).TryAcquirePermit", "circuitBreaker"),
		viaExported("circuitbreaker.(*circuitBreaker).open", "circuitbreaker.(*circuitBreaker).Open", "circuitBreaker"),
		viaExported("circuitbreaker.(*circuitBreaker).close", "circuitbreaker.(*circuitBreaker).Close", "circuitBreaker"),
		viaExported("circuitbreaker.(*circuitBreaker).halfOpen", "circuitbreaker.(*circuitBreaker).HalfOpen", "circuitBreaker"),
		viaExported("circuitbreaker.(*circuitBreaker).transitionTo", "circuitbreaker.(*circuitBreaker).open", "circuitBreaker"),
		{"circuitbreaker.newClosedState", func(p *Program) *ssa.Function {
			return firstUnexportedCallee(p, "circuitbreaker.(*config).Build", false, func(f *ssa.Function) bool { return f.Signature.Recv() == nil })
		}},
		{"failsafehttp.bodyReader", func(p *Program) *ssa.Function {
			// the only package-level function of the adapter that turns a value into a body-producing function:
			// func(any) (func() (io.Reader, error), error)
			var found *ssa.Function
			for _, f := range p.Funcs {
				if f.Pkg == nil || f.Pkg.Pkg.Name() != "failsafehttp" || f.Parent() != nil || f.Signature.Recv() != nil {
					continue
				}
				sig := f.Signature
				if sig.Params().Len() != 1 || sig.Results().Len() != 2 {
					continue
				}
				if _, isFn := sig.Results().At(0).Type().Underlying().(*types.Signature); !isFn {
					continue
				}
				if found != nil {
					return nil
				}
				found = f
			}
			return found
		}},
		{"internal.FailureResult", func(p *Program) *ssa.Function {
			// the result constructor moved out of package internal: the only package-level function in scope that
			// takes one error and returns a *PolicyResult; what it builds is checked by the failure-result rule
			var found *ssa.Function
			for _, f := range p.Funcs {
				if f.Pkg == nil || f.Parent() != nil || f.Signature.Recv() != nil || !p.InScope[f] {
					continue
				}
				sig := f.Signature
				if sig.Params().Len() != 1 || sig.Results().Len() != 1 || sig.Params().At(0).Type().String() != "error" {
					continue
				}
				pt, ok := sig.Results().At(0).Type().(*types.Pointer)
				if !ok {
					continue
				}
				n, ok := pt.Elem().(*types.Named)
				if !ok || n.Obj().Name() != "PolicyResult" {
					continue
				}
				if found != nil {
					return nil
				}
				found = f
			}
			return found
		}},
		{"util.errorAs", func(p *Program) *ssa.Function {
			// the unexported function or method of package util that tests reflect assignability
			var found *ssa.Function
			for _, f := range p.Funcs {
				if f.Pkg == nil || f.Pkg.Pkg.Name() != "util" || f.Parent() != nil || (f.Object() != nil && f.Object().Exported()) {
					continue
				}
				calls := false
				for _, b := range f.Blocks {
					for _, in := range b.Instrs {
						if cc, ok := in.(ssa.CallInstruction); ok && cc.Common().IsInvoke() && cc.Common().Method.Name() == "AssignableTo" {
							calls = true
						}
					}
				}
				if calls {
					if found != nil {
						return nil
					}
					found = f
				}
			}
			return found
		}},
	}
}

func shortName(full string) string {
	if i := strings.LastIndex(full, "."); i >= 0 {
		return full[i+1:]
	}
	return full
}

var funcsRenamed int

func resolveFuncRoles(p *Program) {
	funcCanon = map[*ssa.Function]string{}
	funcsRenamed = 0
	for _, r := range funcRoles() {
		if p.byName[r.canonical] != nil {
			continue
		}
		if fn := r.find(p); fn != nil {
			p.byName[r.canonical] = fn
			funcCanon[fn] = shortName(r.canonical)
			funcsRenamed++
		}
	}
}

// ---- interface method roles ----------------------------------------------------------------------------------
//
// The unexported methods of the breaker's circuitState interface are addressed by the rules by name; when one is
// renamed it is recognised by its signature (each has a distinct one).

var methodCanon = map[string]string{} // "pkg.actual" -> canonical method name

func canonMethodName(f *types.Func) string {
	if f.Pkg() != nil {
		if c, ok := methodCanon[f.Pkg().Name()+"."+f.Name()]; ok {
			return c
		}
	}
	return f.Name()
}

func resolveIfaceRoles(p *Program) {
	methodCanon = map[string]string{}
	iface := p.NamedType("circuitbreaker", "circuitState")
	if iface == nil {
		return
	}
	it, ok := iface.Underlying().(*types.Interface)
	if !ok {
		return
	}
	classify := func(sig *types.Signature) string {
		np, nr := sig.Params().Len(), sig.Results().Len()
		switch {
		case np == 1 && nr == 0:
			return "checkThresholdAndReleasePermit"
		case np == 0 && nr == 1:
			rt := sig.Results().At(0).Type()
			switch types.TypeString(rt, func(*types.Package) string { return "" }) {
			case "bool":
				return "tryAcquirePermit"
			case "Duration":
				return "remainingDelay"
			case "State":
				return "state"
			}
		}
		return ""
	}
	seen := map[string]int{}
	for i := 0; i < it.NumExplicitMethods(); i++ {
		seen[classify(it.ExplicitMethod(i).Type().(*types.Signature))]++
	}
	for i := 0; i < it.NumExplicitMethods(); i++ {
		m := it.ExplicitMethod(i)
		canon := classify(m.Type().(*types.Signature))
		if canon == "" || seen[canon] != 1 || canon == m.Name() {
			continue
		}
		methodCanon["circuitbreaker."+m.Name()] = canon
		funcsRenamed++
		for _, impl := range p.Implementers(iface) {
			if impl.Obj().Pkg() == nil || impl.Obj().Pkg().Name() != "circuitbreaker" {
				continue
			}
			fn := p.MethodOf(impl, m.Name())
			if fn == nil {
				continue
			}
			// only methods declared on the type itself
			if rn := namedOfPtr(fn.Signature.Recv().Type()); rn == nil || rn.Obj() != impl.Obj() {
				continue
			}
			p.byName["circuitbreaker.(*"+impl.Obj().Name()+")."+canon] = fn
			funcCanon[fn] = canon
		}
	}
}

// resolveThinWrappers: when an exported method does nothing but hand its receiver and parameters, in order, to an
// unexported function of its package and return that function's results, the unexported function *is* the exported
// operation (its body moved out so that other code of the package can call it without going through the method).
// Calls of it are reported under the exported name, so rules that look for "a call of AcquirePermitWithMaxWait" see
// one whichever of the two is called.
func resolveThinWrappers(p *Program) {
	for _, fn := range p.Funcs {
		if fn.Parent() != nil || fn.Object() == nil || !fn.Object().Exported() || len(fn.Blocks) != 1 {
			continue
		}
		var call *ssa.Call
		okShape := true
		for _, in := range fn.Blocks[0].Instrs {
			switch x := in.(type) {
			case *ssa.Call:
				if call != nil {
					okShape = false
				}
				call = x
			case *ssa.Extract, *ssa.DebugRef:
			case *ssa.Return:
				for _, r := range x.Results {
					if r == ssa.Value(call) {
						continue
					}
					if ex, isEx := r.(*ssa.Extract); isEx && ex.Tuple == ssa.Value(call) {
						continue
					}
					okShape = false
				}
			default:
				okShape = false
			}
		}
		if !okShape || call == nil {
			continue
		}
		helper := calleeOf(&call.Call)
		if helper == nil || !p.InScope[helper] || helper.Pkg != fn.Pkg || helper.Object() == nil || helper.Object().Exported() || helper.Parent() != nil {
			continue
		}
		if len(call.Call.Args) != len(fn.Params) {
			continue
		}
		same := true
		for i, a := range call.Call.Args {
			if a != ssa.Value(fn.Params[i]) {
				same = false
			}
		}
		if !same {
			continue
		}
		if _, has := funcCanon[helper]; has {
			continue
		}
		// only when the helper's own name is not one the rules know
		if _, isRef := refParamNames(p.CanonFuncName(helper)); isRef {
			continue
		}
		funcCanon[helper] = fn.Name()
		funcsRenamed++
	}
}

// canonName: the name rules know a function by.
func canonName(fn *ssa.Function) string {
	if fn == nil {
		return ""
	}
	fn = origin(fn)
	if c, ok := funcCanon[fn]; ok {
		return c
	}
	return fn.Name()
}

var debugRoles = os.Getenv("FSCHECK_DEBUG_ROLES") != ""

func debugTypeRoles() {
	for k, v := range toActual {
		if !strings.HasSuffix(k, "."+v) {
			fmt.Printf("field %s -> %s\n", k, v)
		}
	}
	for f, c := range funcCanon {
		if f.Name() != c {
			fmt.Printf("func %s -> %s\n", f.String(), c)
		}
	}
	for o, c := range typeCanon {
		fmt.Printf("typeCanon %s.%s -> %s\n", o.Pkg().Name(), o.Name(), c)
	}
}
