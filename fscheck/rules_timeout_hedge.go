package main

// Timeout (C07) and hedge (C09) executor rules.

import (
	"fmt"
	"go/token"
	"go/types"
	"strconv"
	"strings"

	"golang.org/x/tools/go/ssa"
)

// ---- C07 -----------------------------------------------------------------------------------------------

func rulesC07(c *Ctx) {
	c07Race(c)
	c07IsFailure(c)
	c07ErrOwner(c)
	buildersStore(c, "timeout")
	delegatingBuilders(c, "timeout")
	// the limit applies afresh to each attempt under a retry: the execution's per-attempt protocol
	execStateMethods(c, nil)
	c.Rule("per-attempt")
	retryLoop(c, map[string]bool{"recheck": true, "returns": true})
	ruleFailureResult(c)
	c01PostExecute(c)
	c.Rule("fresh-executor")
	c01Self(c)
	buildCopiesConfig(c)
	// "… when a retry policy encloses the Timeout" / under a hedge: one timeout executor serves concurrent attempts, so
	// it must keep nothing per attempt on itself
	c14ConfinementOf(c, "timeout")
	// "cancelled for everything inside the Timeout" is read through IsCanceled() / Canceled(): they describe the
	// execution's own context, not the cancel result shared with enclosing scopes
	c17Flags(c)
}

func c07Race(c *Ctx) {
	c.Rule("race")
	tab := c.ExecTable()
	info := tab["timeout"]
	if info == nil || info.Slots["Apply"] == nil {
		c.Unresolved("timeout.executor.Apply", "not resolved")
		return
	}
	ee := c.NewExecEval(info, EvalConfig{Inline: inlinePkgs(c.P, "internal")})
	paths, innerFn, exec := ee.RunApply()
	ev, ts := ee.Ev, ee.Ev.TS
	apply := info.Slots["Apply"]
	name, pos := c.fn(apply)+"$1", c.P.FuncPos(apply)
	if ev.Err != nil || len(paths) == 0 {
		c.Undecided(name, pos, fmt.Sprintf("evaluation failed: %v", ev.Err), "")
		return
	}
	limit := ev.LoadField(ee.St, ee.X, "timeout", "config", "timeLimit")
	listener := ev.LoadField(ee.St, ee.X, "timeout", "config", "onTimeoutExceeded")
	if limit == nil || listener == nil {
		c.Unresolved(name, "fields timeLimit / onTimeoutExceeded not found")
		return
	}
	ok := true
	seen := map[tri]bool{}
	var callbackChecked bool
	for _, p := range paths {
		bad := func(msg string) {
			ok = false
			c.Fail(name, pos, msg, pathTrace(ev, p))
		}
		if p.Exit != ExitReturn {
			bad("non-returning path")
			continue
		}
		evs := p.Events()
		for _, e := range evs[:p.Base] {
			if e.Kind == EvCall && (e.Method == "AfterFunc" || e.Method == "NewTimer") {
				bad("the timer is created outside the per-invocation closure: the limit would not apply afresh to each attempt")
			}
		}
		var cp, af, in, cas, stop, post *Event
		for _, e := range evs[p.Base:] {
			switch {
			case isCall(e, "CopyForCancellable") && cp == nil:
				cp = e
			case isCall(e, "AfterFunc") && af == nil:
				af = e
			case isDynCall(e, innerFn) && in == nil:
				in = e
			case isCall(e, "CompareAndSwap") && cas == nil:
				cas = e
			case isCall(e, "Stop"):
				stop = e
			case isCall(e, "PostExecute"):
				post = e
			}
		}
		if cp == nil || cp.Recv != exec {
			bad("the attempt must run on a cancellable child copy of the execution (CopyForCancellable)")
			continue
		}
		child := cp.Res[0]
		if af == nil || len(af.Args) != 2 || af.Args[0] != limit || af.Args[1].Op != "closure" {
			bad("the timer must be time.AfterFunc(<configured time limit>, callback): a different duration could fire before the limit")
			continue
		}
		if in == nil || in.Idx < af.Idx || len(in.Args) != 1 || in.Args[0] != child || len(eventsWhere(p, func(e *Event) bool { return isDynCall(e, innerFn) })) != 1 {
			bad("innerFn must be called exactly once, after the timer was armed, with the cancellable child execution")
			continue
		}
		if cas == nil || cas.Idx < in.Idx || !perInvocation(cas.Recv, apply) || !cas.Args[0].IsNilConst() || cas.Args[1] != in.Res[0] {
			bad("the inner result must be published by CompareAndSwap(nil, inner result) on the per-attempt result pointer")
			continue
		}
		ptr := cas.Recv
		won := p.State.Facts.Truth(ts, cas.Res[0])
		seen[won] = true
		if won == triT && (stop == nil || stop.Recv != af.Res[0] || stop.Idx < cas.Idx) {
			bad("when the inner result wins the race the timer must be stopped")
		}
		if won == triU {
			bad("path does not depend on who won the race")
		}
		if post == nil || post.Args[0] != child || !(post.Args[1].Op == "app" && hasPrefix(post.Args[1].Aux, "Load@") && post.Args[1].Args[0] == ptr) || post.Idx < cas.Idx || p.Rets[0] != post.Res[0] {
			bad("the closure must return PostExecute(child, <the pointer's winning value>)")
			continue
		}
		// nothing else may cancel or call the listener on the main path
		for _, e := range evs[p.Base:] {
			if isCall(e, "Cancel") || isDynCall(e, listener) {
				bad("the main path must not cancel the execution or call the timeout listener: only the timer callback that won the race may")
			}
		}
		// the callback
		if !callbackChecked && af.Snap != nil {
			callbackChecked = true
			if !c07Callback(c, ev, af, ptr, child, listener, name, pos) {
				ok = false
			}
		}
	}
	if ok && !(seen[triT] && seen[triF]) {
		ok = false
		c.Fail(name, pos, "closure lacks the won or the lost case of the race", "")
	}
	if ok && !callbackChecked {
		ok = false
		c.Undecided(name, pos, "timer callback not evaluated", "")
	}
	if ok {
		c.Ok(name, pos, "per attempt: child copy, AfterFunc(timeLimit, callback), innerFn(child) once, CAS(nil, inner result); won ⇒ timer stopped; returns PostExecute(child, winning value); only the callback cancels / notifies")
	}
}

// perInvocation: the address is (a field of) an object allocated by the returned closure or what it calls, not by
// Apply itself (which would share it between invocations).
func perInvocation(addr *T, apply *ssa.Function) bool {
	for i := 0; addr != nil && addr.Op == "faddr" && i < 4; i++ {
		addr = addr.Args[0]
	}
	if addr == nil || addr.Op != "alloc" {
		return false
	}
	if addr.Site != nil && addr.Site.Parent() == apply {
		return false
	}
	return true
}

func c07Callback(c *Ctx, ev *Evaluator, af *Event, ptr, child, listener *T, name, pos string) bool {
	ts := ev.TS
	cb := af.Args[1]
	cbFn := c.P.TargetOf(cb.Fn)
	name = c.fn(cbFn)
	qs := ev.CallTerm(af.Snap, cb, nil)
	if ev.Err != nil || len(qs) == 0 {
		c.Undecided(name, pos, fmt.Sprintf("callback evaluation failed: %v", ev.Err), "")
		return false
	}
	ok := true
	seen := map[tri]bool{}
	for _, q := range qs {
		bad := func(msg string) {
			ok = false
			c.Fail(name, c.P.FuncPos(cbFn), msg, pathTrace(ev, q))
		}
		evs := q.Events()[q.Base:]
		var cas *Event
		var cancels, ls []*Event
		for _, e := range evs {
			switch {
			case isCall(e, "CompareAndSwap"):
				if cas == nil {
					cas = e
				}
			case isCall(e, "Cancel"):
				cancels = append(cancels, e)
			case isDynCall(e, listener):
				ls = append(ls, e)
			}
		}
		if cas == nil || cas.Recv != ptr || !cas.Args[0].IsNilConst() {
			bad("the callback must race through CompareAndSwap(nil, timeout result) on the same per-attempt pointer")
			continue
		}
		tr := cas.Args[1]
		if !isFailureAlloc(ev, q, tr, func(e *T) bool { return isGlobal(e, "ErrExceeded") }) {
			bad("the timeout result must be FailureResult(ErrExceeded)")
			continue
		}
		for _, e := range append(append([]*Event{}, cancels...), ls...) {
			if e.Idx < cas.Idx {
				bad("the listener / Cancel happens before the race is decided: it must be inside the callback's CompareAndSwap-success branch")
			}
		}
		won := q.State.Facts.Truth(ts, cas.Res[0])
		seen[won] = true
		switch won {
		case triT:
			if len(cancels) != 1 || cancels[0].Recv != child || cancels[0].Args[0] != tr {
				bad("a timer that won the race must cancel the attempt's child execution exactly once with the timeout result")
				continue
			}
			has := q.State.Facts.Truth(ts, ts.Cmp("!=", listener, ts.Nil(nil)))
			if has == triU || (has == triT) != (len(ls) == 1) || len(ls) > 1 {
				bad("OnTimeoutExceeded must be called exactly once when the timer won (and a listener is set)")
				continue
			}
			if len(ls) == 1 {
				evt := ls[0].Args[0]
				if !(evt.Op == "struct" && len(evt.Args) == 3 && isGlobal(evt.Args[2], "ErrExceeded")) {
					bad("the timeout event must carry ErrExceeded")
				}
				// the cancellation is what releases a cooperating function and lets the execution return: the listener
				// must have been called by then, or the caller sees ErrExceeded with no timeout reported yet
				if ls[0].Idx > cancels[0].Idx {
					bad("the timeout listener must be called before the execution is cancelled: the cancellation lets the execution return, and by then the timeout must have been reported")
				}
			}
		case triF:
			if len(cancels) != 0 || len(ls) != 0 {
				bad("a timer that lost the race (the inner result was published first) must neither cancel the execution nor call the listener")
			}
		default:
			bad("callback path does not depend on the race")
		}
	}
	if ok && !(seen[triT] && seen[triF]) {
		ok = false
		c.Fail(name, c.P.FuncPos(cbFn), "callback lacks the won or lost case", "")
	}
	if ok {
		c.Ok(name, c.P.FuncPos(cbFn), "CAS(nil, FailureResult(ErrExceeded)); won ⇒ listener once then child.Cancel(timeout result) once; lost ⇒ nothing")
	}
	return ok
}

func c07IsFailure(c *Ctx) {
	c.Rule("isfailure")
	tab := c.ExecTable()
	info := tab["timeout"]
	if info == nil || info.Slots["IsFailure"] == nil {
		c.Unresolved("timeout.executor.IsFailure", "not resolved")
		return
	}
	fn := info.Slots["IsFailure"]
	if fn.Pkg == nil || fn.Pkg.Pkg.Name() != "timeout" {
		c.Fail("timeout.executor.IsFailure", c.P.FuncPos(fn), "the Timeout must classify with its own IsFailure (only ErrExceeded is its failure), not the shared one", "")
		return
	}
	ev := NewEvaluator(c.P, EvalConfig{DecideReturns: true})
	ts := ev.TS
	ok := true
	err := ev.Param(fn, fn.Params[2].Name())
	aE := ts.Cmp("!=", err, ts.Nil(nil))
	rows := 0
	for _, p := range ev.Run(fn) {
		var is *T
		for _, e := range p.Events() {
			if isCall(e, "Is") && len(e.Args) == 2 && e.Args[0] == err && isGlobal(e.Args[1], "ErrExceeded") {
				is = e.Res[0]
			}
		}
		for _, F := range p.State.Facts.Refine(ts, aE, is) {
			rows++
			E := F.Truth(ts, aE)
			I := triU
			if is != nil {
				I = F.Truth(ts, is)
			}
			if E == triF && is != nil && I == triT {
				continue // errors.Is(nil, ErrExceeded) is false: infeasible row
			}
			want := triAnd(E, I)
			if E == triF {
				want = triF
			}
			if got := F.Truth(ts, p.Rets[0]); want == triU || got != want {
				ok = false
				c.Fail(c.fn(fn), c.P.FuncPos(fn), fmt.Sprintf("Timeout.IsFailure must be err≠nil ∧ errors.Is(err, ErrExceeded): expected %s, code yields %s", want, got), "row: "+F.String()+"\n"+pathTrace(ev, p))
			}
		}
	}
	if ok && rows > 0 {
		c.Ok(c.fn(fn), c.P.FuncPos(fn), fmt.Sprintf("%d rows: failure ⇔ err≠nil ∧ errors.Is(err, ErrExceeded)", rows))
	}
}

// c07ErrOwner: timeout.ErrExceeded is produced only by the timer callback (and consulted by IsFailure).
func c07ErrOwner(c *Ctx) {
	c.Rule("err-owner")
	n := 0
	ok := true
	ix := BuildIndex(c.P)
	// the timer callbacks of the package: functions handed to time.AfterFunc (closures or bound methods); they run
	// only when the timer fires, provided nothing calls them directly
	callbacks := map[*ssa.Function]bool{}
	for _, fn := range c.P.Funcs {
		if fn.Pkg == nil || fn.Pkg.Pkg.Name() != "timeout" {
			continue
		}
		for _, b := range fn.Blocks {
			for _, in := range b.Instrs {
				call, isCall := in.(*ssa.Call)
				if !isCall {
					continue
				}
				if cb := c.P.afterFuncArg(&call.Call); cb != nil {
					if t := ix.resolveFnValue(cb); t != nil {
						callbacks[t] = true
					}
				}
			}
		}
	}
	for cb := range callbacks {
		if len(ix.Callers[cb]) > 0 {
			ok = false
			c.Fail(c.fn(cb)+"#direct-call", c.P.FuncPos(cb), "the timer callback is also called directly by "+c.fn(ix.Callers[cb][0])+": the timeout result could be produced before the limit elapsed", "")
		}
	}
	for _, fn := range c.P.Funcs {
		if fn.Pkg == nil || fn.Pkg.Pkg.Name() != "timeout" {
			continue
		}
		for _, b := range fn.Blocks {
			for _, in := range b.Instrs {
				for _, op := range in.Operands(nil) {
					g, isG := (*op).(*ssa.Global)
					if !isG || g.Name() != "ErrExceeded" {
						continue
					}
					n++
					name := c.fn(fn)
					// a load consulted only as what an error is compared with (errors.Is(err, ErrExceeded), ==) produces
					// nothing
					if ld, isLoad := in.(*ssa.UnOp); isLoad && comparedOnly(ld) {
						continue
					}
					// the callback, IsFailure, and helpers only they reach (isExceeded(err), exceededResult())
					isCallback := ix.Within(fn, func(f *ssa.Function) bool { return callbacks[f] || (f.Name() == "IsFailure" && f.Pkg == fn.Pkg) })
					if !(isCallback || fn.Name() == "IsFailure" || fn.Name() == "init") {
						ok = false
						c.Fail(name, c.P.Pos(in.Pos()), "timeout.ErrExceeded is referenced outside the timer callback and IsFailure: it could be produced before the limit elapsed", "")
					}
				}
			}
		}
	}
	c.Floor("references to timeout.ErrExceeded", n, 2)
	if ok {
		c.Ok("timeout.ErrExceeded#references", "", fmt.Sprintf("%d references: timer callback, IsFailure and the variable's initialiser only", n))
	}
}

// ---- C09 -----------------------------------------------------------------------------------------------

func rulesC09(c *Ctx) {
	c09Loop(c)
	buildersStore(c, "hedgepolicy")
	delegatingBuilders(c, "hedgepolicy")
	c09DelayBuilder(c)
	execStateMethods(c, nil)
	c.Rule("fresh-executor")
	c01Self(c)
	buildCopiesConfig(c)
	c.Rule("cancel-conditions")
	c12Registrars(c)
	c12AnyOf(c)
	c12Unwrap(c)
	c12Builders(c)
	// "the winning attempt has not [been cancelled]", wherever the hedge sits: a Timeout around it cancels only from the
	// timer callback that won the race, never on the path that returns the inner result
	c.Rule("enclosing-timeout")
	c07Race(c)
	// … and whichever entry point started the execution: the async runner records execute's value and does nothing else
	// (releasing the root context before the result is handed over cancels the winner's context)
	executeAsyncRule(c)
}

func c09Loop(c *Ctx) {
	c.Rule("loop")
	tab := c.ExecTable()
	info := tab["hedgepolicy"]
	if info == nil || info.Slots["Apply"] == nil {
		c.Unresolved("hedgepolicy.executor.Apply", "not resolved")
		return
	}
	ee := c.NewExecEval(info, EvalConfig{MaxVisits: visits(4), MaxPaths: 400000})
	paths, innerFn, exec := ee.RunApply()
	ev, ts := ee.Ev, ee.Ev.TS
	apply := info.Slots["Apply"]
	name, pos := c.fn(apply)+"$1", c.P.FuncPos(apply)
	if ev.Err != nil || len(paths) == 0 {
		c.Undecided(name, pos, fmt.Sprintf("evaluation failed: %v", ev.Err), "")
		return
	}
	c.Count("paths", len(paths))
	intT := types.Typ[types.Int]
	maxHedges := ev.LoadField(ee.St, ee.X, "hedgePolicy", "config", "maxHedges")
	onHedge := ev.LoadField(ee.St, ee.X, "hedgePolicy", "config", "onHedge")
	delayFn := ev.LoadField(ee.St, ee.X, "hedgePolicy", "config", "delayFunc")
	if maxHedges == nil || onHedge == nil || delayFn == nil {
		c.Unresolved(name, "fields maxHedges / onHedge / delayFunc not found")
		return
	}
	ok := true
	fail := func(p *Path, at *Event, msg string) {
		ok = false
		ps := pos
		if at != nil {
			ps = c.P.Pos(at.Instr.Pos())
		}
		c.Fail(name, ps, msg, pathTrace(ev, p))
	}
	var goSample *Event
	var resultChan *T
	returnsSeen := map[string]bool{}
	maxRounds := 0
	for _, p := range paths {
		evs := p.Events()[p.Base:]
		var gos []int
		for i, e := range evs {
			if e.Kind == EvGo {
				gos = append(gos, i)
			}
		}
		if len(gos) == 0 {
			fail(p, nil, "a path through the hedge closure starts no attempt")
			continue
		}
		if len(gos) > maxRounds {
			maxRounds = len(gos)
		}
		var attempts []*T
		bad := false
		// infeasible paths: (a) a received message is nil — every send is a fresh allocation and the channel is
		// never closed (C09.attempt); (b) the attempts slice (length maxHedges+1) is indexed out of range.
		infeasible := false
		for k := range gos {
			if p.State.Facts.Truth(ts, ts.Cmp("<", ts.LinConst(int64(k), intT), ts.Add(maxHedges, ts.LinConst(1, intT), intT))) == triF {
				infeasible = true
			}
		}
		for _, e := range evs {
			var msg *T
			if e.Kind == EvSelect && e.Chosen >= 0 && e.Cases[e.Chosen].Chan.Op == "makechan" && len(e.Res) == 1 {
				msg = e.Res[0]
			}
			if e.Kind == EvRecv && e.Addr.Op == "makechan" && len(e.Res) == 1 {
				msg = e.Res[0]
			}
			if msg != nil && p.State.Facts.Truth(ts, ts.Cmp("==", msg, ts.Nil(nil))) == triT {
				infeasible = true
			}
			if e.Kind == EvClose && e.Addr.Op == "makechan" {
				fail(p, e, "the result channel is closed: receivers would see nil messages")
			}
		}
		if infeasible {
			continue
		}
		for k, gi := range gos {
			g := evs[gi]
			if goSample == nil {
				goSample = g
			}
			start := 0
			if k > 0 {
				start = gos[k-1] + 1
			}
			prep := evs[start:gi]
			end := len(evs)
			if k+1 < len(gos) {
				end = gos[k+1]
			}
			after := evs[gi+1 : end]
			// bound: hedge k only if k ≤ maxHedges
			if k > 0 && p.State.Facts.Truth(ts, ts.Cmp("<=", ts.LinConst(int64(k), intT), maxHedges)) != triT {
				fail(p, g, fmt.Sprintf("hedge #%d is started on a path that does not imply %d ≤ maxHedges: more than maxHedges+1 attempts are possible", k, k))
				bad = true
				break
			}
			// the attempt's execution copy
			var cp *Event
			for _, e := range prep {
				if isCall(e, "CopyForCancellable") || isCall(e, "CopyForHedge") {
					cp = e
				}
			}
			wantCopy := "CopyForHedge"
			if k == 0 {
				wantCopy = "CopyForCancellable"
			}
			if cp == nil || cp.Method != wantCopy || cp.Recv != exec {
				fail(p, g, fmt.Sprintf("attempt #%d must run on parent.%s() (hedges are counted as attempts and hedges, the first attempt is not)", k, wantCopy))
				bad = true
				break
			}
			x := cp.Res[0]
			attempts = append(attempts, x)
			ga := flatArgs(g.Args)
			if ev.EventFn(g) == nil || len(ga) != 2 || (ga[0] != x && ga[1] != x) {
				fail(p, g, "the attempt goroutine must receive its own execution copy")
				bad = true
				break
			}
			idxArg := ga[1]
			if ga[1] == x {
				idxArg = ga[0]
			}
			if idx, isC := idxArg.IsConstInt(); !isC || idx != int64(k) {
				fail(p, g, fmt.Sprintf("attempt #%d is started with index %s", k, idxArg))
				bad = true
				break
			}
			// OnHedge: once per hedge (k>0), before its go, with a copy of the hedge's execution
			hs := 0
			for _, e := range prep {
				if isDynCall(e, onHedge) {
					hs++
					evt := e.Args[0]
					if !(evt.Op == "struct" && len(evt.Args) == 1 && copyOf(p, evt.Args[0], x, nil)) {
						fail(p, e, "OnHedge must carry a private copy of the hedge's execution")
					}
				}
			}
			has := p.State.Facts.Truth(ts, ts.Cmp("!=", onHedge, ts.Nil(nil)))
			wantH := 0
			if k > 0 && has == triT {
				wantH = 1
			}
			if hs != wantH || (k > 0 && has == triU) {
				fail(p, g, fmt.Sprintf("OnHedge must fire exactly once per started hedge (before it starts) and never for the first attempt; found %d calls before attempt #%d", hs, k))
			}
			// the wait after the go
			var sel, tim, df, canc *Event
			for _, e := range after {
				switch {
				case e.Kind == EvSelect && sel == nil:
					sel = e
				case e.Kind == EvRecv && sel == nil:
					// a select with a single receive case is compiled to a plain receive
					sel = &Event{Kind: EvSelect, Cases: []SelCase{{Dir: types.RecvOnly, Chan: e.Addr}}, Chosen: 0, Res: e.Res, Instr: e.Instr, Idx: e.Idx}
				case isCall(e, "NewTimer") && tim == nil:
					tim = e
				case isDynCall(e, delayFn) && df == nil:
					df = e
				case isCall(e, "IsCanceledWithResult") && e.Recv == exec && canc == nil:
					canc = e
				}
			}
			if sel == nil {
				if p.Exit == ExitCut {
					bad = true
					break
				}
				fail(p, g, "after starting an attempt the closure must wait for a result (or the hedge delay)")
				bad = true
				break
			}
			if si, isSel := sel.Instr.(*ssa.Select); isSel && !si.Blocking {
				fail(p, sel, "the wait is non-blocking")
			}
			// cases: one receive from the result channel; optionally the timer
			rc, tc := -1, -1
			for i, cs := range sel.Cases {
				if cs.Dir == types.RecvOnly && cs.Chan.Op == "makechan" {
					rc = i
					resultChan = cs.Chan
				}
				if tim != nil && cs.Dir == types.RecvOnly && (cs.Chan.Op == "fld" || cs.Chan.Op == "init") && strings.HasSuffix(cs.Chan.String(), ".C") && cs.Chan.Contains(tim.Res[0]) {
					tc = i
				}
			}
			if rc < 0 {
				fail(p, sel, "the wait does not receive from the per-execution result channel")
				bad = true
				break
			}
			more := p.State.Facts.Truth(ts, ts.Cmp("<", ts.LinConst(int64(k), intT), maxHedges))
			switch more {
			case triT:
				if tim == nil || df == nil || tc < 0 || !sameDelay(tim.Args[0], df.Res[0]) || df.Idx < g.Idx || len(sel.Cases) != 2 {
					fail(p, sel, fmt.Sprintf("while hedges remain (attempt #%d < maxHedges) the wait must also select on a timer whose duration is the delay function's value computed for this wait", k))
					bad = true
				} else if len(df.Args) != 1 || !copyOf(p, df.Args[0], exec, nil) {
					fail(p, df, "the delay function must receive a private copy of the execution")
				}
			case triF:
				if tim != nil || len(sel.Cases) != 1 {
					fail(p, sel, "once all hedges are started the closure must wait for the result only")
					bad = true
				}
			default:
				fail(p, sel, "the wait does not depend on whether hedges remain (execIdx < maxHedges)")
				bad = true
			}
			if bad {
				break
			}
			gotResult := sel.Chosen == rc
			if gotResult && tim != nil {
				if len(eventsWhere(p, func(e *Event) bool { return isCall(e, "Stop") && e.Recv == tim.Res[0] && e.Idx > sel.Idx })) == 0 {
					fail(p, sel, "the hedge delay timer is not stopped when a result arrives first")
				}
			}
			if canc == nil || canc.Idx < sel.Idx {
				if p.Exit == ExitCut {
					bad = true
					break
				}
				fail(p, sel, "after the wait the closure must test whether the parent execution is cancelled")
				bad = true
				break
			}
			// … before anything is done for a further attempt: CopyForHedge counts a hedge (attempts+1, hedges+1), so a
			// copy made before the test counts a hedge that a cancelled execution never starts
			for _, e := range after {
				if e.Idx > sel.Idx && e.Idx < canc.Idx && (isCall(e, "CopyForHedge") || isCall(e, "CopyForCancellable")) {
					fail(p, e, "the next attempt's execution is copied (and counted) before the cancellation test that follows the wait: a hedge that is never started would be counted")
				}
			}
			cv := p.State.Facts.Truth(ts, canc.Res[0])
			last := k+1 == len(gos)
			if cv == triT {
				returnsSeen["cancelled"] = true
				if !last || p.Exit != ExitReturn || p.Rets[0] != canc.Res[1] {
					fail(p, canc, "a cancelled parent execution must end the hedge with the cancel result of that test")
				}
				continue
			}
			if !last {
				// another attempt follows: only legal through the timer case
				if gotResult {
					fail(p, evs[gos[k+1]], "a further attempt is started although a result was already received")
				}
				if cv != triF {
					fail(p, evs[gos[k+1]], "a further attempt is started although the cancellation test did not come out negative")
				}
				continue
			}
			// last round of this path
			if p.Exit == ExitCut {
				continue
			}
			if !gotResult {
				fail(p, sel, "the closure returns without a result and without cancellation")
				continue
			}
			returnsSeen["result"] = true
			msg := sel.Res[0]
			if p.Exit != ExitReturn || p.Rets[0] != ev.ValueField(p.State, msg, "result") {
				fail(p, sel, "the value returned must be the result carried by the received message")
				continue
			}
			widx := ev.ValueField(p.State, msg, "index")
			for i, x := range attempts {
				isWinner := p.State.Facts.Truth(ts, ts.Cmp("==", ts.LinConst(int64(i), intT), widx))
				cancels := eventsWhere(p, func(e *Event) bool { return isCall(e, "Cancel") && e.Recv == x && e.Idx > sel.Idx })
				nonNil := p.State.Facts.Truth(ts, ts.Cmp("!=", x, ts.Nil(nil)))
				switch isWinner {
				case triT:
					if len(cancels) != 0 {
						fail(p, cancels[0], "the winning attempt is cancelled")
					}
				case triF:
					if nonNil != triF && len(cancels) != 1 {
						fail(p, sel, fmt.Sprintf("attempt #%d lost but is cancelled %d times before returning (every other started attempt must be cancelled exactly once)", i, len(cancels)))
					} else if len(cancels) == 1 && !(len(cancels[0].Args) == 1 && cancels[0].Args[0].IsNilConst()) {
						// the cancel result is one cell shared by every copy of the execution: a loser cancelled with a result
						// would leave that result to be reported as the cause of a later, unrelated cancellation
						fail(p, cancels[0], "a losing attempt must be cancelled without a result (Cancel(nil)): the cancel result is shared by all copies of the execution and would be reported as the cause of a later cancellation")
					}
				default:
					fail(p, sel, fmt.Sprintf("whether attempt #%d is cancelled does not depend on the winner's index", i))
				}
			}
		}
	}
	if ok && (!returnsSeen["result"] || !returnsSeen["cancelled"] || maxRounds < 3) {
		ok = false
		c.Undecided(name, pos, fmt.Sprintf("exploration incomplete: result-return seen=%v cancel-return seen=%v, max attempts on a path=%d", returnsSeen["result"], returnsSeen["cancelled"], maxRounds), "")
	}
	// result channel: buffered with capacity ≥ 1 so that the single send never blocks
	if ok {
		if resultChan == nil {
			ok = false
			c.Undecided(name, pos, "result channel not identified", "")
		} else if id, err := strconv.Atoi(resultChan.Aux); err != nil || id <= ee.FreshAtCall {
			// one slot serves one call: a channel made by Apply is shared by every call of the returned function (each
			// round of an enclosing retry), and a slow attempt of an earlier round fills the slot of a later one
			ok = false
			c.Fail(name, pos, "the result channel must be made by each call of the returned function, not once by Apply: rounds of an enclosing retry would share its single slot and late attempts of an earlier round block for ever", "")
		} else if n, isC := resultChan.Args[0].IsConstInt(); !isC || n < 1 {
			ok = false
			c.Fail(name, pos, "the result channel must be buffered (capacity ≥ 1): the single accepted send must never block the attempt goroutine", "")
		}
	}
	if ok {
		c.Ok(name, pos, fmt.Sprintf("%d paths (up to %d attempts): attempt k only if k ≤ maxHedges and only through the delay timer; first attempt on CopyForCancellable, hedges on CopyForHedge with OnHedge once; result ⇒ all other started attempts cancelled once, winner not; cancellation re-tested after every wait", len(paths), maxRounds))
	}
	if goSample != nil && goSample.Snap != nil {
		c09Attempt(c, ev, goSample, innerFn, maxHedges, resultChan)
	} else {
		c.Undecided(name+"$attempt", pos, "attempt goroutine not found", "")
	}
}

func c09Attempt(c *Ctx, ev *Evaluator, g *Event, innerFn, maxHedges, resultChan *T) {
	c.Rule("attempt")
	ts := ev.TS
	afn := ev.EventFn(g)
	// the attempt's own execution and index: its last two parameters, or the two fields of a by-value bundle
	var hx, idx *T
	var goArgs []*T
	if afn != nil && len(afn.Params) >= 2 {
		np := len(afn.Params)
		hx = ts.intern(&T{Op: "param", Aux: "hedgeExec", Typ: afn.Params[np-2].Type()})
		idx = ts.intern(&T{Op: "param", Aux: "execIdx", Typ: afn.Params[np-1].Type()})
		goArgs = []*T{hx, idx}
	} else if afn != nil && len(afn.Params) == 1 {
		if st, isS := afn.Params[0].Type().Underlying().(*types.Struct); isS {
			comps := make([]*T, st.NumFields())
			for i := 0; i < st.NumFields(); i++ {
				ft := st.Field(i).Type()
				switch {
				case types.TypeString(ft, nil) == "int" && idx == nil:
					idx = ts.intern(&T{Op: "param", Aux: "execIdx", Typ: ft})
					comps[i] = idx
				case namedOfPtr(ft) != nil && strings.HasPrefix(namedOfPtr(ft).Obj().Name(), "Execution") && hx == nil:
					hx = ts.intern(&T{Op: "param", Aux: "hedgeExec", Typ: ft})
					comps[i] = hx
				default:
					comps[i] = ts.zeroOf(ft)
				}
			}
			if hx != nil && idx != nil {
				pt := afn.Params[0].Type()
				goArgs = []*T{ts.intern(&T{Op: "struct", Aux: types.TypeString(pt, func(*types.Package) string { return "" }), Args: comps, Typ: pt})}
			}
		}
	}
	if goArgs == nil {
		c.Undecided("hedgepolicy.(*executor).Apply$1$1", "", "attempt goroutine not resolvable", "")
		return
	}
	name, pos := "hedgepolicy.(*executor).Apply$1$1", c.P.FuncPos(afn) // the attempt goroutine, closure or method
	qs := ev.RunEvent(g.Snap, g, goArgs)
	fresh := func(t *T) bool {
		for i := 0; t != nil && t.Op == "faddr" && i < 4; i++ {
			t = t.Args[0]
		}
		return t != nil && t.Op == "alloc"
	}
	if ev.Err != nil || len(qs) == 0 {
		c.Undecided(name, pos, fmt.Sprintf("evaluation failed: %v", ev.Err), "")
		return
	}
	intT := types.Typ[types.Int]
	ok := true
	sawSend := false
	for _, q := range qs {
		bad := func(msg string) {
			ok = false
			c.Fail(name, pos, msg, pathTrace(ev, q))
		}
		evs := q.Events()[q.Base:]
		var in, add, cas, send, once *Event
		var abortable *T
		nIn, nAdd, nCas, nSend, nOnce := 0, 0, 0, 0, 0
		for _, e := range evs {
			switch {
			case isCall(e, "Do") && fresh(e.Recv) && strings.Contains(types.TypeString(e.Recv.Typ, nil), "sync.Once"):
				once = e
				nOnce++
			case isDynCall(e, innerFn):
				in = e
				nIn++
			case isCall(e, "Add") && fresh(e.Recv):
				add = e
				nAdd++
			case isCall(e, "CompareAndSwap") && fresh(e.Recv):
				cas = e
				nCas++
			case e.Kind == EvSend:
				send = e
				nSend++
			case isCall(e, "IsAbortable"):
				abortable = e.Res[0]
			case isCall(e, "Store") && e.Recv != nil && fresh(e.Recv):
				bad("an atomic guarding the result hand-off is overwritten (it must only move from unset to set once)")
			case e.Kind == EvRecv || e.Kind == EvSelect:
				bad("the attempt goroutine blocks on a channel operation other than its single send")
			}
		}
		if nIn != 1 || len(in.Args) != 1 || in.Args[0] != hx || in.Idx != evs[0].Idx && eventsWhere(q, func(e *Event) bool { return e.Idx >= q.Base && e.Idx < in.Idx && !e.Pure }) != nil {
			bad("the attempt must call innerFn exactly once with its own execution, before anything else")
			continue
		}
		if nAdd != 1 || !(len(add.Args) == 1 && add.Args[0] == ts.LinConst(1, add.Args[0].Typ)) {
			bad("every finished attempt must be counted exactly once (resultCount.Add(1)) on every path")
			continue
		}
		// the counter and the delivery claim belong to the hedged call, not to one attempt: they were made before the
		// attempt was started
		sharedCell := func(t *T) bool {
			for i := 0; t != nil && t.Op == "faddr" && i < 4; i++ {
				t = t.Args[0]
			}
			if t == nil || t.Op != "alloc" || g.Snap == nil {
				return false
			}
			n, err := strconv.Atoi(t.Aux)
			return err == nil && n <= g.Snap.nFresh
		}
		if !sharedCell(add.Recv) {
			bad("the counter of finished attempts must be the one shared by all attempts of this call (an attempt's own counter never reaches maxHedges+1, so a call whose attempts all fail would never return)")
			continue
		}
		if abortable == nil {
			bad("the attempt's result is not tested against the cancel conditions")
			continue
		}
		res := in.Res[0]
		_ = res
		final := q.State.Facts.Truth(ts, ts.Cmp("==", add.Res[0], ts.Add(maxHedges, ts.LinConst(1, intT), intT)))
		ab := q.State.Facts.Truth(ts, abortable)
		eligible := triOr(final, ab)
		if eligible == triU {
			bad("whether the result may be delivered does not depend on: (this is the last of the maxHedges+1 attempts to finish) ∨ (it matches the cancel conditions)")
			continue
		}
		if eligible == triF {
			if nCas != 0 || nSend != 0 || nOnce != 0 {
				bad("a result that neither matches the cancel conditions nor is the last to finish must not be delivered nor claim the delivery slot")
			}
			continue
		}
		// the claim may also be a sync.Once shared by all attempts of this call: Do runs the send for the first claimant
		// only, which is what winning the CompareAndSwap means
		if nCas == 0 && nOnce == 1 && nSend == 0 {
			if !sharedCell(once.Recv) || len(once.Args) != 1 || once.Args[0].Fn == nil {
				bad("the sync.Once that claims delivery must be the one shared by all attempts of this call, and be given the send")
				continue
			}
			for _, d := range ev.CallTerm(q.State, once.Args[0], nil) {
				var own []*Event
				for _, x := range impure(d) {
					if x.Idx >= d.Base {
						own = append(own, x)
					}
				}
				if d.Exit != ExitReturn || len(own) != 1 || own[0].Kind != EvSend || own[0].Addr != resultChan {
					ok = false
					c.Fail(name, pos, "the function run once must be exactly one send on the result channel", pathTrace(ev, d))
					continue
				}
				sawSend = true
				m := own[0].Val
				if (m.Op != "alloc" && m.Op != "struct") || ev.ValueField(d.State, m, "result") != in.Res[0] || ev.ValueField(d.State, m, "index") != idx {
					ok = false
					c.Fail(name, pos, "the message must carry this attempt's own result and index", pathTrace(ev, d))
				}
			}
			continue
		}
		if nCas != 1 || !isFalse(cas.Args[0]) || !isTrue(cas.Args[1]) {
			bad("an eligible result must claim delivery through exactly one CompareAndSwap(false, true)")
			continue
		}
		if !sharedCell(cas.Recv) {
			bad("the delivery claim must be made on the flag shared by all attempts of this call (with a flag of its own every eligible attempt sends, and the second send blocks its goroutine for ever)")
			continue
		}
		won := q.State.Facts.Truth(ts, cas.Res[0])
		switch won {
		case triT:
			if nSend != 1 || send.Idx < cas.Idx || send.Addr != resultChan {
				bad("the attempt that claimed delivery must send exactly one message on the result channel")
				continue
			}
			sawSend = true
			m := send.Val
			if (m.Op != "alloc" && m.Op != "struct") || ev.ValueField(q.State, m, "result") != in.Res[0] || ev.ValueField(q.State, m, "index") != idx {
				bad("the message must carry this attempt's own result and index")
			}
		case triF:
			if nSend != 0 {
				bad("an attempt that did not claim delivery must not send")
			}
		default:
			bad("path does not depend on the delivery claim")
		}
	}
	if ok && !sawSend {
		ok = false
		c.Fail(name, pos, "no path delivers a result", "")
	}
	if ok {
		c.Ok(name, pos, fmt.Sprintf("%d paths: innerFn once; counted once; delivered ⇔ (last to finish ∨ matches cancel conditions) ∧ CAS(false,true) won; one non-blocking send carrying its own result and index", len(qs)))
	}
}

// c09DelayBuilder: BuilderWithDelay(d) builds a delay function that always returns d; the default is one hedge.
func c09DelayBuilder(c *Ctx) {
	c.Rule("delay-builder")
	fn := c.P.Func("hedgepolicy.BuilderWithDelay")
	if fn == nil {
		c.Unresolved("hedgepolicy.BuilderWithDelay", "not found")
		return
	}
	// helpers of the package that make the constant function (fixedDelay(d)) are evaluated in place
	ev := NewEvaluator(c.P, EvalConfig{Opaque: map[string]bool{"BuilderWithDelayFunc": true}})
	ok := true
	ps := ev.Run(fn)
	for _, p := range ps {
		b := eventsWhere(p, func(e *Event) bool { return isCall(e, "BuilderWithDelayFunc") })
		if len(b) == 0 && p.Exit == ExitReturn && len(p.Rets) == 1 {
			// built without going through BuilderWithDelayFunc (both delegate to a newer constructor): what counts is
			// the delay function the returned builder holds
			if df := ev.LoadField(p.State, p.Rets[0], "delayFunc"); df != nil && df.Fn != nil {
				okFn := true
				for _, q := range ev.CallTerm(p.State, df, nil) {
					if q.Exit != ExitReturn || q.Rets[0] != ev.Param(fn, fn.Params[0].Name()) {
						okFn = false
					}
				}
				if okFn {
					continue
				}
			}
		}
		if p.Exit != ExitReturn || len(b) != 1 || b[0].Args[0].Fn == nil || p.Rets[0] != b[0].Res[0] {
			ok = false
			c.Fail(c.fn(fn), c.P.FuncPos(fn), "BuilderWithDelay(d) must be BuilderWithDelayFunc(func(…) { return d })", pathTrace(ev, p))
			continue
		}
		for _, q := range ev.CallTerm(p.State, b[0].Args[0], nil) {
			if q.Exit != ExitReturn || q.Rets[0] != ev.Param(fn, fn.Params[0].Name()) {
				ok = false
				c.Fail(c.fn(fn), c.P.FuncPos(fn), "the fixed hedge delay function must return exactly the configured delay", pathTrace(ev, q))
			}
		}
	}
	if ok && len(ps) > 0 {
		c.Ok(c.fn(fn), c.P.FuncPos(fn), "constant delay function returning the configured delay")
	}
}

// comparedOnly: the loaded error value is used only as the target of errors.Is / errors.As-style comparisons and of
// == / != tests.
func comparedOnly(v ssa.Value) bool {
	refs := v.Referrers()
	if refs == nil || len(*refs) == 0 {
		return false
	}
	for _, r := range *refs {
		switch x := r.(type) {
		case *ssa.DebugRef:
		case *ssa.BinOp:
			if x.Op != token.EQL && x.Op != token.NEQ {
				return false
			}
		case *ssa.Call:
			cal := x.Call.StaticCallee()
			if cal == nil || cal.Pkg == nil || cal.Pkg.Pkg.Path() != "errors" || cal.Name() != "Is" || len(x.Call.Args) != 2 || x.Call.Args[1] != v || x.Call.Args[0] == v {
				return false
			}
		default:
			return false
		}
	}
	return true
}
