package main

// Registry: property id → rules and evidence text.

type propDef struct {
	ID    string
	Rules func(c *Ctx)
	Info  propInfo
}

var commonAssumptions = []string{
	"only the library packages of /repo are in rule scope; user callbacks, user Cache implementations and code outside /repo are opaque and assumed not to touch unexported library state",
	"what is decided are structural necessary conditions of the property (DESIGN.md §3), not the behavioural statement itself",
}

var registry = map[string]*propDef{}

func register(id string, rules func(c *Ctx), explanation, notDecided string, extra ...string) {
	registry[id] = &propDef{ID: id, Rules: rules, Info: propInfo{Explanation: explanation, NotDecided: notDecided, Assumptions: append(append([]string{}, commonAssumptions...), extra...)}}
}

func init() {
	register("C01", rulesC01,
		"Static wrapper-contract check. The executor's composition loop, the leaf around the user function, BaseExecutor.Apply/PostExecute, the verdict helpers (WithDone/WithFailure), the self-binding of every ToExecutor and the eight entry points are each summarised by path-sensitive abstract evaluation of their go/ssa bodies (every feasible case of the predicate abstraction; calls to user code and interface slots are opaque events) and each summary is compared with the contract that makes a policy list behave as the nesting P1(P2(...Pn(fn))): policies applied innermost-first, the composed function invoked exactly once with the outer execution, a rejecting PreExecute returns before innerFn, PostExecute dispatches exactly one of OnFailure/OnSuccess through the self reference, and the caller receives exactly the outermost result.",
		"each policy's own documented behaviour beyond C02–C11; histories against stateful policies; anything about concurrent executions")
	register("C02", rulesC02,
		"Static check of the retry executor. (1) The retry closure is summarised by path-sensitive abstract evaluation with the loop unrolled to a second and third attempt; a further attempt must be licensed, in order, by PostExecute of the previous result with Done=false, RecordResult=nil, an interruptible wait and InitializeRetry=nil, and every return must be the handled result, the attempt's own result after exceeded retries, or the cancel result of the test just taken. (2) OnFailure is evaluated as a decision table over the predicate abstraction of its conditions (integer comparisons in linear normal form, so off-by-one is decided for every maxRetries at once) and compared with the specification: counter +1, exceeded ⇔ (maxRetries≠-1 ∧ failed+1>maxRetries) ∨ (maxDuration≠0 ∧ elapsed>maxDuration), Done ⇔ abort ∨ exceeded ∨ ¬allowsRetries, ExceededError{last result,last error} iff exceeded ∧ ¬ReturnLastFailure ∧ ¬abort. (3) Ownership: the budget fields are written only by the executor's own methods, ToExecutor returns a fresh self-bound executor, and configuration fields are stored only by builder methods.",
		"wall-clock meaning of the max duration; interleavings of executions (C14); the inner policies' behaviour")
	register("C12", rulesC12,
		"Static check of the classification logic. BaseFailurePolicy.IsFailure is evaluated as a decision table over {no conditions, some condition matches, err≠nil, errorsChecked} and compared with the documented rule; every condition registrar (HandleErrors/HandleErrorTypes/HandleResult/HandleIf and the abort/cancel counterparts) is evaluated with its loop unrolled, the closures it registered are then evaluated in the registrar's final abstract state (so each closure must compare against the argument it was created for, and HandleResult must ignore outcomes carrying an error), errorsChecked is set exactly by the error-handling registrars, AppliesToAny is true iff some predicate applied in order to (result, err) returned true, errorAs tests the error's own type first, follows Unwrap() error and searches every element of Unwrap() []error, the three failure-handling executors and the breaker's standalone RecordResult/RecordError classify through the policy's own BaseFailurePolicy, and every builder method forwards its arguments unchanged.",
		"errors.Is, reflect.DeepEqual and the reflect package themselves (trusted); which concrete errors users pass")
	register("C10", rulesC10,
		"Static check of the fallback wrapper. The Apply closure is summarised path by path and compared with the specification: innerFn once, PostExecute classifies the inner result with the fallback's own IsFailure (slot resolution and shared BaseFailurePolicy checked), Success ⇒ the inner outcome is returned unchanged with no further effect, handled failure ⇒ cancellation test, the fallback function exactly once with a private copy carrying the failed result, a second cancellation test, the listener with the function's two values, and an output {Result, Error, Done=true, Success=SuccessAll=!IsFailure(output)}. The three builders yield exactly the configured result / error / function.",
		"which outcomes inner compositions can produce (quantified over abstractly); user fallback functions")
	register("C11", rulesC11,
		"Static check of the cache executor. PreExecute and PostExecute (getCacheKey inlined) are evaluated as decision tables: the key is the string under CacheKey in the execution's context if present, else the configured key; the cache is read iff the key is non-empty; a hit returns {cached, nil error, Done/Success/SuccessAll} and, because the Apply slot is BaseExecutor.Apply whose summary is checked, neither innerFn nor PostExecute runs; a miss returns nil; Set(key, Result) happens iff ((no CacheIf conditions ∧ Error==nil) ∨ a condition matches) ∧ key≠\"\"; PostExecute returns its argument; hit/miss/cached listeners fire exactly in their case.",
		"behaviour of the user's Cache implementation; histories of cache contents")
	register("C06", rulesC06,
		"Static check of the bulkhead. Capacity: the semaphore is make(chan struct{}, maxConcurrency), assigned only in Build. Ownership: every use of the semaphore in the program is a send inside one of the three acquire functions or the receive in ReleasePermit; it is never closed or handed out. Each acquire function is summarised over all select outcomes: success is reported exactly when one send on the semaphore was chosen, failures take nothing and report the reason of the case that ended the wait. The whole wrapper (executor slots inlined into BaseExecutor.Apply or whatever the Apply slot is) is summarised: one acquire with the execution's context and max wait; admitted ⇒ innerFn once then exactly one ReleasePermit and the inner result returned; refused ⇒ neither. Together with Go channel semantics this bounds permits by the capacity and pairs every acquire with one release on non-panicking paths.",
		"panics inside the wrapped function (documented to abort the execution); losing hedge attempts that keep running after the bulkhead released")
	register("C04", rulesC04,
		"Static check of the breaker's admission gate and permit pairing. PreExecute: a refused permit yields a non-nil FailureResult(ErrOpen), which BaseExecutor.Apply (summary checked) returns before innerFn; the whole wrapper with the executor's slots inlined is summarised: refused ⇒ no invocation and nothing recorded, admitted ⇒ innerFn once and then exactly one record call (failure ⇔ IsFailure) under the breaker's mutex on every returning path; recordSuccess/recordFailure each record on the current state and then call checkThresholdAndReleasePermit once; the standalone Record*/TryAcquirePermit API is Lock; defer Unlock; one internal call; the half-open state takes a permit only under permittedExecutions>0 (else refuses with no effect) and gives exactly one back on every path of its threshold check; the open state admits nothing before clock−start ≥ delay and then half-opens and takes a trial permit in the same critical section; the breaker's lock discipline (guarded-by, deferred unlock) is checked.",
		"the schedule clause about executions admitted before the breaker opened; numeric capacity; panics in the wrapped function")
	register("C03", rulesC03,
		"Static check of the breaker's machine skeleton and comparison logic. The state field is written only by Build and transitionTo; open/close/halfOpen are triggered exactly from the documented edges and map to transitionTo(state, exec, matching listener); transitionTo is summarised path by path (same state ⇒ nothing; else a fresh state object, the open state keeping the previous stats with delay = delay function value unless -1 else the configured delay, then specific and generic listeners once each with (old,new) after the state store); the closed, open and half-open threshold decisions are evaluated as decision tables over all orderings of the compared quantities (≥ versus > decided for every magnitude) against the documented tables; constructors give fresh stats and capacity-many trial permits; the counting ring keeps successes+failures=occupied, grows to size then evicts the head entry, head=(head+1)%size; timed records add one to bucket and summary; expired buckets are removed and reset pairwise; package circuitbreaker never reads the wall clock directly.",
		"sliding-window contents over time (which results fall in the thresholding period), rate rounding, RemainingDelay values, metrics values, bucket arithmetic under clock jumps")
}
