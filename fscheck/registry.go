package main

// Registry: property id → rules and evidence text.

type propDef struct {
	ID    string
	Rules func(c *Ctx)
	Info  propInfo
}

var commonAssumptions = []string{
	"only the library packages of /repo are in rule scope; user callbacks, user Cache implementations and code outside /repo are opaque and assumed not to touch unexported library state",
	"what is decided are structural necessary conditions of the property (DESIGN.md §3), not the behavioural statement itself",
}

var registry = map[string]*propDef{}

func register(id string, rules func(c *Ctx), explanation, notDecided string, extra ...string) {
	registry[id] = &propDef{ID: id, Rules: rules, Info: propInfo{Explanation: explanation, NotDecided: notDecided, Assumptions: append(append([]string{}, commonAssumptions...), extra...)}}
}

func init() {
	register("C01", rulesC01,
		"Static wrapper-contract check. The executor's composition loop, the leaf around the user function, BaseExecutor.Apply/PostExecute, the verdict helpers (WithDone/WithFailure), the self-binding of every ToExecutor and the eight entry points are each summarised by path-sensitive abstract evaluation of their go/ssa bodies (every feasible case of the predicate abstraction; calls to user code and interface slots are opaque events) and each summary is compared with the contract that makes a policy list behave as the nesting P1(P2(...Pn(fn))): policies applied innermost-first, the composed function invoked exactly once with the outer execution, a rejecting PreExecute returns before innerFn, PostExecute dispatches exactly one of OnFailure/OnSuccess through the self reference, and the caller receives exactly the outermost result.",
		"each policy's own documented behaviour beyond C02–C11; histories against stateful policies; anything about concurrent executions")
	register("C02", rulesC02,
		"Static check of the retry executor. (1) The retry closure is summarised by path-sensitive abstract evaluation with the loop unrolled to a second and third attempt; a further attempt must be licensed, in order, by PostExecute of the previous result with Done=false, RecordResult=nil, an interruptible wait and InitializeRetry=nil, and every return must be the handled result, the attempt's own result after exceeded retries, or the cancel result of the test just taken. (2) OnFailure is evaluated as a decision table over the predicate abstraction of its conditions (integer comparisons in linear normal form, so off-by-one is decided for every maxRetries at once) and compared with the specification: counter +1, exceeded ⇔ (maxRetries≠-1 ∧ failed+1>maxRetries) ∨ (maxDuration≠0 ∧ elapsed>maxDuration), Done ⇔ abort ∨ exceeded ∨ ¬allowsRetries, ExceededError{last result,last error} iff exceeded ∧ ¬ReturnLastFailure ∧ ¬abort. (3) Ownership: the budget fields are written only by the executor's own methods, ToExecutor returns a fresh self-bound executor, and configuration fields are stored only by builder methods.",
		"wall-clock meaning of the max duration; interleavings of executions (C14); the inner policies' behaviour")
	register("C12", rulesC12,
		"Static check of the classification logic. BaseFailurePolicy.IsFailure is evaluated as a decision table over {no conditions, some condition matches, err≠nil, errorsChecked} and compared with the documented rule; every condition registrar (HandleErrors/HandleErrorTypes/HandleResult/HandleIf and the abort/cancel counterparts) is evaluated with its loop unrolled, the closures it registered are then evaluated in the registrar's final abstract state (so each closure must compare against the argument it was created for, and HandleResult must ignore outcomes carrying an error), errorsChecked is set exactly by the error-handling registrars, AppliesToAny is true iff some predicate applied in order to (result, err) returned true, errorAs tests the error's own type first, follows Unwrap() error and searches every element of Unwrap() []error, the three failure-handling executors and the breaker's standalone RecordResult/RecordError classify through the policy's own BaseFailurePolicy, and every builder method forwards its arguments unchanged.",
		"errors.Is, reflect.DeepEqual and the reflect package themselves (trusted); which concrete errors users pass")
}
