package main

// Registry: property id → rules and evidence text.

type propDef struct {
	ID    string
	Rules func(c *Ctx)
	Info  propInfo
}

var commonAssumptions = []string{
	"only the library packages of /repo are in rule scope; user callbacks, user Cache implementations and code outside /repo are opaque and assumed not to touch unexported library state",
	"what is decided are structural necessary conditions of the property (DESIGN.md §3), not the behavioural statement itself",
}

var registry = map[string]*propDef{}

func register(id string, rules func(c *Ctx), explanation, notDecided string, extra ...string) {
	registry[id] = &propDef{ID: id, Rules: rules, Info: propInfo{Explanation: explanation, NotDecided: notDecided, Assumptions: append(append([]string{}, commonAssumptions...), extra...)}}
}

func init() {
	register("C01", rulesC01,
		"Static wrapper-contract check. The executor's composition loop, the leaf around the user function, BaseExecutor.Apply/PostExecute, the verdict helpers (WithDone/WithFailure), the self-binding of every ToExecutor and the eight entry points are each summarised by path-sensitive abstract evaluation of their go/ssa bodies (every feasible case of the predicate abstraction; calls to user code and interface slots are opaque events) and each summary is compared with the contract that makes a policy list behave as the nesting P1(P2(...Pn(fn))): policies applied innermost-first, the composed function invoked exactly once with the outer execution, a rejecting PreExecute returns before innerFn, PostExecute dispatches exactly one of OnFailure/OnSuccess through the self reference, and the caller receives exactly the outermost result.",
		"each policy's own documented behaviour beyond C02–C11; histories against stateful policies; anything about concurrent executions")
}
