package main

// Code that cannot run, and hooks that are never installed. A maintenance change may add a diagnostics hook: an
// unexported function-typed field that is nil unless an unexported setter installs something, where the setter is used
// by the package's tests only. In the library as users get it, nothing calls the setter, so the field holds its zero
// value on every execution and every `if hook != nil { hook(…) }` is decided. Two general facts carry this:
//
//   - a top-level function or method with an unexported name that nothing in the library calls, takes as a value or can
//     reach through an interface cannot run (Go gives a user no way to name it): its field accesses are no accesses;
//   - an unexported field of function or interface type that no code that can run stores to (spelling out the zero value
//     in a literal aside), and whose address is not handed on, holds nil.

import (
	"go/token"
	"go/types"
	"strings"

	"golang.org/x/tools/go/ssa"
)

// dead: fn (or the function it is nested in) cannot run in the library as shipped.
func (ix *Index) dead(fn *ssa.Function) bool {
	top := fn
	for top.Parent() != nil {
		top = top.Parent()
	}
	if top.Synthetic != "" || top.Pkg == nil || !ix.P.InScope[top] {
		return false
	}
	name := top.Name()
	if token.IsExported(name) || name == "init" || name == "main" || strings.HasPrefix(name, "init#") {
		return false
	}
	if len(ix.Refs[top]) != 0 {
		return false
	}
	if top.Signature.Recv() != nil && ix.allIfaceMethodNames()[name] {
		return false
	}
	return true
}

// allIfaceMethodNames: every method name some interface of the library declares (closed seams included).
func (ix *Index) allIfaceMethodNames() map[string]bool {
	if ix.everyIfaceMethod != nil {
		return ix.everyIfaceMethod
	}
	ix.everyIfaceMethod = map[string]bool{}
	for _, rel := range scopePkgs {
		pk := ix.P.ByPath[ix.P.pkgPath(rel)]
		if pk == nil {
			continue
		}
		sc := pk.Types.Scope()
		for _, n := range sc.Names() {
			if tn, ok := sc.Lookup(n).(*types.TypeName); ok {
				if it, ok := tn.Type().Underlying().(*types.Interface); ok {
					for i := 0; i < it.NumMethods(); i++ {
						ix.everyIfaceMethod[it.Method(i).Name()] = true
					}
				}
			}
		}
	}
	return ix.everyIfaceMethod
}

// dropDead removes the field accesses of functions that cannot run and records which fields live code stores to.
func (ix *Index) dropDead() {
	for fr, as := range ix.Accesses {
		kept := as[:0]
		for _, a := range as {
			if !ix.dead(a.Fn) {
				kept = append(kept, a)
			}
		}
		if len(kept) == 0 {
			delete(ix.Accesses, fr)
		} else {
			ix.Accesses[fr] = kept
		}
	}
	ix.liveFieldStores = map[string]bool{}
	vals := map[string][]ssa.Value{}
	for _, fn := range ix.P.Funcs {
		if ix.dead(fn) {
			continue
		}
		for _, b := range fn.Blocks {
			for _, in := range b.Instrs {
				fa, ok := in.(*ssa.FieldAddr)
				if !ok {
					continue
				}
				_, w, esc := addrUses(fa, map[ssa.Value]bool{})
				if w && zeroInitOnly(fa) {
					w = false
				}
				if !w && !esc {
					continue
				}
				k, _ := fieldKey(fa.X.Type(), fa.Field)
				direct := !esc
				if refs := fa.Referrers(); refs != nil && direct {
					for _, r := range *refs {
						switch x := r.(type) {
						case *ssa.Store:
							if x.Addr == fa {
								vals[k] = append(vals[k], x.Val)
							} else {
								direct = false
							}
						case *ssa.UnOp, *ssa.DebugRef:
						default:
							direct = false
						}
					}
				}
				if !direct {
					ix.liveFieldStores[k] = true
				}
			}
		}
	}
	// a store that only hands on what another never-set field holds (exec.trace = e.trace) sets nothing: assume every
	// field with plain stores only is unset and withdraw the assumption until it is consistent
	for changed := true; changed; {
		changed = false
		for k, vs := range vals {
			if ix.liveFieldStores[k] {
				continue
			}
			for _, v := range vs {
				if !ix.holdsUnset(v) {
					ix.liveFieldStores[k] = true
					changed = true
					break
				}
			}
		}
	}
}

// holdsUnset: v is the zero value or what a field not (yet) known to be set holds.
func (ix *Index) holdsUnset(v ssa.Value) bool {
	switch x := v.(type) {
	case *ssa.Const:
		return isZeroConst(x)
	case *ssa.ChangeType:
		return ix.holdsUnset(x.X)
	case *ssa.UnOp:
		if fa, isFA := x.X.(*ssa.FieldAddr); isFA && x.Op == token.MUL {
			k, ft := fieldKey(fa.X.Type(), fa.Field)
			return hookTyped(ft) && unexportedKey(k) && !ix.liveFieldStores[k]
		}
	case *ssa.Field:
		k, ft := fieldKey(x.X.Type(), x.Field)
		return hookTyped(ft) && unexportedKey(k) && !ix.liveFieldStores[k]
	}
	return false
}

func hookTyped(t types.Type) bool {
	if t == nil {
		return false
	}
	switch t.Underlying().(type) {
	case *types.Signature, *types.Interface:
		return true
	}
	return false
}

func unexportedKey(key string) bool {
	i := strings.LastIndex(key, ".")
	if i < 0 || i+1 >= len(key) || strings.HasSuffix(key, ".?") || strings.HasPrefix(key, "?") {
		return false
	}
	return !token.IsExported(key[i+1:])
}

// unsetHook: the field named by a faddr / fld key is an unexported function- or interface-typed field of a library
// struct that nothing that can run ever sets: it holds nil.
func (p *Program) unsetHook(key string, typ types.Type) bool {
	if !hookTyped(typ) || !unexportedKey(key) {
		return false
	}
	if v, done := p.unsetHooks[key]; done {
		return v
	}
	if p.unsetHooks == nil {
		p.unsetHooks = map[string]bool{}
	}
	if p.hookIndex == nil {
		p.hookIndex = BuildIndex(p)
	}
	// the struct must be one of the library's own
	own := false
	for _, rel := range scopePkgs {
		if pk := p.ByPath[p.pkgPath(rel)]; pk != nil && strings.HasPrefix(key, pk.Types.Name()+".") {
			own = true
		}
	}
	res := own && !p.hookIndex.liveFieldStores[key]
	p.unsetHooks[key] = res
	return res
}
