package main

// Last-resort anchor resolution for renamed unexported functions and methods.
//
// fingerprints.json is a frozen description of every function of the library as reviewed (package, canonical
// receiver type, signature, and the set of things its body mentions: exported / standard-library callees, interface
// methods invoked, struct fields read and written). When a rule asks for a function by its upstream name and no
// function of that name exists (and no role in names.go found it), the unclaimed functions of the same package with
// the same receiver type and signature are compared with the stored description; a clear best match is registered
// under the upstream name. Nothing is decided by the fingerprint itself: it only tells the rules where the function
// they want to analyse lives now. An ambiguous or poor match leaves the anchor unresolved, which fails closed.

import (
	_ "embed"
	"encoding/json"
	"fmt"
	"go/token"
	"go/types"
	"sort"
	"strings"

	"golang.org/x/tools/go/ssa"
)

//go:embed fingerprints.json
var fingerprintsJSON []byte

type fnPrint struct {
	Pkg   string   `json:"pkg"`
	Recv  string   `json:"recv,omitempty"`
	Sig   string   `json:"sig"`
	Feats []string `json:"feats"`
}

var fingerprintMatches int

func canonTypeString(t types.Type) string {
	s := types.TypeString(t, func(p *types.Package) string { return p.Name() })
	for o, c := range typeCanon {
		if o.Pkg() != nil {
			s = strings.ReplaceAll(s, o.Pkg().Name()+"."+o.Name(), o.Pkg().Name()+"."+c)
		}
	}
	return s
}

func sigString(fn *ssa.Function) string {
	var ps, rs []string
	sig := fn.Signature
	for i := 0; i < sig.Params().Len(); i++ {
		ps = append(ps, canonTypeString(sig.Params().At(i).Type()))
	}
	for i := 0; i < sig.Results().Len(); i++ {
		rs = append(rs, canonTypeString(sig.Results().At(i).Type()))
	}
	v := ""
	if sig.Variadic() {
		v = "..."
	}
	return "(" + strings.Join(ps, ",") + v + ")(" + strings.Join(rs, ",") + ")"
}

func recvCanon(fn *ssa.Function) string {
	if fn.Signature.Recv() == nil {
		return ""
	}
	if n := namedOfPtr(fn.Signature.Recv().Type()); n != nil {
		return typeCanonName(n.Obj())
	}
	return "?"
}

// features of a function body (and of its closures): only things that do not depend on unexported names that might
// themselves have been renamed and not yet resolved.
func (p *Program) features(fn *ssa.Function, known map[string]bool) []string {
	set := map[string]bool{}
	var walk func(f *ssa.Function)
	walk = func(f *ssa.Function) {
		for _, b := range f.Blocks {
			for _, in := range b.Instrs {
				switch x := in.(type) {
				case *ssa.FieldAddr:
					if fr, ok := fieldRefOf(x.X.Type(), x.Field); ok {
						_, w, _ := addrUses(x, map[ssa.Value]bool{})
						k := "field:" + fr.Pkg + "." + fr.Type + "." + canonicalField(fr.Pkg+"."+fr.Type+"."+fr.Field)
						set[k] = true
						if w {
							set[k+":w"] = true
						}
					}
				case *ssa.Field:
					if fr, ok := fieldRefOf(x.X.Type(), x.Field); ok {
						set["field:"+fr.Pkg+"."+fr.Type+"."+canonicalField(fr.Pkg+"."+fr.Type+"."+fr.Field)] = true
					}
				case *ssa.Select:
					set["select"] = true
				case *ssa.Send:
					set["send"] = true
				case *ssa.Go:
					set["go"] = true
				case *ssa.UnOp:
					if x.Op == token.ARROW {
						set["recv"] = true
					}
				}
				cc, ok := in.(ssa.CallInstruction)
				if !ok {
					continue
				}
				if cc.Common().IsInvoke() {
					for _, a := range cc.Common().Args {
						if k, isK := a.(*ssa.Const); isK && k.Value != nil {
							set["constarg:"+k.Value.ExactString()] = true
						}
					}
					m := cc.Common().Method
					if m.Exported() {
						set["invoke:"+m.Name()] = true
					} else if c := canonMethodName(m); known[m.Pkg().Name()+"#"+c] {
						set["invoke:"+c] = true
					}
					continue
				}
				cal := calleeOf(cc.Common())
				if cal == nil {
					continue
				}
				// constant arguments tell symmetric twins apart (recordSuccess → setNext(true), recordFailure → setNext(false))
				for _, a := range cc.Common().Args {
					if k, isK := a.(*ssa.Const); isK && k.Value != nil {
						set["constarg:"+k.Value.ExactString()] = true
					}
				}
				if !p.InScope[cal] {
					set["call:"+qualName(cal)] = true
					continue
				}
				name := p.CanonFuncName(cal)
				if cal.Object() != nil && cal.Object().Exported() {
					set["call:"+name] = true
				} else if known[name] && p.byName[name] == cal {
					set["call:"+name] = true
				}
			}
		}
		for _, a := range f.AnonFuncs {
			walk(a)
		}
	}
	walk(fn)
	var out []string
	for k := range set {
		out = append(out, k)
	}
	sort.Strings(out)
	return out
}

// computeFingerprints describes every top-level function and method in scope (the reference table).
func (p *Program) computeFingerprints() map[string]fnPrint {
	known := map[string]bool{}
	for _, fn := range p.Funcs {
		if fn.Parent() == nil {
			known[p.CanonFuncName(fn)] = true
			if fn.Signature.Recv() != nil && fn.Pkg != nil {
				known[fn.Pkg.Pkg.Name()+"#"+canonName(fn)] = true
			}
		}
	}
	out := map[string]fnPrint{}
	for _, fn := range p.Funcs {
		if fn.Parent() != nil || fn.Pkg == nil || fn.Synthetic != "" {
			continue
		}
		out[p.CanonFuncName(fn)] = fnPrint{Pkg: fn.Pkg.Pkg.Name(), Recv: recvCanon(fn), Sig: sigString(fn), Feats: p.features(fn, known)}
	}
	return out
}

func jaccard(a, b []string) float64 {
	sa := map[string]bool{}
	for _, x := range a {
		sa[x] = true
	}
	inter, union := 0, len(sa)
	for _, x := range b {
		if sa[x] {
			inter++
		} else {
			union++
		}
	}
	if union == 0 {
		return 1
	}
	return float64(inter) / float64(union)
}

// resolveByFingerprint registers renamed unexported functions under their upstream names (see the file comment).
func resolveByFingerprint(p *Program) {
	fingerprintMatches = 0
	var ref map[string]fnPrint
	if err := json.Unmarshal(fingerprintsJSON, &ref); err != nil || len(ref) == 0 {
		return
	}
	for pass := 0; pass < 4; pass++ {
		known := map[string]bool{}
		for name := range ref {
			if p.byName[name] != nil {
				known[name] = true
				if i := strings.LastIndex(name, ")."); i >= 0 {
					known[ref[name].Pkg+"#"+name[i+2:]] = true
				}
			}
		}
		// unclaimed functions: top-level, in scope, whose own (canonical) name is not a reference name
		var unclaimed []*ssa.Function
		claimed := map[*ssa.Function]bool{}
		for name := range ref {
			if f := p.byName[name]; f != nil {
				claimed[f] = true
			}
		}
		for _, fn := range p.Funcs {
			if fn.Parent() != nil || fn.Pkg == nil || fn.Synthetic != "" || claimed[fn] {
				continue
			}
			if _, isRef := ref[p.CanonFuncName(fn)]; isRef {
				continue
			}
			unclaimed = append(unclaimed, fn)
		}
		var missing []string
		for name := range ref {
			if p.byName[name] == nil {
				missing = append(missing, name)
			}
		}
		sort.Strings(missing)
		progress := false
		type cand struct {
			fn    *ssa.Function
			score float64
		}
		best := map[string]cand{}
		for _, name := range missing {
			fp := ref[name]
			var cs []cand
			for _, fn := range unclaimed {
				if fn.Pkg.Pkg.Name() != fp.Pkg || recvCanon(fn) != fp.Recv || sigString(fn) != fp.Sig {
					continue
				}
				cs = append(cs, cand{fn, jaccard(fp.Feats, p.features(fn, known))})
			}
			sort.Slice(cs, func(i, j int) bool { return cs[i].score > cs[j].score })
			if len(cs) == 0 || cs[0].score < 0.55 {
				continue
			}
			if len(cs) > 1 && cs[0].score-cs[1].score < 0.15 {
				continue // ambiguous
			}
			best[name] = cs[0]
		}
		// a function may be the best match of one name only
		taken := map[*ssa.Function]string{}
		dup := map[*ssa.Function]bool{}
		for name, c := range best {
			if prev, ok := taken[c.fn]; ok && prev != name {
				dup[c.fn] = true
			}
			taken[c.fn] = name
		}
		for name, c := range best {
			if dup[c.fn] {
				continue
			}
			short := name
			if i := strings.LastIndex(name, "."); i >= 0 {
				short = name[i+1:]
			}
			p.byName[name] = c.fn
			funcCanon[c.fn] = short
			p.aliasAnon(c.fn, name)
			fingerprintMatches++
			funcsRenamed++
			progress = true
		}
		p.ifaceMethodCanon()
		if !progress {
			break
		}
	}
	p.ifaceMethodCanon()
}

// ifaceMethodCanon: unexported interface methods renamed consistently on every implementer.
func (p *Program) ifaceMethodCanon() {
	for _, rel := range scopePkgs {
		pk := p.ByPath[p.pkgPath(rel)]
		sc := pk.Types.Scope()
		for _, nm := range sc.Names() {
			tn, ok := sc.Lookup(nm).(*types.TypeName)
			if !ok {
				continue
			}
			named, ok := tn.Type().(*types.Named)
			if !ok {
				continue
			}
			it, ok := named.Underlying().(*types.Interface)
			if !ok {
				continue
			}
			for i := 0; i < it.NumMethods(); i++ {
				m := it.Method(i)
				if m.Exported() || m.Pkg() == nil {
					continue
				}
				if _, done := methodCanon[m.Pkg().Name()+"."+m.Name()]; done {
					continue
				}
				canon := ""
				okAll := true
				n := 0
				for _, impl := range p.Implementers(named) {
					fn := p.MethodOf(impl, m.Name())
					if fn == nil {
						continue
					}
					n++
					c, renamed := funcCanon[fn]
					if !renamed {
						okAll = false
						break
					}
					if canon == "" {
						canon = c
					} else if canon != c {
						okAll = false
					}
				}
				if okAll && n > 0 && canon != "" && canon != m.Name() {
					methodCanon[m.Pkg().Name()+"."+m.Name()] = canon
				}
			}
		}
	}
}

func (p *Program) aliasAnon(fn *ssa.Function, canonical string) {
	for i, a := range fn.AnonFuncs {
		n := fmt.Sprintf("%s$%d", canonical, i+1)
		if p.byName[n] == nil {
			p.byName[n] = a
		}
		p.aliasAnon(a, n)
	}
}
