package main

// Last-resort anchor resolution for renamed unexported functions and methods.
//
// fingerprints.json is a frozen description of every function of the library as reviewed (package, canonical
// receiver type, signature, and the set of things its body mentions: exported / standard-library callees, interface
// methods invoked, struct fields read and written). When a rule asks for a function by its upstream name and no
// function of that name exists (and no role in names.go found it), the unclaimed functions of the same package with
// the same receiver type and signature are compared with the stored description; a clear best match is registered
// under the upstream name. Nothing is decided by the fingerprint itself: it only tells the rules where the function
// they want to analyse lives now. An ambiguous or poor match leaves the anchor unresolved, which fails closed.

import (
	_ "embed"
	"encoding/json"
	"fmt"
	"go/token"
	"go/types"
	"sort"
	"strings"

	"golang.org/x/tools/go/ssa"
)

//go:embed fingerprints.json
var fingerprintsJSON []byte

type fnPrint struct {
	Pkg    string   `json:"pkg"`
	Recv   string   `json:"recv,omitempty"`
	Sig    string   `json:"sig"`
	Flat   string   `json:"flat,omitempty"`   // signature with the receiver as first parameter (function ↔ method moves)
	Params []string `json:"params,omitempty"` // upstream names of receiver and parameters, in order
	Feats  []string `json:"feats"`
}

var refPrints map[string]fnPrint

func refParamNames(canonical string) ([]string, bool) {
	if refPrints == nil {
		refPrints = map[string]fnPrint{}
		json.Unmarshal(fingerprintsJSON, &refPrints)
	}
	fp, ok := refPrints[canonical]
	if !ok {
		return nil, false
	}
	return fp.Params, true
}

var fingerprintMatches int

func canonTypeString(t types.Type) string {
	s := types.TypeString(t, func(p *types.Package) string { return p.Name() })
	for o, c := range typeCanon {
		if o.Pkg() != nil {
			s = strings.ReplaceAll(s, o.Pkg().Name()+"."+o.Name(), o.Pkg().Name()+"."+c)
		}
	}
	return s
}

func sigString(fn *ssa.Function) string {
	var ps, rs []string
	sig := fn.Signature
	for i := 0; i < sig.Params().Len(); i++ {
		ps = append(ps, canonTypeString(sig.Params().At(i).Type()))
	}
	for i := 0; i < sig.Results().Len(); i++ {
		rs = append(rs, canonTypeString(sig.Results().At(i).Type()))
	}
	v := ""
	if sig.Variadic() {
		v = "..."
	}
	return "(" + strings.Join(ps, ",") + v + ")(" + strings.Join(rs, ",") + ")"
}

func flatSig(fn *ssa.Function) string {
	s := sigString(fn)
	if r := fn.Signature.Recv(); r != nil {
		rs := canonTypeString(r.Type())
		if strings.HasPrefix(s, "()") {
			return "(" + rs + ")" + s[2:]
		}
		return "(" + rs + "," + s[1:]
	}
	return s
}

func recvCanon(fn *ssa.Function) string {
	if fn.Signature.Recv() == nil {
		return ""
	}
	if n := namedOfPtr(fn.Signature.Recv().Type()); n != nil {
		return typeCanonName(n.Obj())
	}
	return "?"
}

// features of a function body (and of its closures): only things that do not depend on unexported names that might
// themselves have been renamed and not yet resolved.
func (p *Program) features(fn *ssa.Function, known map[string]bool) []string {
	set := map[string]bool{}
	var walk func(f *ssa.Function)
	walk = func(f *ssa.Function) {
		for _, b := range f.Blocks {
			for _, in := range b.Instrs {
				switch x := in.(type) {
				case *ssa.FieldAddr:
					if fr, ok := fieldRefOfAddr(x); ok {
						_, w, _ := addrUses(x, map[ssa.Value]bool{})
						k := "field:" + fr.Pkg + "." + fr.Type + "." + canonicalField(fr.Pkg+"."+fr.Type+"."+fr.Field)
						set[k] = true
						if w {
							set[k+":w"] = true
						}
					}
				case *ssa.Field:
					if fr, ok := fieldRefOf(x.X.Type(), x.Field); ok {
						set["field:"+fr.Pkg+"."+fr.Type+"."+canonicalField(fr.Pkg+"."+fr.Type+"."+fr.Field)] = true
					}
				case *ssa.Select:
					set["select"] = true
				case *ssa.Send:
					set["send"] = true
				case *ssa.Go:
					set["go"] = true
				case *ssa.UnOp:
					if x.Op == token.ARROW {
						set["recv"] = true
					}
				}
				cc, ok := in.(ssa.CallInstruction)
				if !ok {
					continue
				}
				if cc.Common().IsInvoke() {
					for _, a := range cc.Common().Args {
						if k, isK := a.(*ssa.Const); isK && k.Value != nil {
							set["constarg:"+k.Value.ExactString()] = true
						}
					}
					m := cc.Common().Method
					if m.Exported() {
						set["invoke:"+m.Name()] = true
					} else if c := canonMethodName(m); known[m.Pkg().Name()+"#"+c] {
						set["invoke:"+c] = true
					}
					continue
				}
				cal := calleeOf(cc.Common())
				if cal == nil {
					continue
				}
				// constant arguments tell symmetric twins apart (recordSuccess → setNext(true), recordFailure → setNext(false))
				for _, a := range cc.Common().Args {
					if k, isK := a.(*ssa.Const); isK && k.Value != nil {
						set["constarg:"+k.Value.ExactString()] = true
					}
				}
				if !p.InScope[cal] {
					set["call:"+qualName(cal)] = true
					continue
				}
				name := p.CanonFuncName(cal)
				if cal.Object() != nil && cal.Object().Exported() {
					set["call:"+name] = true
				} else if known[name] && p.byName[name] == cal {
					set["call:"+name] = true
				}
			}
		}
		for _, a := range f.AnonFuncs {
			walk(a)
		}
	}
	walk(fn)
	var out []string
	for k := range set {
		out = append(out, k)
	}
	sort.Strings(out)
	return out
}

// computeFingerprints describes every top-level function and method in scope (the reference table).
func (p *Program) computeFingerprints() map[string]fnPrint {
	known := map[string]bool{}
	for _, fn := range p.Funcs {
		if fn.Parent() == nil {
			known[p.CanonFuncName(fn)] = true
			if fn.Signature.Recv() != nil && fn.Pkg != nil {
				known[fn.Pkg.Pkg.Name()+"#"+canonName(fn)] = true
			}
		}
	}
	out := map[string]fnPrint{}
	for _, fn := range p.Funcs {
		if fn.Parent() != nil || fn.Pkg == nil || fn.Synthetic != "" {
			continue
		}
		var pn []string
		for _, prm := range fn.Params {
			pn = append(pn, prm.Name())
		}
		out[p.CanonFuncName(fn)] = fnPrint{Pkg: fn.Pkg.Pkg.Name(), Recv: recvCanon(fn), Sig: sigString(fn), Flat: flatSig(fn), Params: pn, Feats: p.features(fn, known)}
	}
	return out
}

func jaccard(a, b []string) float64 {
	sa := map[string]bool{}
	for _, x := range a {
		sa[x] = true
	}
	inter, union := 0, len(sa)
	for _, x := range b {
		if sa[x] {
			inter++
		} else {
			union++
		}
	}
	if union == 0 {
		return 1
	}
	return float64(inter) / float64(union)
}

// resolveByFingerprint registers renamed unexported functions under their upstream names (see the file comment).
func resolveByFingerprint(p *Program) {
	fingerprintMatches = 0
	var ref map[string]fnPrint
	if err := json.Unmarshal(fingerprintsJSON, &ref); err != nil || len(ref) == 0 {
		return
	}
	for pass := 0; pass < 4; pass++ {
		known := map[string]bool{}
		for name := range ref {
			if p.byName[name] != nil {
				known[name] = true
				if i := strings.LastIndex(name, ")."); i >= 0 {
					known[ref[name].Pkg+"#"+name[i+2:]] = true
				}
			}
		}
		// unclaimed functions: top-level, in scope, whose own (canonical) name is not a reference name
		var unclaimed []*ssa.Function
		claimed := map[*ssa.Function]bool{}
		for name := range ref {
			if f := p.byName[name]; f != nil {
				claimed[f] = true
			}
		}
		for _, fn := range p.Funcs {
			if fn.Parent() != nil || fn.Pkg == nil || fn.Synthetic != "" || claimed[fn] {
				continue
			}
			if _, isRef := ref[p.CanonFuncName(fn)]; isRef {
				continue
			}
			unclaimed = append(unclaimed, fn)
		}
		var missing []string
		for name := range ref {
			if p.byName[name] == nil {
				missing = append(missing, name)
			}
		}
		sort.Strings(missing)
		progress := false
		type cand struct {
			fn    *ssa.Function
			score float64
		}
		best := map[string]cand{}
		for _, name := range missing {
			fp := ref[name]
			var cs []cand
			for _, fn := range unclaimed {
				if fn.Pkg.Pkg.Name() != fp.Pkg || recvCanon(fn) != fp.Recv || sigString(fn) != fp.Sig {
					continue
				}
				cs = append(cs, cand{fn, jaccard(fp.Feats, p.features(fn, known))})
			}
			if len(cs) == 0 && fp.Flat != "" {
				// a function that became a method of its first parameter's type, or the reverse: same flattened
				// signature; the unchanged name is then decisive
				short := name
				if i := strings.LastIndex(name, "."); i >= 0 {
					short = name[i+1:]
				}
				for _, fn := range unclaimed {
					if fn.Pkg.Pkg.Name() != fp.Pkg || flatSig(fn) != fp.Flat || (recvCanon(fn) == fp.Recv) {
						continue
					}
					sc := jaccard(fp.Feats, p.features(fn, known))
					if fn.Name() == short {
						sc = 1
					}
					cs = append(cs, cand{fn, sc})
				}
			}
			sort.Slice(cs, func(i, j int) bool { return cs[i].score > cs[j].score })
			if debugRoles {
				fmt.Printf("fingerprint: %s missing; %d candidates", name, len(cs))
				for _, cnd := range cs {
					fmt.Printf(" %s=%.2f", cnd.fn.Name(), cnd.score)
				}
				fmt.Println()
			}
			if len(cs) == 0 || cs[0].score < 0.55 {
				continue
			}
			if len(cs) > 1 && cs[0].score-cs[1].score < 0.15 {
				continue // ambiguous
			}
			best[name] = cs[0]
		}
		// a function may be the best match of one name only
		taken := map[*ssa.Function]string{}
		dup := map[*ssa.Function]bool{}
		for name, c := range best {
			if prev, ok := taken[c.fn]; ok && prev != name {
				dup[c.fn] = true
			}
			taken[c.fn] = name
		}
		for name, c := range best {
			if dup[c.fn] {
				continue
			}
			short := name
			if i := strings.LastIndex(name, "."); i >= 0 {
				short = name[i+1:]
			}
			p.byName[name] = c.fn
			funcCanon[c.fn] = short
			p.aliasAnon(c.fn, name)
			fingerprintMatches++
			funcsRenamed++
			progress = true
		}
		p.ifaceMethodCanon()
		if !progress {
			break
		}
	}
	p.ifaceMethodCanon()
}

// ifaceMethodCanon: unexported interface methods renamed consistently on every implementer.
func (p *Program) ifaceMethodCanon() {
	for _, rel := range scopePkgs {
		pk := p.ByPath[p.pkgPath(rel)]
		sc := pk.Types.Scope()
		for _, nm := range sc.Names() {
			tn, ok := sc.Lookup(nm).(*types.TypeName)
			if !ok {
				continue
			}
			named, ok := tn.Type().(*types.Named)
			if !ok {
				continue
			}
			it, ok := named.Underlying().(*types.Interface)
			if !ok {
				continue
			}
			for i := 0; i < it.NumMethods(); i++ {
				m := it.Method(i)
				if m.Exported() || m.Pkg() == nil {
					continue
				}
				if _, done := methodCanon[m.Pkg().Name()+"."+m.Name()]; done {
					continue
				}
				canon := ""
				okAll := true
				n := 0
				for _, impl := range p.Implementers(named) {
					fn := p.MethodOf(impl, m.Name())
					if fn == nil {
						continue
					}
					n++
					c, renamed := funcCanon[fn]
					if !renamed {
						okAll = false
						break
					}
					if canon == "" {
						canon = c
					} else if canon != c {
						okAll = false
					}
				}
				if okAll && n > 0 && canon != "" && canon != m.Name() {
					methodCanon[m.Pkg().Name()+"."+m.Name()] = canon
				}
			}
		}
	}
}

func (p *Program) aliasAnon(fn *ssa.Function, canonical string) {
	for i, a := range fn.AnonFuncs {
		n := fmt.Sprintf("%s$%d", canonical, i+1)
		if p.byName[n] == nil {
			p.byName[n] = a
		}
		p.aliasAnon(a, n)
	}
}

// ---- struct fields ------------------------------------------------------------------------------------------
//
// The same last resort for renamed unexported struct fields: fieldprints.json records, for every field of the
// library's structs that some function touches, its type and which functions read and write it. A field the rules
// name that no longer exists is matched against the struct's unclaimed fields of the same type by who uses them.

//go:embed fieldprints.json
var fieldprintsJSON []byte

type fieldPrint struct {
	Typ   string   `json:"typ"`
	Users []string `json:"users"` // "r:<canonical function>" / "w:<canonical function>"
}

var fieldMatches int

// rawIndex makes BuildIndex key field accesses by the analysed tree's own field names (used while resolving them).
var rawIndex bool

// declaredIn finds the struct (the named struct itself or a grouping part held by value) that declares the field,
// and the field's type.
func (p *Program) declaredIn(rel, typ, field string) (*types.Named, types.Type) {
	n := p.NamedType(rel, typ)
	if n == nil {
		return nil, nil
	}
	if strings.Contains(field, ".") {
		// "part.leaf": follow the path
		cur := n
		parts := strings.Split(field, ".")
		for i, name := range parts {
			s, ok := cur.Underlying().(*types.Struct)
			if !ok {
				return nil, nil
			}
			found := false
			for j := 0; j < s.NumFields(); j++ {
				if s.Field(j).Name() != name {
					continue
				}
				found = true
				if i == len(parts)-1 {
					return cur, s.Field(j).Type()
				}
				pn, isN := s.Field(j).Type().(*types.Named)
				if !isN {
					return nil, nil
				}
				cur = pn
			}
			if !found {
				return nil, nil
			}
		}
		return nil, nil
	}
	var res *types.Named
	var ft types.Type
	var walk func(n *types.Named, depth int)
	walk = func(n *types.Named, depth int) {
		s, ok := n.Underlying().(*types.Struct)
		if !ok || depth > 3 {
			return
		}
		for i := 0; i < s.NumFields(); i++ {
			f := s.Field(i)
			if embeddedCanon(f) == field || f.Name() == field {
				if res == nil {
					res, ft = n, f.Type()
				}
			}
			if pn, isN := f.Type().(*types.Named); isN && pn.Obj().Pkg() == n.Obj().Pkg() && !pn.Obj().Exported() {
				if _, isStruct := pn.Underlying().(*types.Struct); isStruct {
					walk(pn, depth+1)
				}
			}
		}
	}
	walk(n, 0)
	return res, ft
}

func relOf(pkgName string) string {
	if pkgName == "failsafe" {
		return ""
	}
	for _, rel := range scopePkgs {
		if rel == pkgName || strings.HasSuffix(rel, "/"+pkgName) {
			return rel
		}
	}
	return pkgName
}

func (p *Program) fieldUsers(ix *Index, fr FieldRef) []string {
	set := map[string]bool{}
	for _, a := range ix.Accesses[fr] {
		top := a.Fn
		for top.Parent() != nil {
			top = top.Parent()
		}
		k := "r:"
		if a.Write {
			k = "w:"
		}
		set[k+p.CanonFuncName(top)] = true
	}
	var out []string
	for k := range set {
		out = append(out, k)
	}
	sort.Strings(out)
	return out
}

func (p *Program) computeFieldprints() map[string]fieldPrint {
	ix := BuildIndex(p)
	out := map[string]fieldPrint{}
	for fr := range ix.Accesses {
		_, ft := p.declaredIn(relOf(fr.Pkg), fr.Type, fr.Field)
		if ft == nil {
			continue
		}
		out[fr.String()] = fieldPrint{Typ: canonTypeString(ft), Users: p.fieldUsers(ix, fr)}
	}
	return out
}

func resolveFieldsByFingerprint(p *Program) {
	fieldMatches = 0
	var ref map[string]fieldPrint
	if err := json.Unmarshal(fieldprintsJSON, &ref); err != nil || len(ref) == 0 {
		return
	}
	rawIndex = true
	ix := BuildIndex(p)
	rawIndex = false
	// current fields per struct
	cur := map[string][]FieldRef{} // "pkg.Type" -> refs
	for fr := range ix.Accesses {
		cur[fr.Pkg+"."+fr.Type] = append(cur[fr.Pkg+"."+fr.Type], fr)
	}
	refNames := map[string]bool{}
	for k := range ref {
		refNames[k] = true
	}
	type cand struct {
		fr    FieldRef
		score float64
	}
	best := map[string]cand{}
	var keys []string
	for k := range ref {
		keys = append(keys, k)
	}
	sort.Strings(keys)
	for _, k := range keys {
		parts := strings.SplitN(k, ".", 3)
		if len(parts) != 3 {
			continue
		}
		pkg, typ, field := parts[0], parts[1], parts[2]
		if _, mapped := toActual[k]; mapped {
			continue
		}
		if n, _ := p.declaredIn(relOf(pkg), typ, field); n != nil {
			continue // still there under its upstream name
		}
		var cs []cand
		for _, fr := range cur[pkg+"."+typ] {
			if refNames[fr.String()] {
				continue
			}
			if _, isCanon := toCanonical[fr.String()]; isCanon {
				continue
			}
			_, ft := p.declaredIn(relOf(pkg), typ, fr.Field)
			if ft == nil || canonTypeString(ft) != ref[k].Typ {
				continue
			}
			cs = append(cs, cand{fr, jaccard(ref[k].Users, p.fieldUsers(ix, fr))})
		}
		sort.Slice(cs, func(i, j int) bool { return cs[i].score > cs[j].score })
		if len(cs) == 0 || cs[0].score < 0.5 {
			continue
		}
		if len(cs) > 1 && cs[0].score-cs[1].score < 0.15 {
			continue
		}
		best[k] = cs[0]
	}
	taken := map[FieldRef]int{}
	for _, c := range best {
		taken[c.fr]++
	}
	for k, c := range best {
		if taken[c.fr] != 1 {
			continue
		}
		parts := strings.SplitN(k, ".", 3)
		pkg, typ, field := parts[0], parts[1], parts[2]
		toActual[k] = c.fr.Field
		toCanonical[pkg+"."+typ+"."+c.fr.Field] = field
		if n, _ := p.declaredIn(relOf(pkg), typ, c.fr.Field); n != nil && typeCanonName(n.Obj()) != typ {
			part := typeCanonName(n.Obj())
			leaf := c.fr.Field
			if i := strings.LastIndex(leaf, "."); i >= 0 {
				leaf = leaf[i+1:]
			}
			toActual[pkg+"."+part+"."+field] = leaf
			toCanonical[pkg+"."+part+"."+leaf] = field
		}
		fieldMatches++
		rolesRenamed++
	}
	// elimination: within one struct, a reference field that is gone and a current field that is new, the only ones of
	// their type on either side, are the same field under a new name (its users may all have been reshaped)
	type slot struct{ missing, fresh []string }
	groups := map[string]*slot{} // "pkg.Type|fieldtype"
	for _, k := range keys {
		parts := strings.SplitN(k, ".", 3)
		if len(parts) != 3 {
			continue
		}
		if _, mapped := toActual[k]; mapped {
			continue
		}
		if n, _ := p.declaredIn(relOf(parts[0]), parts[1], parts[2]); n != nil {
			continue
		}
		g := parts[0] + "." + parts[1] + "|" + ref[k].Typ
		if groups[g] == nil {
			groups[g] = &slot{}
		}
		groups[g].missing = append(groups[g].missing, parts[2])
	}
	for st, frs := range cur {
		seen := map[string]bool{}
		for _, fr := range frs {
			if refNames[fr.String()] || seen[fr.Field] || strings.Contains(fr.Field, ".") {
				continue
			}
			if _, isCanon := toCanonical[fr.String()]; isCanon {
				continue
			}
			seen[fr.Field] = true
			_, ft := p.declaredIn(relOf(fr.Pkg), fr.Type, fr.Field)
			if ft == nil {
				continue
			}
			if g := groups[st+"|"+canonTypeString(ft)]; g != nil {
				g.fresh = append(g.fresh, fr.Field)
			}
		}
	}
	for g, s := range groups {
		if len(s.missing) != 1 || len(s.fresh) != 1 {
			continue
		}
		st := g[:strings.Index(g, "|")]
		toActual[st+"."+s.missing[0]] = s.fresh[0]
		toCanonical[st+"."+s.fresh[0]] = s.missing[0]
		fieldMatches++
		rolesRenamed++
	}
}
