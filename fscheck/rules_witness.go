package main

// WITNESS — compile-fail witnesses (DESIGN §2.2): small programs over the public API that must fail to
// type-check against the current tree with a specific error. They are parsed and type-checked with go/types
// against the packages already loaded; nothing is compiled or executed.

import (
	"fmt"
	"go/ast"
	"go/parser"
	"go/token"
	"go/types"
	"os"
	"path/filepath"
	"sort"
	"strings"
)

type progImporter struct{ p *Program }

func (pi progImporter) Import(path string) (*types.Package, error) {
	var found *types.Package
	seen := map[string]bool{}
	var visit func(pk *types.Package)
	visit = func(pk *types.Package) {
		if pk == nil || seen[pk.Path()] || found != nil {
			return
		}
		seen[pk.Path()] = true
		if pk.Path() == path {
			found = pk
			return
		}
		for _, im := range pk.Imports() {
			visit(im)
		}
	}
	for _, pk := range pi.p.Pkgs {
		visit(pk.Types)
	}
	if found == nil {
		return nil, fmt.Errorf("package %s not loaded", path)
	}
	return found, nil
}

var witnessDir = "/verif/witness"

func witnessRules(c *Ctx, prop string) {
	c.Rule("witness")
	files, _ := filepath.Glob(filepath.Join(witnessDir, "*.go.txt"))
	sort.Strings(files)
	n := 0
	for _, f := range files {
		src, err := os.ReadFile(f)
		if err != nil {
			continue
		}
		first := strings.SplitN(string(src), "\n", 2)[0]
		parts := strings.SplitN(strings.TrimPrefix(first, "// props:"), "| expect:", 2)
		if len(parts) != 2 {
			continue
		}
		applies := false
		for _, p := range strings.Fields(parts[0]) {
			if p == prop {
				applies = true
			}
		}
		if !applies {
			continue
		}
		want := strings.TrimSpace(parts[1])
		name := strings.TrimSuffix(filepath.Base(f), ".go.txt")
		fset := token.NewFileSet()
		af, err := parser.ParseFile(fset, name+".go", src, 0)
		if err != nil {
			c.Unresolved("witness:"+name, "witness does not parse: "+err.Error())
			continue
		}
		var errs []string
		conf := types.Config{Importer: progImporter{c.P}, Error: func(e error) { errs = append(errs, e.Error()) }}
		conf.Check("witness", fset, []*ast.File{af}, nil)
		n++
		joined := strings.Join(errs, "; ")
		if want == "OK" {
			if len(errs) == 0 {
				c.Ok("witness:"+name, "", "control program type-checks (imports resolve)")
			} else {
				c.Fail("witness:"+name, "", "a control program over the public API no longer type-checks: "+joined, "")
			}
			continue
		}
		if len(errs) == 0 {
			c.Fail("witness:"+name, "", "a program that must not compile now type-checks: user code can reach lock-protected internals or mutate built objects ("+strings.TrimSpace(first)+")", string(src))
			continue
		}
		if !strings.Contains(joined, want) {
			c.Fail("witness:"+name, "", fmt.Sprintf("the witness fails to type-check, but not with the expected error %q: %s", want, joined), "")
			continue
		}
		c.Ok("witness:"+name, "", "does not type-check: "+firstLine(joined))
	}
	c.Floor("compile-fail witnesses for "+prop, n, 1)
}
