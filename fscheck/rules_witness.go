package main

// placeholder; compile-fail witnesses are added later
func witnessRules(c *Ctx, prop string) {}
