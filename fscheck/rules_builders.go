package main

// Generic builder rule over the role table (names.go): every exported builder method / constructor that is the
// anchor of a configuration field stores exactly its argument into that field (appends it, for condition
// lists) and, when it is a method, returns the builder. Delegating forms (WithFailureThreshold(n) ≡
// WithFailureThresholdRatio(n, n), With(x) ≡ Builder(x).Build()) are checked separately where they exist.

import (
	"fmt"
	"go/types"
	"sort"
	"strings"

	"golang.org/x/tools/go/ssa"
)

func buildersStore(c *Ctx, pkg string) {
	c.Rule("builders-store")
	n := 0
	for _, r := range roleTable {
		if r.pkg != pkg || r.fn == "" || r.param < 0 {
			continue
		}
		fn := c.P.Func(r.fn)
		if fn == nil {
			c.Unresolved(r.fn, "builder anchor not found")
			continue
		}
		ev := NewEvaluator(c.P, EvalConfig{Inline: func(f *ssa.Function, d int) bool {
			// base registrars (BaseDelayablePolicy.WithDelay …) are evaluated in place
			return c.P.InScope[f] && f.Pkg != nil && f.Pkg.Pkg.Name() == "policy" && !strings.HasPrefix(f.Name(), "Handle") && !strings.HasPrefix(f.Name(), "Abort")
		}})
		ps := ev.Run(fn)
		if ev.Err != nil || len(ps) == 0 || r.param >= len(fn.Params) {
			c.Undecided(r.fn, c.P.FuncPos(fn), fmt.Sprintf("evaluation failed: %v", ev.Err), "")
			continue
		}
		arg := ev.Param(fn, fn.Params[r.param].Name())
		ok := true
		for _, p := range ps {
			if p.Exit != ExitReturn {
				continue
			}
			var obj *T
			isMethod := fn.Signature.Recv() != nil
			if isMethod {
				obj = ev.Param(fn, fn.Params[0].Name())
				if len(p.Rets) == 1 && p.Rets[0] != obj {
					ok = false
					c.Fail(r.fn+"#"+r.canonical, c.P.FuncPos(fn), "a builder method must return the builder it was called on", pathTrace(ev, p))
					continue
				}
			} else if len(p.Rets) == 1 {
				obj = p.Rets[0]
			}
			if obj == nil {
				continue
			}
			// a builder method changes nothing but the fields it is the anchor of (and the ones it documents to clear)
			if isMethod {
				for _, ch := range changedFields(ev, p, obj) {
					if !builderMayChange(r.fn, ch) {
						ok = false
						c.Fail(r.fn+"#"+r.canonical, c.P.FuncPos(fn), fmt.Sprintf("%s also changes the configuration field %s: a builder method must only set what it documents (here it would silently drop configuration made earlier, e.g. a delay function installed by failsafehttp.RetryPolicyBuilder)", fn.Name(), ch), pathTrace(ev, p))
					}
				}
			}
			got := ev.LoadField(p.State, obj, r.canonical)
			if got == nil {
				ok = false
				c.Fail(r.fn+"#"+r.canonical, c.P.FuncPos(fn), "configuration field "+r.canonical+" not found on the builder", "")
				continue
			}
			good := got == arg
			if !good {
				// condition lists: append(old, arg)
				if base, elems := appendedElems(ev, p.State, got); len(elems) == 1 && elems[0] == arg && isMethod && base == ev.LoadField(ev.NewState(), obj, r.canonical) {
					good = true
				}
			}
			if !good && got.Op == "app" && strings.HasPrefix(got.Aux, "conv:") && got.Args[0] == arg {
				good = true // unsigned → signed conversion of a count
			}
			// a duration that only ever arms a timer (the time limit, the hedge delay) may be clamped at zero: the runtime
			// treats every non-positive duration alike
			if !good && (r.canonical == "timeLimit" || (pkg == "hedgepolicy" && r.canonical == "delayFunc")) && sameDelay(got, arg) {
				good = true
			}
			if !good {
				ok = false
				c.Fail(r.fn+"#"+r.canonical, c.P.FuncPos(fn), fmt.Sprintf("%s must store its argument %s unchanged as %s (found %s)", fn.Name(), arg, r.canonical, got), pathTrace(ev, p))
			}
		}
		if ok {
			n++
			c.Ok(r.fn+"#"+r.canonical, c.P.FuncPos(fn), "stores its argument unchanged")
		}
	}
	if n == 0 {
		c.Unresolved("builders of "+pkg, "no builder anchors resolved")
	}
	c.Count("builder anchors of "+pkg, n)
	if pkg == "circuitbreaker" || pkg == "retrypolicy" {
		baseDelayBuilders(c)
	}
}

// baseDelayBuilders: the delay setters of the shared BaseDelayablePolicy (which the breaker's and the retry policy's
// WithDelay / WithDelayFunc forward to) store their argument and nothing else: the fixed delay stays the fallback for a
// delay function that computes none (-1).
func baseDelayBuilders(c *Ctx) {
	for _, sp := range []struct{ fn, field string }{
		{"policy.(*BaseDelayablePolicy).WithDelay", "Delay"},
		{"policy.(*BaseDelayablePolicy).WithDelayFunc", "DelayFunc"},
	} {
		fn := c.P.Func(sp.fn)
		if fn == nil {
			c.Unresolved(sp.fn, "not found")
			continue
		}
		ev := NewEvaluator(c.P, EvalConfig{})
		ps := ev.Run(fn)
		if ev.Err != nil || len(ps) == 0 || len(fn.Params) < 2 {
			c.Undecided(sp.fn, c.P.FuncPos(fn), fmt.Sprintf("evaluation failed: %v", ev.Err), "")
			continue
		}
		recv, arg := ev.Param(fn, fn.Params[0].Name()), ev.Param(fn, fn.Params[1].Name())
		ok := true
		for _, p := range ps {
			if p.Exit != ExitReturn {
				continue
			}
			if ev.LoadField(p.State, recv, sp.field) != arg {
				ok = false
				c.Fail(sp.fn, c.P.FuncPos(fn), fn.Name()+" must store its argument as "+sp.field, pathTrace(ev, p))
			}
			for _, ch := range changedFields(ev, p, recv) {
				if ch != sp.field {
					ok = false
					c.Fail(sp.fn, c.P.FuncPos(fn), fn.Name()+" also changes "+ch+": the other delay setting must survive (a delay function that computes no delay falls back to the fixed delay)", pathTrace(ev, p))
				}
			}
		}
		if ok {
			c.Ok(sp.fn, c.P.FuncPos(fn), "stores its argument as "+sp.field+" and nothing else")
		}
	}
}

// delegatingBuilders: the convenience forms are exactly their general forms.
func delegatingBuilders(c *Ctx, pkg string) {
	c.Rule("builders-delegate")
	type d struct {
		fn, callee string
		args       []string // parameter names, or "#k" for constant k
	}
	table := map[string][]d{
		"circuitbreaker": {
			{"circuitbreaker.(*config).WithFailureThreshold", "WithFailureThresholdRatio", []string{"failureThreshold", "failureThreshold"}},
			{"circuitbreaker.(*config).WithSuccessThreshold", "WithSuccessThresholdRatio", []string{"successThreshold", "successThreshold"}},
		},
		"retrypolicy": {
			{"retrypolicy.(*config).WithBackoff", "WithBackoffFactor", []string{"delay", "maxDelay", "#2"}},
		},
	}
	for _, sp := range table[pkg] {
		fn := c.P.Func(sp.fn)
		if fn == nil {
			c.Unresolved(sp.fn, "not found")
			continue
		}
		ev := NewEvaluator(c.P, EvalConfig{Opaque: map[string]bool{sp.callee: true}})
		ok := true
		ps := ev.Run(fn)
		for _, p := range ps {
			calls := eventsWhere(p, func(e *Event) bool { return e.Kind == EvCall && !e.Pure })
			good := p.Exit == ExitReturn && len(calls) == 1 && calls[0].Method == sp.callee && len(calls[0].Args) == len(sp.args) && len(p.Rets) == 1 && p.Rets[0] == calls[0].Res[0]
			if good {
				for i, a := range sp.args {
					if strings.HasPrefix(a, "#") {
						// numeric literal (int or float)
						s := calls[0].Args[i].String()
						if s != a[1:] {
							good = false
						}
					} else if calls[0].Args[i] != ev.Param(fn, a) {
						good = false
					}
				}
			}
			if !good {
				ok = false
				c.Fail(sp.fn, c.P.FuncPos(fn), fmt.Sprintf("%s must be exactly %s(%s)", fn.Name(), sp.callee, strings.Join(sp.args, ", ")), pathTrace(ev, p))
			}
		}
		if ok && len(ps) > 0 {
			c.Ok(sp.fn, c.P.FuncPos(fn), "≡ "+sp.callee+"("+strings.Join(sp.args, ", ")+")")
		}
	}
	// WithFailureThresholdPeriod(n, period): count threshold, capacity and execution threshold are all n
	if pkg == "circuitbreaker" {
		if fn := c.P.Func("circuitbreaker.(*config).WithFailureThresholdPeriod"); fn == nil {
			c.Unresolved("circuitbreaker.(*config).WithFailureThresholdPeriod", "not found")
		} else {
			ev := NewEvaluator(c.P, EvalConfig{})
			ok := true
			recv := ev.Param(fn, fn.Params[0].Name())
			for _, p := range ev.Run(fn) {
				n, per := ev.Param(fn, fn.Params[1].Name()), ev.Param(fn, fn.Params[2].Name())
				for _, f := range []string{"failureThreshold", "failureThresholdingCapacity", "failureExecutionThreshold"} {
					if ev.LoadField(p.State, recv, f) != n {
						ok = false
						c.Fail(c.fn(fn), c.P.FuncPos(fn), "a period-count threshold n must set the failure threshold, its capacity and the execution threshold to n ("+f+")", pathTrace(ev, p))
					}
				}
				if ev.LoadField(p.State, recv, "failureThresholdingPeriod") != per {
					ok = false
					c.Fail(c.fn(fn), c.P.FuncPos(fn), "the thresholding period must be stored unchanged", pathTrace(ev, p))
				}
			}
			if ok {
				c.Ok(c.fn(fn), c.P.FuncPos(fn), "threshold = capacity = execution threshold = n; period stored")
			}
		}
	}
	// With…(x) ≡ Builder…(x).Build()
	withForms := map[string][][2]string{
		"timeout":        {{"timeout.With", "Builder"}},
		"bulkhead":       {{"bulkhead.With", "Builder"}},
		"cachepolicy":    {{"cachepolicy.With", "Builder"}},
		"hedgepolicy":    {{"hedgepolicy.WithDelay", "BuilderWithDelay"}, {"hedgepolicy.WithDelayFunc", "BuilderWithDelayFunc"}},
		"fallback":       {{"fallback.WithResult", "BuilderWithResult"}, {"fallback.WithError", "BuilderWithError"}, {"fallback.WithFunc", "BuilderWithFunc"}},
		"retrypolicy":    {{"retrypolicy.WithDefaults", "Builder"}},
		"circuitbreaker": {{"circuitbreaker.WithDefaults", "Builder"}},
		"ratelimiter":    {{"ratelimiter.Bursty", "BurstyBuilder"}, {"ratelimiter.Smooth", "SmoothBuilder"}, {"ratelimiter.SmoothWithMaxRate", "SmoothBuilderWithMaxRate"}},
	}
	for _, w := range withForms[pkg] {
		fn := c.P.Func(w[0])
		if fn == nil {
			continue
		}
		ev := NewEvaluator(c.P, EvalConfig{NoSamePkgInline: true})
		ok := true
		ps := ev.Run(fn)
		var sameBuilt *bool // decided at most once, when the shorthand is not literally Builder(…).Build()
		for _, p := range ps {
			calls := eventsWhere(p, func(e *Event) bool { return e.Kind == EvCall && !e.Pure })
			good := p.Exit == ExitReturn && len(calls) == 2 && calls[0].Method == w[1] && isCall(calls[1], "Build") && calls[1].Recv == calls[0].Res[0] && p.Rets[0] == calls[1].Res[0]
			if good {
				for i, prm := range fn.Params {
					if i >= len(calls[0].Args) || calls[0].Args[i] != ev.Param(fn, prm.Name()) {
						good = false
					}
				}
			}
			if debugLoadField {
				fmt.Println("forced withBuildsSame", w[0], withBuildsSame(c, fn, c.P.Func(pkg+"."+w[1])))
			}
			if !good && sameBuilt == nil {
				sb := withBuildsSame(c, fn, c.P.Func(pkg+"."+w[1]))
				sameBuilt = &sb
			}
			if !good && !*sameBuilt {
				ok = false
				c.Fail(w[0], c.P.FuncPos(fn), fn.Name()+" must be exactly "+w[1]+"(its arguments).Build()", pathTrace(ev, p))
			}
		}
		if ok && len(ps) > 0 {
			c.Ok(w[0], c.P.FuncPos(fn), map[bool]string{true: "≡ " + w[1] + "(…).Build()", false: "builds the same object from the same arguments as " + w[1] + "(…).Build()"}[sameBuilt == nil])
		}
	}
}

// changedFields lists the fields of the builder object (and of the Base*Policy objects it embeds by pointer)
// whose value at the end of path p differs from the initial one.
func changedFields(ev *Evaluator, p *Path, obj *T) []string {
	var out []string
	s0 := ev.NewState()
	outer := namedOfPtr(obj.Typ)
	var walk func(cur0, cur1 *T, depth int, prefix string)
	walk = func(cur0, cur1 *T, depth int, prefix string) {
		n := namedOfPtr(cur0.Typ)
		if n == nil {
			return
		}
		st, ok := n.Underlying().(*types.Struct)
		if !ok {
			return
		}
		for i := 0; i < st.NumFields(); i++ {
			f := st.Field(i)
			// a grouping part held by value (embedded or named, same package): compare its fields one by one
			if pn, isN := f.Type().(*types.Named); isN && pn.Obj().Pkg() == n.Obj().Pkg() && depth < 3 {
				if _, isStruct := pn.Underlying().(*types.Struct); isStruct {
					a0, a1 := ev.faddr(cur0, n, i), ev.faddr(cur1, n, i)
					a0.Typ, a1.Typ = types.NewPointer(pn), types.NewPointer(pn)
					walk(a0, a1, depth+1, prefix+f.Name()+".")
					continue
				}
			}
			a := ev.load(s0, ev.faddr(cur0, n, i), f.Type())
			b := ev.load(p.State, ev.faddr(cur1, n, i), f.Type())
			if f.Embedded() && depth == 0 {
				if _, isPtr := f.Type().Underlying().(*types.Pointer); isPtr && a == b {
					a.Typ = f.Type()
					walk(a, b, depth+1, "")
					continue
				}
			}
			if a != b {
				// a leaf that occurs in several by-value parts of the builder is known by its qualified name there
				if prefix != "" && outer != nil {
					if cn, ok := toCanonical[outer.Obj().Pkg().Name()+"."+typeCanonName(outer.Obj())+"."+prefix+f.Name()]; ok {
						out = append(out, cn)
						continue
					}
				}
				out = append(out, canonicalField(n.Obj().Pkg().Name()+"."+typeCanonName(n.Obj())+"."+f.Name()))
			}
		}
	}
	walk(obj, obj, 0, "")
	sort.Strings(out)
	return out
}

// builderMayChange: fields a builder method may change: the ones anchored at it in the role table plus the
// documented clears.
func builderMayChange(fn, field string) bool {
	for _, r := range roleTable {
		if r.fn == fn && r.canonical == field {
			return true
		}
	}
	extra := map[string][]string{
		"retrypolicy.(*config).WithBackoffFactor":            {"Delay", "delayMin", "delayMax"},
		"retrypolicy.(*config).WithRandomDelay":              {"Delay", "maxDelay"},
		"circuitbreaker.(*config).WithFailureRateThreshold":  {},
		"circuitbreaker.(*config).WithFailureThresholdRatio": {},
		"circuitbreaker.(*config).WithSuccessThresholdRatio": {},
		"policy.(*BaseFailurePolicy).HandleIf":               {"errorsChecked"},
		"policy.(*BaseAbortablePolicy).AbortOnResult":        {},
		"cachepolicy.(*config).CacheIf":                      {},
	}
	for _, f := range extra[fn] {
		if f == field {
			return true
		}
	}
	return false
}

// withBuildsSame: with (a With… shorthand) and builder(the same arguments).Build() construct the same object: same
// shape of the result, same effects, on the same conditions. Everything of the library is evaluated in place, so it
// does not matter how the construction is factored into helpers.
func withBuildsSame(c *Ctx, with, builder *ssa.Function) bool {
	if with == nil || builder == nil || len(with.Params) != len(builder.Params) {
		return false
	}
	cfg := func() EvalConfig {
		return EvalConfig{ResolveInvoke: resolveByStaticType, MaxPaths: 256, Inline: func(f *ssa.Function, depth int) bool { return c.P.InScope[f] && depth < 12 }}
	}
	names := func(fn *ssa.Function) []string {
		var out []string
		for _, p := range fn.Params {
			out = append(out, p.Name())
		}
		return out
	}
	evW := NewEvaluator(c.P, cfg())
	psW := evW.Run(with)
	if evW.Err != nil || len(psW) == 0 {
		return false
	}
	evB := NewEvaluator(c.P, cfg())
	var psB []*Path
	for _, p := range evB.Run(builder) {
		if p.Exit != ExitReturn || len(p.Rets) != 1 {
			return false
		}
		bf, recv := resolveByStaticType(evB, p.State, p.Rets[0], "Build")
		if bf == nil {
			return false
		}
		for _, q := range evB.RunFrom(p.State, bf, []*T{recv}, nil) {
			q.Base = 0
			psB = append(psB, q)
		}
	}
	if evB.Err != nil || len(psB) != len(psW) {
		return false
	}
	shapes := func(ev *Evaluator, ps []*Path, params []string) []string {
		var out []string
		for _, p := range ps {
			out = append(out, newShaper(ev, p.State, params).pathShape(p, len(ps) > 1))
		}
		sort.Strings(out)
		return out
	}
	a, b := shapes(evW, psW, names(with)), shapes(evB, psB, names(builder))
	for i := range a {
		if a[i] != b[i] {
			if debugLoadField {
				fmt.Printf("withBuildsSame %s:\n  %s\n  %s\n", with.Name(), a[i], b[i])
			}
			return false
		}
	}
	return true
}
