package triage

import (
	"errors"
	"testing"
	"time"

	"github.com/failsafe-go/failsafe-go"
	"github.com/failsafe-go/failsafe-go/bulkhead"
	"github.com/failsafe-go/failsafe-go/fallback"
	"github.com/failsafe-go/failsafe-go/ratelimiter"
	"github.com/failsafe-go/failsafe-go/timeout"
)

// C05: bursty limiter, deficit of one permit, then an idle gap of five periods:
// availablePermits becomes -1 + 5*2 = 9 > maxExecutions = 2.
func TestBurstyRefillUncapped(t *testing.T) {
	rl := ratelimiter.Bursty[any](2, 50*time.Millisecond)
	_ = rl.ReservePermits(3)
	time.Sleep(5*50*time.Millisecond + 10*time.Millisecond)
	n := 0
	for rl.TryAcquirePermit() && n < 100 {
		n++
	}
	if n > 2 {
		t.Errorf("C05 violated: %d permits usable at one instant, maxExecutions per period is 2", n)
	}
}

var errHandled = errors.New("handled")
var errOther = errors.New("other")

// C12: HandleErrors(errHandled)+HandleResult(false); outcome (false, errOther) carries an error that no
// condition handles, and HandleResult only applies to outcomes without an error, so it is not a failure.
func TestHandleResultMatchesDespiteError(t *testing.T) {
	fb := fallback.BuilderWithResult[bool](true).HandleErrors(errHandled).HandleResult(false).Build()
	_, err := failsafe.Get(func() (bool, error) { return false, errOther }, fb)
	if err == nil {
		t.Errorf("C12 violated: fallback applied to (false, errOther)")
	}
}

// C14: run with -race. Timeout(Bulkhead) with OnFull reading LastError while the timeout fires.
func TestLiveExecutionHandedToListener(t *testing.T) {
	for i := 0; i < 300; i++ {
		bh := bulkhead.Builder[any](1).WithMaxWaitTime(2 * time.Millisecond).OnFull(func(e failsafe.ExecutionEvent[any]) {
			for j := 0; j < 2000; j++ {
				_ = e.LastError()
			}
		}).Build()
		bh.TryAcquirePermit()
		_ = failsafe.Run(func() error { return nil }, timeout.With[any](2*time.Millisecond), bh)
	}
}
