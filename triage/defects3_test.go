package triage

import (
	"runtime"
	"testing"
	"time"

	"github.com/failsafe-go/failsafe-go"
	"github.com/failsafe-go/failsafe-go/hedgepolicy"
	"github.com/failsafe-go/failsafe-go/timeout"
)

// userCtx is a context type of the user's own (not one of package context's): context.WithCancel has to watch its
// Done channel with a goroutine of its own, which lives until the child is cancelled or the parent ends.
type userCtx struct{ done chan struct{} }

func (userCtx) Deadline() (time.Time, bool) { return time.Time{}, false }
func (c userCtx) Done() <-chan struct{}     { return c.done }
func (userCtx) Err() error                  { return nil }
func (userCtx) Value(any) any               { return nil }

// K4 (C19.child-contexts): the cancellable child contexts that Timeout, Hedge and the async runner derive for an
// execution are cancelled only when the execution is cancelled, never when it completes normally. With a long-lived
// parent context of a non-standard type every successful execution therefore leaves one context-propagation
// goroutine behind.
func TestChildContextsReleasedOnCompletion(t *testing.T) {
	parent := userCtx{done: make(chan struct{})}
	defer close(parent.done)
	for name, run := range map[string]func(){
		"timeout": func() {
			failsafe.NewExecutor[any](timeout.With[any](time.Minute)).WithContext(parent).Run(func() error { return nil })
		},
		"hedge": func() {
			failsafe.NewExecutor[any](hedgepolicy.BuilderWithDelay[any](time.Minute).Build()).WithContext(parent).Run(func() error { return nil })
		},
		"async": func() {
			failsafe.NewExecutor[any]().WithContext(parent).RunAsync(func() error { return nil }).Get()
		},
	} {
		runtime.GC()
		time.Sleep(50 * time.Millisecond)
		before := runtime.NumGoroutine()
		for i := 0; i < 50; i++ {
			run()
		}
		time.Sleep(200 * time.Millisecond)
		if after := runtime.NumGoroutine(); after > before+5 {
			t.Errorf("%s: %d goroutines before, %d after 50 completed executions", name, before, after)
		}
	}
}
