package triage

import (
	"errors"
	"testing"
	"time"

	"github.com/failsafe-go/failsafe-go"
	"github.com/failsafe-go/failsafe-go/ratelimiter"
	"github.com/failsafe-go/failsafe-go/retrypolicy"
	"github.com/failsafe-go/failsafe-go/timeout"
)

// D8 (C08.wait-cause): the rate limiter's wait reads the cause of a cancellation from exec.LastError(). Cancel records
// the error only on the execution it is called on; when the limiter runs on a copy (inside a Timeout, a hedge attempt),
// a cancellation of the root — ExecutionResult.Cancel — leaves the copy's last error unset and the wait reports the bare
// context error instead of ErrExecutionCanceled. The Timeout never fires here: the only source is the Cancel.
func TestRateLimiterWaitReportsCancelCauseOnACopy(t *testing.T) {
	rl := ratelimiter.SmoothBuilderWithMaxRate[any](time.Minute).WithMaxWaitTime(time.Hour).Build()
	if !rl.TryAcquirePermit() {
		t.Fatal("setup")
	}
	to := timeout.With[any](time.Hour)
	rp := retrypolicy.Builder[any]().Build()
	res := failsafe.NewExecutor[any](to, rl, rp).RunAsync(func() error { return nil })
	time.Sleep(100 * time.Millisecond)
	res.Cancel()
	select {
	case <-res.Done():
	case <-time.After(5 * time.Second):
		t.Fatal("cancelled execution did not complete")
	}
	if err := res.Error(); !errors.Is(err, failsafe.ErrExecutionCanceled) {
		t.Errorf("expected ErrExecutionCanceled, got %v", err)
	}
}
