package triage

import (
	"errors"
	"testing"
	"time"

	"github.com/failsafe-go/failsafe-go"
	"github.com/failsafe-go/failsafe-go/bulkhead"
	"github.com/failsafe-go/failsafe-go/retrypolicy"
)

// D7 (C08.wait-cause): an async execution cancelled through its ExecutionResult while an outermost bulkhead is
// waiting for a permit reports a bare context.Canceled instead of ErrExecutionCanceled (the rate limiter, in the same
// position, reports the cause).
func TestBulkheadWaitReportsCancelCause(t *testing.T) {
	bh := bulkhead.Builder[any](1).WithMaxWaitTime(time.Minute).Build()
	if !bh.TryAcquirePermit() {
		t.Fatal("setup")
	}
	defer bh.ReleasePermit()
	rp := retrypolicy.Builder[any]().Build()
	res := failsafe.NewExecutor[any](bh, rp).RunAsync(func() error { return nil })
	time.Sleep(100 * time.Millisecond)
	res.Cancel()
	select {
	case <-res.Done():
	case <-time.After(5 * time.Second):
		t.Fatal("cancelled execution did not complete")
	}
	if err := res.Error(); !errors.Is(err, failsafe.ErrExecutionCanceled) {
		t.Errorf("expected ErrExecutionCanceled, got %v", err)
	}
}
