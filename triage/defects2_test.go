package triage

import (
	"context"
	"errors"
	"io"
	"net/http"
	"net/http/httptest"
	"runtime"
	"strings"
	"sync/atomic"
	"testing"
	"time"

	"github.com/failsafe-go/failsafe-go"
	"github.com/failsafe-go/failsafe-go/failsafehttp"
	"github.com/failsafe-go/failsafe-go/retrypolicy"
	"github.com/failsafe-go/failsafe-go/timeout"
)

type ctxKey struct{}

// C18 (D4) + C19 (D3) + C18 (K2): request context with a value (never done) and a Timeout policy (so the
// execution context is a non-background child). The merged context drops the value, its watcher goroutine
// never ends, and the returned body cannot be read because the merged context is cancelled on return.
func TestHTTPAdapterContexts(t *testing.T) {
	var sawValue atomic.Bool
	inner := roundTripperFunc(func(r *http.Request) (*http.Response, error) {
		if r.Context().Value(ctxKey{}) != nil {
			sawValue.Store(true)
		}
		return http.DefaultTransport.RoundTrip(r)
	})
	srv := httptest.NewServer(http.HandlerFunc(func(w http.ResponseWriter, r *http.Request) {
		w.WriteHeader(200)
		w.(http.Flusher).Flush()
		time.Sleep(20 * time.Millisecond)
		_, _ = io.WriteString(w, strings.Repeat("x", 1<<16))
	}))
	defer srv.Close()
	rt := failsafehttp.NewRoundTripper(inner, timeout.With[*http.Response](5*time.Second))
	client := &http.Client{Transport: rt}

	before := runtime.NumGoroutine()
	var readErr error
	for i := 0; i < 50; i++ {
		ctx := context.WithValue(context.Background(), ctxKey{}, "v")
		req, _ := http.NewRequestWithContext(ctx, "GET", srv.URL, nil)
		resp, err := client.Do(req)
		if err != nil {
			t.Fatal(err)
		}
		_, e := io.ReadAll(resp.Body)
		if e != nil {
			readErr = e
		}
		resp.Body.Close()
	}
	client.CloseIdleConnections()
	time.Sleep(200 * time.Millisecond)
	after := runtime.NumGoroutine()
	if !sawValue.Load() {
		t.Errorf("C18 (D4): inner transport's context lost the caller's value")
	}
	if readErr != nil {
		t.Errorf("C18 (K2): returned body not readable to the end: %v", readErr)
	}
	if after-before > 10 {
		t.Errorf("C19 (D3): goroutines grew from %d to %d after 50 completed requests", before, after)
	}
}

type roundTripperFunc func(*http.Request) (*http.Response, error)

func (f roundTripperFunc) RoundTrip(r *http.Request) (*http.Response, error) { return f(r) }

// C08/C15 (D5): Cancel of an async retrying execution must surface ErrExecutionCanceled, never a bare
// context error.
func TestAsyncCancelAttribution(t *testing.T) {
	rp := retrypolicy.Builder[any]().WithMaxRetries(-1).Build()
	bare := 0
	const trials = 20000
	for i := 0; i < trials; i++ {
		r := failsafe.NewExecutor[any](rp).RunAsync(func() error { return errors.New("fail") })
		if i%2 == 0 {
			runtime.Gosched()
		}
		r.Cancel()
		err := r.Error()
		if !errors.Is(err, failsafe.ErrExecutionCanceled) {
			bare++
			if bare == 1 {
				t.Logf("first misattributed error: %v", err)
			}
		}
	}
	if bare > 0 {
		t.Errorf("C08/C15 (D5): %d of %d cancelled executions reported something other than ErrExecutionCanceled", bare, trials)
	}
}

// C19 (K3): responses discarded by a retry are never closed.
func TestRetriedResponsesClosed(t *testing.T) {
	var opened, closed atomic.Int32
	inner := roundTripperFunc(func(r *http.Request) (*http.Response, error) {
		opened.Add(1)
		return &http.Response{StatusCode: 503, Header: http.Header{}, Body: &countingBody{closed: &closed}, Request: r}, nil
	})
	rt := failsafehttp.NewRoundTripper(inner, failsafehttp.RetryPolicyBuilder().WithMaxRetries(3).ReturnLastFailure().Build())
	req, _ := http.NewRequest("GET", "http://example.invalid/", nil)
	resp, err := rt.RoundTrip(req)
	if err == nil && resp != nil {
		resp.Body.Close()
	}
	if o, c := opened.Load(), closed.Load(); o != c {
		t.Errorf("C19 (K3): %d responses obtained, %d closed", o, c)
	}
}

type countingBody struct{ closed *atomic.Int32 }

func (b *countingBody) Read(p []byte) (int, error) { return 0, io.EOF }
func (b *countingBody) Close() error               { b.closed.Add(1); return nil }
